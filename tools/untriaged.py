"""List first-order mutants that were not flagged and have no verdict in mutation/triage.json yet."""
import glob, json, os
V = os.path.dirname(os.path.dirname(os.path.abspath(__file__)))
tri = json.load(open(os.path.join(V, "mutation", "triage.json")))
for p in sorted(glob.glob(os.path.join(V, "mutation", "C*.jsonl"))):
    pid = os.path.basename(p)[:3]
    for l in open(p):
        if not l.strip():
            continue
        r = json.loads(l)
        if r["outcome"] in ("survived", "harness-error") and "%s:%d" % (pid, r["k"]) not in tri:
            print("%s:%d %s %s:%s L%s [%s]\n    - %s\n    + %s\n    %s" % (pid, r["k"], r["outcome"], os.path.basename(r["file"]), r["function"], r["line"], r["operator"], r["before"][:200].replace("\n", " | "), r["after"][:200].replace("\n", " | "), r["check"][:160] if r["outcome"] != "survived" else ""))

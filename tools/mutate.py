"""Systematic first-order mutants of the functions a property is anchored in (sensitivity protocol, DESIGN §2.7/§8.5).

    mutate.py list  <PROP>                 -> one line per candidate mutant:  <k> <file>:<func>:<line> <operator>
    mutate.py pick  <PROP> <N> [seed]      -> N candidate numbers, spread round-robin over the anchored functions
    mutate.py apply <PROP> <k> <worktree>  -> rewrites the anchored file inside <worktree> with mutant k, prints its description

Candidate functions come from properties.jsonl (anchors.mechanism[].where).  Operators: arithmetic / comparison /
boolean operator swaps, small-integer constants +-1, True<->False, `not` removal, negation removal, statement
deletion (expression statements, augmented assignments), `if` condition forced, slice bound dropped.
The mutated module is written with ast.unparse (comments are lost, semantics are not)."""

import ast
import copy
import json
import os
import random
import re
import sys

V = os.path.dirname(os.path.dirname(os.path.abspath(__file__)))

BIN = {ast.Add: ast.Sub, ast.Sub: ast.Add, ast.Mult: ast.Div, ast.Div: ast.Mult, ast.FloorDiv: ast.Div, ast.Mod: ast.FloorDiv, ast.Pow: ast.Mult}
CMP = {ast.Lt: ast.LtE, ast.LtE: ast.Lt, ast.Gt: ast.GtE, ast.GtE: ast.Gt, ast.Eq: ast.NotEq, ast.NotEq: ast.Eq, ast.Is: ast.IsNot, ast.IsNot: ast.Is, ast.In: ast.NotIn, ast.NotIn: ast.In}


def anchored(prop):
    for line in open(os.path.join(V, "properties.jsonl")):
        d = json.loads(line)
        if d["id"] == prop:
            break
    else:
        raise SystemExit("unknown property " + prop)
    files = {os.path.basename(f): f for f in d["anchors"]["files"] if f.endswith(".py")}
    # quantem has two object_models.py: keep every path per base name
    paths = {}
    for f in d["anchors"]["files"]:
        paths.setdefault(os.path.basename(f), []).append(f)
    out = []  # (path, funcname)
    for m in d["anchors"]["mechanism"]:
        for part in m["where"].split(";"):
            part = part.strip()
            mm = re.match(r"([\w]+\.py)\s*:?\s*(.*)", part)
            if not mm:
                continue
            base, rest = mm.group(1), mm.group(2)
            rest = re.sub(r"\(.*?\)", "", rest)
            names = [n.split(".")[-1] for n in re.findall(r"[A-Za-z_\*][\w\.\*]*", rest)]
            names = [n for n in names if n not in ("property", "setters", "and", "subclasses", "classes")]
            for p in paths.get(base, []):
                for n in names or ["*"]:
                    out.append((p, n))
    return out


def _match(name, pat):
    if pat == "*":
        return True
    if "*" in pat:
        return re.fullmatch(pat.replace("*", ".*"), name) is not None
    return name == pat


class Finder(ast.NodeVisitor):
    """Collect (function-node, class-name) for the wanted names; a wanted class name selects all its methods."""

    def __init__(self, wanted):
        self.wanted = wanted
        self.found = []
        self.cls = []

    def visit_ClassDef(self, node):
        self.cls.append(node.name)
        whole = any(_match(node.name, w) for w in self.wanted)
        for ch in node.body:
            if isinstance(ch, (ast.FunctionDef, ast.AsyncFunctionDef)):
                if whole or any(_match(ch.name, w) for w in self.wanted):
                    self.found.append((ch, node.name))
            elif isinstance(ch, ast.ClassDef):
                self.visit_ClassDef(ch)
        self.cls.pop()

    def visit_FunctionDef(self, node):
        if any(_match(node.name, w) for w in self.wanted):
            self.found.append((node, ""))


def sites(fn):
    """Yield (node, operator-label, mutator) for every mutation site inside function node fn."""
    doc = ast.get_docstring(fn)
    for node in ast.walk(fn):
        if isinstance(node, ast.BinOp) and type(node.op) in BIN:
            new = BIN[type(node.op)]
            yield node, "%s->%s" % (type(node.op).__name__, new.__name__), (lambda n, new=new: setattr(n, "op", new()))
        elif isinstance(node, ast.Compare) and len(node.ops) == 1 and type(node.ops[0]) in CMP:
            new = CMP[type(node.ops[0])]
            yield node, "%s->%s" % (type(node.ops[0]).__name__, new.__name__), (lambda n, new=new: setattr(n, "ops", [new()]))
        elif isinstance(node, ast.BoolOp):
            new = ast.Or if isinstance(node.op, ast.And) else ast.And
            yield node, "%s->%s" % (type(node.op).__name__, new.__name__), (lambda n, new=new: setattr(n, "op", new()))
        elif isinstance(node, ast.UnaryOp) and isinstance(node.op, (ast.Not, ast.USub)):
            yield node, "drop-" + type(node.op).__name__, "unwrap"
        elif isinstance(node, ast.Constant) and not isinstance(node.value, str):
            if node.value is True or node.value is False:
                yield node, "bool-flip", (lambda n: setattr(n, "value", not n.value))
            elif isinstance(node.value, int) and abs(node.value) <= 16:
                yield node, "int+1", (lambda n: setattr(n, "value", n.value + 1))
                yield node, "int-1", (lambda n: setattr(n, "value", n.value - 1))
            elif isinstance(node.value, float) and node.value not in (0.0,):
                yield node, "float*2", (lambda n: setattr(n, "value", n.value * 2))
        elif isinstance(node, (ast.AugAssign,)) or (isinstance(node, ast.Expr) and isinstance(node.value, ast.Call)):
            if isinstance(node, ast.Expr) and doc is not None and False:
                continue
            yield node, "delete-stmt", "pass"
        elif isinstance(node, ast.If):
            yield node, "if-true", (lambda n: setattr(n, "test", ast.Constant(True)))
            yield node, "if-false", (lambda n: setattr(n, "test", ast.Constant(False)))
        elif isinstance(node, ast.Slice) and (node.lower is not None or node.upper is not None):
            if node.lower is not None:
                yield node, "slice-drop-lower", (lambda n: setattr(n, "lower", None))
            if node.upper is not None:
                yield node, "slice-drop-upper", (lambda n: setattr(n, "upper", None))


def candidates(prop, root="/repo"):
    """[(path, qualified function, lineno, label, site-index-in-function)] in a stable order."""
    by_file = {}
    for p, n in anchored(prop):
        by_file.setdefault(p, set()).add(n)
    out = []
    for p in sorted(by_file):
        tree = ast.parse(open(os.path.join(root, p)).read())
        f = Finder(by_file[p])
        for top in tree.body:
            if isinstance(top, ast.ClassDef):
                f.visit_ClassDef(top)
            elif isinstance(top, (ast.FunctionDef, ast.AsyncFunctionDef)):
                f.visit_FunctionDef(top)
        seen = set()
        for fn, cls in f.found:
            key = (cls, fn.name, fn.lineno)
            if key in seen:
                continue
            seen.add(key)
            for i, (node, label, _m) in enumerate(sites(fn)):
                out.append((p, (cls + "." if cls else "") + fn.name, getattr(node, "lineno", fn.lineno), label, fn.lineno, i))
    return out


def pick(prop, n, seed=0):
    c = candidates(prop)
    groups = {}
    for k, x in enumerate(c):
        groups.setdefault((x[0], x[1]), []).append(k)
    r = random.Random("%s-%s" % (prop, seed))
    for g in groups.values():
        r.shuffle(g)
    order = sorted(groups)
    r.shuffle(order)
    out = []
    while len(out) < n and any(groups.values()):
        for g in order:
            if groups[g] and len(out) < n:
                out.append(groups[g].pop())
    return sorted(out)


def apply(prop, k, wt):
    p, qual, lineno, label, fn_line, idx = candidates(prop)[k]
    path = os.path.join(wt, p)
    tree = ast.parse(open(os.path.join("/repo", p)).read())
    target = None
    for node in ast.walk(tree):
        if isinstance(node, (ast.FunctionDef, ast.AsyncFunctionDef)) and node.lineno == fn_line and node.name == qual.split(".")[-1]:
            target = node
            break
    assert target is not None
    node, lab, mut = list(sites(target))[idx]
    assert lab == label
    before = ast.unparse(node)[:160]
    if mut == "pass" or mut == "unwrap":
        # replace the node inside its parent
        repl = ast.Pass() if mut == "pass" else node.operand
        for parent in ast.walk(target):
            for field, val in ast.iter_fields(parent):
                if val is node:
                    setattr(parent, field, repl)
                elif isinstance(val, list):
                    for i, v in enumerate(val):
                        if v is node:
                            val[i] = repl
    else:
        mut(node)
    ast.fix_missing_locations(tree)
    src = ast.unparse(tree)
    compile(src, path, "exec")
    open(path, "w").write(src + "\n")
    after = "pass" if mut == "pass" else ast.unparse(node.operand if mut == "unwrap" else node)[:160]
    print(json.dumps({"k": k, "file": p, "function": qual, "line": lineno, "operator": label, "before": before, "after": after}))


if __name__ == "__main__":
    cmd, prop = sys.argv[1], sys.argv[2]
    if cmd == "list":
        for k, x in enumerate(candidates(prop)):
            print(k, "%s:%s:%d" % (x[0], x[1], x[2]), x[3])
    elif cmd == "pick":
        print(" ".join(map(str, pick(prop, int(sys.argv[3]), sys.argv[4] if len(sys.argv) > 4 else 0))))
    elif cmd == "apply":
        apply(prop, int(sys.argv[3]), sys.argv[4])

"""Write seeded/<id>/meta.json from the seeding agent's notes.md and the confirmation log
(tools/confirm_seed.sh).  Existing meta.json files with "manual": true are left alone."""

import glob
import json
import os
import re

V = os.path.dirname(os.path.dirname(os.path.abspath(__file__)))

for d in sorted(glob.glob(os.path.join(V, "seeded", "*-*"))):
    mp = os.path.join(d, "meta.json")
    if os.path.exists(mp) and json.load(open(mp)).get("manual"):
        continue
    sid = os.path.basename(d)
    notes = open(os.path.join(d, "notes.md")).read() if os.path.exists(os.path.join(d, "notes.md")) else ""
    lines = [l.strip() for l in notes.splitlines() if l.strip()]
    what = ""
    for l in lines:
        if re.search(r"^(#|\*\*)?\s*(change|what)", l, re.I) or not what:
            what = re.sub(r"^[#*\-\s]+", "", l)
            if len(what) > 25:
                break
    needs = ""
    for i, l in enumerate(lines):
        if re.search(r"manifest|trigger|needed|needs|only shows|requires", l, re.I):
            needs = re.sub(r"^[#*\-\s]+", "", l)
            if len(needs) < 60 and i + 1 < len(lines):
                needs += " " + re.sub(r"^[#*\-\s]+", "", lines[i + 1])
            break
    log = open(os.path.join(d, "confirm.log")).read() if os.path.exists(os.path.join(d, "confirm.log")) else ""
    files = sorted(set(re.findall(r"^\+\+\+ b/(\S+)", open(os.path.join(d, "patch.diff")).read(), re.M)))
    meta = {
        "id": sid,
        "property": sid.split("-")[0],
        "what": what[:600],
        "needs": needs[:600],
        "files_changed": files,
        "author": "independent sub-agent given only the property text and a scratch worktree (nothing from /verif)",
        "confirmed_by_me": {
            "how": "tools/confirm_seed.sh in a scratch worktree: (a) repo test-suite with the change, (b) demo.py with the change, (c) demo.py without it",
            "tests_with_change": (re.search(r"tests with change: (.*)", log) or [None, "?"])[1],
            "demo_with_change_exit": (re.search(r"demo with change: exit (\d+)", log) or [None, "?"])[1],
            "demo_without_change_exit": (re.search(r"demo without change: exit (\d+)", log) or [None, "?"])[1],
        },
        "check_result": open(os.path.join(d, "check_result.txt")).read()[:700] if os.path.exists(os.path.join(d, "check_result.txt")) else "not run yet",
    }
    json.dump(meta, open(mp, "w"), indent=1)
    print(sid, "|", meta["needs"][:90])

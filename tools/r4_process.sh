#!/bin/sh
# usage: r4_process.sh <PROP> ...  -- confirm round-4 seeds (agent output /tmp/seed4-<PROP>-out, ids 8 and 9), then run the quick check against each
for P in "$@"; do
  [ -d /verif/seeded/$P-8 ] || /verif/tools/confirm_seed.sh $P 1 /tmp/seed4-$P-out 8 | tail -1
  [ -d /verif/seeded/$P-9 ] || /verif/tools/confirm_seed.sh $P 2 /tmp/seed4-$P-out 9 | tail -1
  L=""; [ -d /verif/seeded/$P-8 ] && L="$L $P-8"; [ -d /verif/seeded/$P-9 ] && L="$L $P-9"
  [ -n "$L" ] && SWEEP_WT=/tmp/vq-sweep-$P /verif/tools/sweep_seeds.sh $L
done

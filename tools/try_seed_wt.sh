#!/bin/sh
# usage: try_seed_wt.sh <PROP> <patchfile> <scratch-worktree-dir> [extra check args]
# Applies a seeded patch to a PRIVATE scratch worktree of /repo HEAD (created if missing), runs the quick check of
# <PROP> against it through VQ_REPO_SRC, reverts the patch.  Remove the worktree yourself when done:
#   git -C /repo worktree remove --force <dir>
PROP=$1; P=$2; WT=$3; shift 3
[ -d "$WT" ] || git -C /repo worktree add -q --detach "$WT" HEAD || exit 3
cd "$WT" && git reset -q --hard && git checkout -q --detach main && (git apply "$P" 2>/dev/null || git apply --3way "$P") || { echo "PATCH DOES NOT APPLY"; exit 3; }
cd /verif && VQ_REPO_SRC=$WT/src ./check $PROP --no-evidence "$@" 2>&1 | grep -v "^KNOWN-FINDING" | tail -2
cd "$WT" && git reset -q --hard

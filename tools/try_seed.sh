#!/bin/sh
# usage: try_seed.sh <PROP> <patchfile> [extra check args]   -- applies to /tmp/vq-mut, runs quick check, reverts
PROP=$1; P=$2; shift 2
cd /tmp/vq-mut && git reset -q --hard && git checkout -q --detach main && (git apply "$P" 2>/dev/null || git apply --3way "$P") || { echo "PATCH DOES NOT APPLY"; exit 3; }
cd /verif && VQ_REPO_SRC=/tmp/vq-mut/src ./check $PROP --no-evidence "$@" | tail -2
cd /tmp/vq-mut && git reset -q --hard

#!/bin/sh
# usage: mutation_rerun.sh <worktree> <PROP> <k> [<k> ...]  -- re-runs the quick check against mutants that survived an
# earlier campaign (after the check was strengthened) and rewrites their line in /verif/mutation/<PROP>.jsonl
WT=$1; PROP=$2; shift 2
[ -d "$WT" ] || git -C /repo worktree add -q --detach "$WT" HEAD || exit 3
for K in "$@"; do
  cd "$WT" && git reset -q --hard && git checkout -q --detach main
  DESC=$(/venv/bin/python /verif/tools/mutate.py apply $PROP $K "$WT") || continue
  OUT=$(cd /verif && VQ_REPO_SRC=$WT/src timeout 1500 ./check $PROP --no-evidence 2>&1 | grep -v "^KNOWN-FINDING" | tail -2 | cut -c1-400)
  if echo "$OUT" | grep -q "^VIOLATION"; then OUTCOME=caught; elif echo "$OUT" | grep -q "^OK "; then OUTCOME=survived; else OUTCOME=harness-error; fi
  /venv/bin/python - "$PROP" "$K" "$OUTCOME" "$OUT" <<'PY'
import json,sys
prop,k,outcome,out=sys.argv[1],int(sys.argv[2]),sys.argv[3],sys.argv[4]
p="/verif/mutation/%s.jsonl"%prop
rows=[json.loads(l) for l in open(p)]
for r in rows:
    if r["k"]==k:
        if r["outcome"]!=outcome: r["first_outcome"]=r.get("first_outcome",r["outcome"])
        r["outcome"]=outcome; r["check"]=out.split("\n")[0][:300]
open(p,"w").write("".join(json.dumps(r)+"\n" for r in rows))
PY
  echo "$PROP $K $OUTCOME"
done
cd "$WT" && git reset -q --hard

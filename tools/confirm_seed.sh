#!/bin/sh
# usage: confirm_seed.sh <PROP> <k> <outdir-of-agent>
# Confirms a seeded change independently in a scratch worktree: (a) the repo test-suite still passes with the
# change, (b) the demonstration fails with it, (c) passes without it.  On success stores it under
# /verif/seeded/<PROP>-<k>/ (patch.diff, demo.py, notes.md, confirm.log).  Scratch worktree is removed afterwards.
PROP=$1; K=$2; OUT=$3; OUTK=${4:-$K}
WT=/tmp/vq-confirm-$PROP-$K
LOG=/tmp/vq-confirm-$PROP-$K.log
: > $LOG
git -C /repo worktree add -q --detach $WT HEAD >>$LOG 2>&1 || exit 3
cd $WT
if ! git apply --3way $OUT/patch$K.diff >>$LOG 2>&1; then echo "RESULT $PROP-$K patch does not apply" | tee -a $LOG; git -C /repo worktree remove --force $WT; exit 3; fi
git reset -q
PYTHONPATH=$WT/src /venv/bin/python -m pytest -q -p no:cacheprovider --timeout=900 tests >$LOG.tests 2>&1
TESTS=$(tail -1 $LOG.tests)
echo "tests with change: $TESTS" >>$LOG
PYTHONPATH=$WT/src QUANTEM_CONFIG=/nonexistent-vq timeout 600 /venv/bin/python $OUT/demo$K.py >$LOG.demo_with 2>&1; DW=$?
echo "demo with change: exit $DW" >>$LOG
git diff > $LOG.patch
git checkout -q -- .
PYTHONPATH=$WT/src QUANTEM_CONFIG=/nonexistent-vq timeout 600 /venv/bin/python $OUT/demo$K.py >$LOG.demo_without 2>&1; DO=$?
echo "demo without change: exit $DO" >>$LOG
cd /; git -C /repo worktree remove --force $WT
OKT=0; echo "$TESTS" | grep -q "176 passed" && ! echo "$TESTS" | grep -q "failed" && OKT=1
if [ $OKT = 1 ] && [ $DW != 0 ] && [ $DO = 0 ]; then
  D=/verif/seeded/$PROP-$OUTK; mkdir -p $D
  cp $LOG.patch $D/patch.diff; cp $OUT/demo$K.py $D/demo.py; cp $OUT/notes$K.md $D/notes.md; cp $LOG $D/confirm.log
  tail -5 $LOG.demo_with >> $D/confirm.log
  echo "RESULT $PROP-$OUTK CONFIRMED ($TESTS; demo with=$DW without=$DO)" | tee -a $LOG
else
  echo "RESULT $PROP-$K NOT CONFIRMED ($TESTS; demo with=$DW without=$DO)" | tee -a $LOG
fi
rm -f $LOG.tests $LOG.demo_with $LOG.demo_without $LOG.patch

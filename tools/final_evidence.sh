#!/bin/sh
# Re-run every registered check's quick tier in /verif against /repo (VERIF_SEED=1) so that evidence/*.json is
# written by the committed machinery at the committed state; then refresh the generated tables of DESIGN.md.
cd /verif || exit 2
FAIL=0
for p in $(/venv/bin/python -c "import json;print(' '.join(c['property_id'] for c in json.load(open('MANIFEST.json'))['checks']))"); do
  OUT=$(VERIF_SEED=1 ./check $p --tier quick 2>&1 | grep -v "^KNOWN-FINDING" | tail -1 | cut -c1-200)
  echo "$p: $OUT"
  echo "$OUT" | grep -q "^OK " || FAIL=1
done
/venv/bin/python tools/seed_meta.py >/dev/null
/venv/bin/python tools/mkreport.py
/venv/bin/python - <<'PY'
import json,glob,jsonschema
sch=json.load(open('/root/.vp/EVIDENCE.schema.json'))
for f in sorted(glob.glob('/verif/evidence/C*.json')):
    jsonschema.validate(json.load(open(f)),sch)
jsonschema.validate(json.load(open('/verif/MANIFEST.json')),json.load(open('/root/.vp/MANIFEST.schema.json')))
print("evidence + manifest valid")
PY
exit $FAIL

#!/bin/sh
# usage: mut.sh <PROP> <file-rel-to-src/quantem> <python-expr old> <new>   (applies to /tmp/vq-mut, runs check, reverts)
PROP=$1; F=/tmp/vq-mut/src/quantem/$2
cd /tmp/vq-mut && git reset -q --hard && git checkout -q --detach main; cp $F /tmp/mut.bak
/venv/bin/python - "$F" "$3" "$4" <<'PY'
import sys
f,old,new=sys.argv[1:4]
s=open(f).read()
assert s.count(old)>=1, "pattern not found: %r"%old
s=s.replace(old,new,1)
open(f,'w').write(s)
PY
[ $? -eq 0 ] || { cp /tmp/mut.bak $F; exit 3; }
cd /verif && VQ_REPO_SRC=/tmp/vq-mut/src ./check $PROP --no-evidence ${5:-} | tail -2
cp /tmp/mut.bak $F

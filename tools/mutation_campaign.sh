#!/bin/sh
# usage: [PICK_SEED=s] mutation_campaign.sh <worktree> <N> <PROP> [PROP ...]   (with PICK_SEED: another sample, appended)
# For each property: N first-order mutants of its anchored functions (tools/mutate.py pick), each applied to a private
# scratch worktree of /repo HEAD; (1) the repo test-suite is run with the mutant - a mutant the tests kill is not
# interesting; (2) otherwise the property's quick check is run against it.  One JSON line per mutant is appended to
# /verif/mutation/<PROP>.jsonl: {mutant..., "tests": "...", "outcome": killed-by-tests|caught|survived|harness-error, "line": ...}
WT=$1; N=$2; shift 2
[ -d "$WT" ] || git -C /repo worktree add -q --detach "$WT" HEAD || exit 3
mkdir -p /verif/mutation
for PROP in "$@"; do
  [ -z "$PICK_SEED" ] && : > /verif/mutation/$PROP.jsonl
  for K in $(/venv/bin/python /verif/tools/mutate.py pick $PROP $N ${PICK_SEED:-0}); do
    grep -q "^{\"k\": $K," /verif/mutation/$PROP.jsonl 2>/dev/null && continue
    cd "$WT" && git reset -q --hard && git checkout -q --detach main
    DESC=$(/venv/bin/python /verif/tools/mutate.py apply $PROP $K "$WT" 2>/dev/null) || { echo "$PROP $K apply failed"; continue; }
    TESTS=$(cd "$WT" && PYTHONPATH=$WT/src timeout 900 /venv/bin/python -m pytest -q -x -p no:cacheprovider --timeout=300 tests 2>&1 | tail -1)
    if echo "$TESTS" | grep -q "176 passed" && ! echo "$TESTS" | grep -q failed; then
      OUT=$(cd /verif && VQ_REPO_SRC=$WT/src timeout 1500 ./check $PROP --no-evidence 2>&1 | grep -v "^KNOWN-FINDING" | tail -2 | cut -c1-400)
      if echo "$OUT" | grep -q "^VIOLATION"; then OUTCOME=caught
      elif echo "$OUT" | grep -q "^OK "; then OUTCOME=survived
      else OUTCOME=harness-error; fi
    else
      OUT=""; OUTCOME=killed-by-tests
    fi
    /venv/bin/python - "$DESC" "$TESTS" "$OUTCOME" "$OUT" >> /verif/mutation/$PROP.jsonl <<'PY'
import json,sys
d=json.loads(sys.argv[1]); d["tests"]=sys.argv[2][-80:]; d["outcome"]=sys.argv[3]; d["check"]=sys.argv[4].split("\n")[0][:300]
print(json.dumps(d))
PY
    echo "$PROP $K $OUTCOME"
  done
done
cd /; git -C /repo worktree remove --force "$WT"

#!/bin/sh
# usage: r5_process.sh <PROP> ...  -- confirm round-6 seeds (agent output /tmp/seed6-<PROP>-out, ids 12 and 13), then run the quick check against each
for P in "$@"; do
  git -C /repo worktree remove --force /tmp/seed6-$P-wt 2>/dev/null
  [ -d /verif/seeded/$P-12 ] || /verif/tools/confirm_seed.sh $P 1 /tmp/seed6-$P-out 12 | tail -1
  [ -d /verif/seeded/$P-13 ] || /verif/tools/confirm_seed.sh $P 2 /tmp/seed6-$P-out 13 | tail -1
  L=""; [ -d /verif/seeded/$P-12 ] && L="$L $P-12"; [ -d /verif/seeded/$P-13 ] && L="$L $P-13"
  [ -n "$L" ] && SWEEP_WT=/tmp/vq-sweep-$P /verif/tools/sweep_seeds.sh $L
done

"""Regenerate the machine-written tables of DESIGN.md (between the AUTO markers) from
known_findings.json, seeded/*/ and evidence/*.json.   Run: /venv/bin/python tools/mkreport.py"""

import glob
import json
import os
import re

V = os.path.dirname(os.path.dirname(os.path.abspath(__file__)))


def fixes_table():
    kf = json.load(open(os.path.join(V, "known_findings.json")))
    rows = ["| Property | Commit | What failed on the pinned tree | Regression replays |", "|---|---|---|---|"]
    for e in kf["entries"]:
        if e["status"] == "fixed":
            rows.append("| %s | `%s` | %s | %s |" % (e["property"], e["commit"], e["what"].replace("|", "/"), ", ".join("`%s`" % os.path.basename(r) for r in e.get("replays", []))))
    rows.append("")
    rows += ["Open findings (recorded, not repaired):", "", "| Property | Key | What fails |", "|---|---|---|"]
    for e in kf["entries"]:
        if e["status"] == "finding":
            rows.append("| %s | `%s` | %s |" % (e["property"], e["key"], e["what"].replace("|", "/")))
    return "\n".join(rows)


def seeds_table():
    rows = ["| Seeded change | Breaks | Needs, in order to manifest | Caught by `./check` (quick tier) |", "|---|---|---|---|"]
    for d in sorted(glob.glob(os.path.join(V, "seeded", "*-*"))):
        sid = os.path.basename(d)
        meta = {}
        mp = os.path.join(d, "meta.json")
        if os.path.exists(mp):
            meta = json.load(open(mp))
        res = ""
        rp = os.path.join(d, "check_result.txt")
        if os.path.exists(rp):
            t = open(rp).read()
            m = re.search(r"caught: (\d)", t)
            if m:
                if m.group(1) == "1":
                    vm = re.search(r"violation: (.*)", t)
                    res = "yes - " + (vm.group(1)[:140].replace("|", "/") if vm else "")
                else:
                    res = "**no**"
            else:
                res = t.strip()[:80]
        rows.append("| %s | %s | %s | %s |" % (sid, meta.get("property", sid.split("-")[0]), meta.get("needs", "").replace("|", "/")[:260], res))
    return "\n".join(rows)


def evidence_table():
    rows = ["| Property | tier | evaluations | distinct non-trivial | wall s | known findings witnessed |", "|---|---|---|---|---|---|"]
    for p in sorted(glob.glob(os.path.join(V, "evidence", "C*.json"))):
        e = json.load(open(p))
        c = e["coverage"]
        rows.append("| %s | %s | %d | %d | %.0f | %s |" % (e["property_id"], e["tier"], c["evaluations"], c["distinct_nontrivial"], e["wall_s"], ", ".join(c.get("known_findings_witnessed", [])) or "-"))
    return "\n".join(rows)


def mutants_table():
    tri = {}
    tp = os.path.join(V, "mutation", "triage.json")
    if os.path.exists(tp):
        tri = json.load(open(tp))
    rows = ["| Property | mutants | killed by the repo tests | caught by the quick check | not flagged: equivalent / outside the claim / hang | missed (then fixed) | missed (open) |", "|---|---|---|---|---|---|---|"]
    tot = [0] * 6
    for p in sorted(glob.glob(os.path.join(V, "mutation", "C*.jsonl"))):
        pid = os.path.basename(p)[:3]
        rs = [json.loads(l) for l in open(p) if l.strip()]
        n = len(rs)
        kt = sum(r["outcome"] == "killed-by-tests" for r in rs)
        fixed = sum(1 for r in rs if r.get("first_outcome") and r["outcome"] == "caught")
        caught = sum(r["outcome"] == "caught" for r in rs) - fixed
        rest = [r for r in rs if r["outcome"] in ("survived", "harness-error")]
        benign = [r for r in rest if tri.get("%s:%d" % (pid, r["k"]), ["?"])[0] in ("equivalent", "outside-claim", "hang")]
        open_ = [r for r in rest if r not in benign]
        rows.append("| %s | %d | %d | %d | %d | %d | %s |" % (pid, n, kt, caught, len(benign), fixed, ", ".join("#%d" % r["k"] for r in open_) or "-"))
        for i, v in enumerate((n, kt, caught, len(benign), fixed, len(open_))):
            tot[i] += v
    rows.append("| all | %d | %d | %d | %d | %d | %d |" % tuple(tot))
    return "\n".join(rows)


def main():
    p = os.path.join(V, "DESIGN.md")
    s = open(p).read()
    for name, fn in (("FIXES", fixes_table), ("SEEDS", seeds_table), ("EVIDENCE", evidence_table), ("MUTANTS", mutants_table)):
        a, b = "<!-- AUTO:%s:BEGIN -->" % name, "<!-- AUTO:%s:END -->" % name
        if a in s and b in s:
            i, j = s.index(a) + len(a), s.index(b)
            s = s[:i] + "\n" + fn() + "\n" + s[j:]
    open(p, "w").write(s)


if __name__ == "__main__":
    main()

#!/bin/sh
# usage: sweep_seeds.sh [ID-prefix ...]   -- runs the quick check of each seeded change's property against the change
# (applied to a scratch worktree of /repo HEAD) and records the outcome in seeded/<id>/check_result.txt
WT=${SWEEP_WT:-/tmp/vq-sweep}
git -C /repo worktree remove --force $WT 2>/dev/null
git -C /repo worktree add -q --detach $WT HEAD || exit 3
cd /verif/seeded
for d in ${@:-*}; do
  [ -f "$d/patch.diff" ] || continue
  PROP=${d%%-*}; [ -f /verif/seeded/$d/check_with ] && PROP=$(cat /verif/seeded/$d/check_with)
  cd $WT && git reset -q --hard
  if git apply /verif/seeded/$d/patch.diff 2>/dev/null || git apply --3way /verif/seeded/$d/patch.diff 2>/dev/null; then
    git reset -q
    OUT=$(cd /verif && VQ_REPO_SRC=$WT/src ./check $PROP --no-evidence 2>&1 | tail -2)
    RC=$(echo "$OUT" | grep -c "^VIOLATION")
    { echo "head: $(git -C /repo rev-parse --short HEAD)"; echo "caught: $RC"; echo "$OUT" | cut -c1-600; } > /verif/seeded/$d/check_result.txt
    echo "$d caught=$RC"
  else
    echo "$d PATCH DOES NOT APPLY to HEAD"; echo "patch does not apply to $(git -C /repo rev-parse --short HEAD)" > /verif/seeded/$d/check_result.txt
  fi
  cd /verif/seeded
done
cd /; git -C /repo worktree remove --force $WT

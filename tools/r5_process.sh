#!/bin/sh
# usage: r5_process.sh <PROP> ...  -- confirm round-5 seeds (agent output /tmp/seed5-<PROP>-out, ids 10 and 11), then run the quick check against each
for P in "$@"; do
  git -C /repo worktree remove --force /tmp/seed5-$P-wt 2>/dev/null
  [ -d /verif/seeded/$P-10 ] || /verif/tools/confirm_seed.sh $P 1 /tmp/seed5-$P-out 10 | tail -1
  [ -d /verif/seeded/$P-11 ] || /verif/tools/confirm_seed.sh $P 2 /tmp/seed5-$P-out 11 | tail -1
  L=""; [ -d /verif/seeded/$P-10 ] && L="$L $P-10"; [ -d /verif/seeded/$P-11 ] && L="$L $P-11"
  [ -n "$L" ] && SWEEP_WT=/tmp/vq-sweep-$P /verif/tools/sweep_seeds.sh $L
done

"""Generate /verif/MANIFEST.json from vq.meta (run: /venv/bin/python -m vq.mkmanifest)."""

import json
import os

from vq import meta

VERIF = os.path.dirname(os.path.dirname(os.path.abspath(__file__)))

SETUP = (
    "/venv/bin/python -c 'import hypothesis' 2>/dev/null || "
    "/venv/bin/pip install --no-index --find-links /opt/veriftools/wheels hypothesis; "
    "/venv/bin/python -c 'import hypothesis, numpy, scipy, torch, skimage, zarr, quantem; print(\"setup ok\", hypothesis.__version__)'"
)

BASELINE = (
    "cd /repo && /venv/bin/python -m pytest -ra -q -p no:cacheprovider --timeout=900 "
    "--continue-on-collection-errors"
)

NOT_APPLICABLE = {}

# properties whose check has been reviewed, is quiet on the current tree at several seeds and is
# therefore registered; anything else stays under not_applicable until it is
READY = ["C01", "C02", "C03", "C04", "C05", "C09", "C06", "C07", "C08", "C10", "C11", "C12", "C13", "C14", "C15", "C16", "C17", "C18", "C19", "C20"]


def main():
    props = [json.loads(l) for l in open(os.path.join(VERIF, "properties.jsonl"))]
    checks = []
    na = []
    for p in props:
        pid = p["id"]
        if pid in NOT_APPLICABLE:
            na.append({"property_id": pid, "reason": NOT_APPLICABLE[pid]})
            continue
        if pid not in meta.META or pid not in READY:
            na.append({"property_id": pid, "reason": "check not built yet (work in progress; see DESIGN.md §3 for the planned generator and oracle)"})
            continue
        m = meta.META[pid]
        checks.append(
            {
                "property_id": pid,
                "quick_cmd": "./check %s --tier quick" % pid,
                "thorough_cmd": "./check %s --tier thorough" % pid,
                "evidence_file": "/verif/evidence/%s.json" % pid,
                "replay_cmd_template": "./check %s --replay {path}" % pid,
                "engine": "vq",
                "level_claimed": {"category": m["level"], "text": m["text"], "design_ref": m["design"]},
                "level_note": m["note"],
                "technique": m["technique"],
            }
        )
    man = {
        "version": 1,
        "setup_cmd": SETUP,
        "hooks": {
            "guard": "QUANTEM_VERIF",
            "enable": "no source hooks are needed: checks import /repo/src directly (editable install) and inject faults by wrapping serializer functions from the harness; QUANTEM_VERIF is reserved and unused",
            "baseline_off_cmd": BASELINE,
            "source_commits": [],
            "add_only": True,
        },
        "engines": [
            {
                "name": "vq",
                "path": "/verif/vq",
                "serves_properties": [c["property_id"] for c in checks],
                "kind_free_text": "Hypothesis-driven property-based testing framework (value strategies, rule-based state machines, bounded-exhaustive enumeration, exhaustive fault-site enumeration) with explicit oracles, replay files and evidence writer",
            }
        ],
        "checks": checks,
        "not_applicable": na,
        "notes": "All checks: ./check <ID> [--tier quick|thorough] [--replay PATH]; VERIF_SEED selects the Hypothesis seed. Genuine defects repaired by fix: commits in /repo and open findings are listed in known_findings.json.",
    }
    with open(os.path.join(VERIF, "MANIFEST.json"), "w") as f:
        json.dump(man, f, indent=1)
    print("checks:", [c["property_id"] for c in checks])
    print("not_applicable:", [n["property_id"] for n in na])


if __name__ == "__main__":
    main()

"""CLI:  check <ID> [--tier quick|thorough] [--replay PATH] [--workers N]

exit 0  property held on everything explored (KNOWN-FINDING lines possible)
exit 1  + "VIOLATION property=<id> replay=<path>"
exit 2  harness error / inconclusive
"""

from __future__ import annotations

import argparse
import importlib
import json
import os
import sys
import tempfile
import time
import traceback

VERIF = os.path.dirname(os.path.dirname(os.path.abspath(__file__)))
REPO_SRC = os.environ.get("VQ_REPO_SRC", "/repo/src")

PROPS = ["C%02d" % i for i in range(1, 21)]


def _prepare_env():
    """Environment that must be in place before quantem / torch are imported."""
    need_reexec = os.environ.get("PYTHONHASHSEED") != "0"
    os.environ["PYTHONHASHSEED"] = "0"
    os.environ.setdefault("MPLBACKEND", "Agg")
    for k in ("OMP_NUM_THREADS", "MKL_NUM_THREADS", "OPENBLAS_NUM_THREADS", "NUMEXPR_NUM_THREADS"):
        os.environ[k] = "1"
    os.environ["TQDM_DISABLE"] = "1"
    # scratch space: tmpfs is ~100x faster than the root disk for the many small zarr files
    if "VQ_TMPDIR_SET" not in os.environ:
        os.environ["VQ_TMPDIR_SET"] = "1"
        if os.path.isdir("/dev/shm") and os.access("/dev/shm", os.W_OK):
            os.environ["TMPDIR"] = "/dev/shm"
            os.environ["VQ_TMPBASE"] = "/dev/shm"
            need_reexec = True
        else:
            os.environ["VQ_TMPBASE"] = tempfile.gettempdir()
    os.environ["PYTHONDONTWRITEBYTECODE"] = "1"
    pp = os.environ.get("PYTHONPATH", "")
    want = REPO_SRC + os.pathsep + VERIF
    if not pp.startswith(want):
        os.environ["PYTHONPATH"] = want + (os.pathsep + pp if pp else "")
        need_reexec = True
    if need_reexec and not os.environ.get("VQ_REEXEC"):
        os.environ["VQ_REEXEC"] = "1"
        os.execv(sys.executable, [sys.executable, "-m", "vq.runner"] + sys.argv[1:])


def _worker_init():
    """Per-process setup (runs in every worker, before the property module is imported)."""
    # private temp root per process: leak checks and clean-up never see other workers' files
    base = os.environ.get("VQ_TMPBASE") or None
    tmproot = tempfile.mkdtemp(prefix="vq-w%d-" % os.getpid(), dir=base)
    tempfile.tempdir = tmproot
    os.environ["TMPDIR"] = tmproot
    cfgdir = tempfile.mkdtemp(prefix="vq-cfg-")
    os.environ["QUANTEM_CONFIG"] = cfgdir
    import warnings

    warnings.filterwarnings("ignore")
    import torch

    torch.set_num_threads(1)
    try:
        torch.set_num_interop_threads(1)
    except RuntimeError:
        pass
    import quantem

    qf = os.path.realpath(quantem.__file__)
    if not qf.startswith(os.path.realpath(REPO_SRC)):
        raise RuntimeError("quantem imported from %s, expected under %s" % (qf, REPO_SRC))
    return tmproot


def worker(args):
    """Run one share of the search.  Returns a plain dict (picklable)."""
    prop_id, tier, seed, widx, nworkers, mode, payload = args
    import shutil

    from vq import core

    out = {"widx": widx, "violation": None, "error": None, "known": [], "notes": []}
    cfgdir = None
    ctx = None
    try:
        cfgdir = _worker_init()
        mod = importlib.import_module("vq.props.%s" % prop_id.lower())
        open_f, _fixed = core.load_known(prop_id)
        ctx = core.Ctx(prop_id, tier, seed, widx, nworkers, open_findings=open_f)
        if mode == "replay":
            for path, case in payload:
                try:
                    mod.check(ctx, case)
                except core.Violation as v:
                    out["violation"] = {"msg": v.msg, "case": v.case if v.case is not None else case, "replay": path}
                    break
        elif mode == "witness":
            for f in payload:
                wctx = core.Ctx(prop_id, tier, seed, widx, nworkers, open_findings=())
                try:
                    mod.check(wctx, f["case"])
                    out["notes"].append("known finding %s no longer reproduces (witness passed)" % f["key"])
                except core.Violation as v:
                    out["known"].append({"key": f["key"], "what": f.get("what", ""), "msg": v.msg})
                finally:
                    wctx.cleanup()
        else:
            try:
                mod.search(ctx)
            except core.Violation as v:
                out["violation"] = {"msg": v.msg, "case": v.case, "replay": None}
        out.update(ctx.result())
    except core.HarnessError as e:
        out["error"] = "harness: %s" % e
    except BaseException:  # noqa: BLE001
        out["error"] = traceback.format_exc()
    finally:
        if ctx is not None:
            ctx.cleanup()
        if cfgdir:
            shutil.rmtree(cfgdir, ignore_errors=True)
    return out


def _run_pool(jobs, nproc):
    if nproc <= 1 or len(jobs) == 1:
        return [worker(j) for j in jobs]
    import multiprocessing as mp

    ctxm = mp.get_context("spawn")
    with ctxm.Pool(min(nproc, len(jobs)), maxtasksperchild=1) as pool:
        return pool.map(worker, jobs, chunksize=1)


def main(argv=None):
    _prepare_env()
    ap = argparse.ArgumentParser(prog="check")
    ap.add_argument("prop")
    ap.add_argument("--tier", default=os.environ.get("VERIF_TIER", "quick"), choices=["quick", "thorough"])
    ap.add_argument("--replay", default=None)
    ap.add_argument("--workers", type=int, default=None)
    ap.add_argument("--no-evidence", action="store_true")
    a = ap.parse_args(argv)
    prop_id = a.prop.upper()
    if prop_id not in PROPS:
        print("unknown property %s" % prop_id)
        return 2
    try:
        seed = int(os.environ.get("VERIF_SEED", "1") or "1")
    except ValueError:
        seed = 1
    t0 = time.time()

    from vq import core

    # import the module's static metadata without importing quantem: metadata lives in vq.meta
    from vq import meta

    if prop_id not in meta.META:
        print("HARNESS ERROR: no metadata for %s (%s)" % (prop_id, meta.ERRORS.get(prop_id, "missing vq/metas entry")))
        return 2
    info = meta.META[prop_id]

    # ---- replay of one file -------------------------------------------------------------------
    if a.replay:
        with open(a.replay) as f:
            case = json.load(f)
        if isinstance(case, dict) and "case" in case and "property" in case:
            case = case["case"]
        r = worker((prop_id, a.tier, seed, 0, 1, "replay", [(a.replay, case)]))
        if r["error"]:
            print(r["error"])
            return 2
        if r["violation"]:
            print("replay: %s" % r["violation"]["msg"])
            print("VIOLATION property=%s replay=%s" % (prop_id, a.replay))
            return 1
        print("replay passed")
        return 0

    open_f, fixed_f = core.load_known(prop_id)

    # ---- regression tier (committed replays) + witnesses, in one helper process ---------------
    rdir = os.path.join(VERIF, "replays", prop_id)
    replays = []
    if os.path.isdir(rdir):
        for fn in sorted(os.listdir(rdir)):
            if fn.endswith(".json"):
                with open(os.path.join(rdir, fn)) as f:
                    c = json.load(f)
                if isinstance(c, dict) and "case" in c and "property" in c:
                    c = c["case"]
                replays.append((os.path.join(rdir, fn), c))
    nworkers = a.workers or info["workers"][a.tier]
    jobs = []
    if replays:
        jobs.append((prop_id, a.tier, seed, 0, 1, "replay", replays))
    if open_f:
        jobs.append((prop_id, a.tier, seed, 0, 1, "witness", open_f))
    for i in range(nworkers):
        jobs.append((prop_id, a.tier, seed, i, nworkers, "search", None))
    results = _run_pool(jobs, nworkers if nworkers > 1 else 1)

    errors = [r["error"] for r in results if r["error"]]
    known_lines = []
    notes = []
    violation = None
    merged = {"evaluations": 0, "digests": set(), "classes": {}, "excluded": {}, "first": [], "low": [], "extra": {}}
    n_replayed = 0
    for job, r in zip(jobs, results):
        mode = job[5]
        if mode == "witness":
            known_lines += r["known"]
            notes += r["notes"]
            continue
        if mode == "replay":
            n_replayed = len(job[6])
        if r["violation"] and violation is None:
            violation = r["violation"]
        if r["error"]:
            continue
        merged["evaluations"] += r["evaluations"]
        merged["digests"].update(r["digests"])
        for k, v in r["classes"].items():
            merged["classes"][k] = merged["classes"].get(k, 0) + v
        for k, v in r["excluded"].items():
            merged["excluded"][k] = merged["excluded"].get(k, 0) + v
        merged["first"] += r["first_samples"]
        merged["low"] += r["low_samples"]
        for k, v in r["extra"].items():
            if isinstance(v, (int, float)) and isinstance(merged["extra"].get(k), (int, float)):
                merged["extra"][k] = max(merged["extra"][k], v)
            else:
                merged["extra"].setdefault(k, v)

    for k in known_lines:
        print("KNOWN-FINDING: property=%s %s [%s]" % (prop_id, k["what"] or k["msg"], k["key"]))
    for n in notes:
        print("NOTE: %s" % n)

    wall = time.time() - t0
    replay_path = None
    if violation:
        replay_path = violation.get("replay")
        if not replay_path:
            vdir = os.path.join(VERIF, "violations", prop_id)
            replay_path = os.path.join(vdir, "%s-seed%d-%s.json" % (prop_id, seed, core.digest(violation["case"])))
            core.write_json(
                replay_path,
                {"property": prop_id, "seed": seed, "tier": a.tier, "message": violation["msg"], "case": violation["case"]},
            )

    if not a.no_evidence:
        merged["low"].sort(key=lambda t: t[0])
        samples = merged["first"][:3] + [s for _d, s in merged["low"][:3]]
        if not samples:
            samples = ["(no non-trivial case was generated in this run)"]
        ev = {
            "property_id": prop_id,
            "tier": a.tier,
            "seed": seed,
            "level": info["level"],
            "coverage": {
                "evaluations": merged["evaluations"],
                "distinct_nontrivial": len(merged["digests"]),
                "rule": info["rule"],
                "samples": samples,
                "classes": dict(sorted(merged["classes"].items())),
                "excluded_by_construction": merged["excluded"],
                "replays_rerun": n_replayed,
                "known_findings_witnessed": [k["key"] for k in known_lines],
                "workers": nworkers,
                "exhaustive": bool(merged["extra"].get("exhaustive", False)),
                "extra": merged["extra"],
            },
            "assumptions": info["assumptions"],
            "wall_s": round(wall, 2),
            "violations": 1 if violation else 0,
        }
        core.write_json(os.path.join(VERIF, "evidence", "%s.json" % prop_id), ev)

    if errors and not violation:
        print("HARNESS ERROR in %d worker(s):" % len(errors))
        print(errors[0])
        return 2
    if violation:
        print("violation: %s" % violation["msg"])
        print("VIOLATION property=%s replay=%s" % (prop_id, replay_path))
        return 1
    print(
        "OK property=%s tier=%s seed=%d evaluations=%d distinct_nontrivial=%d wall=%.1fs"
        % (prop_id, a.tier, seed, merged["evaluations"], len(merged["digests"]), wall)
    )
    return 0


if __name__ == "__main__":
    sys.exit(main())

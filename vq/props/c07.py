"""C07 — torch Radon transform / filtered back-projection agree with the scikit-image functions
they port (radon circle mode, _get_fourier_filter, iradon), batched == per-image, both transforms
are linear, and the projection at 0 degrees is the column sums of the disc-masked image.

Three case kinds, each a pure JSON description:
  radon  : N, angle list, theta dtype, B image specs, a linear-combination partner
  iradon : N, angle list, theta dtype, filter, circle flag, B sinogram specs, a partner
  filter : padded size, filter name
plus a small stratum of LARGE radon / iradon problems ("large": true, N 64..256, 60..512 angles
given as a compact description, B 1..3; grid LARGE_QUICK / LARGE_THOROUGH) that reaches the
size-dependent paths (tiling, chunking, caches) an N <= 48 search never enters.

Tolerances: the torch pipeline is float32, the references are float64 evaluated on the identical
float32 inputs.  Error models (scale) and allowed multiples K:
  radon  : N bilinear samples per bin, each displaced by the float32 rounding of a coordinate of
           size <= N             -> scale = eps32 * N^2 * max|image|,          K = 8
  iradon : float32 FFT of <= 256 points + interpolation at a float32 detector coordinate of size
           <= 1.5 N (rounding of deg2rad, cos/sin, t + centre), averaged over the angles
                                 -> scale = eps32 * (N + 8) * max|sinogram|,   K = 32
  filter : float32 FFT of the size-point kernel, values <= 1 -> scale = eps32, K = 32
  batched vs per-image: K = 2 (measured: bitwise equal); linearity: 2 K with |a|max|x| + |b|max|y|.
Largest error/scale measured on the corrected tree over 8 x 30 000 targeted cases: radon 0.65,
theta=0 0.40, radon linearity 0.39, iradon 1.95, iradon linearity 0.32, filter 2.23 (exhaustive) -
every K leaves >= 12x head-room, while the sensitivity mutants produce ratios of 50 .. 5e6.
On the large problems the same scales and K apply; measured there (408 cases): radon 0.17,
theta=0 0.10, iradon 0.06.
The largest ratio of each run is written to the evidence file (`extra`)."""

from __future__ import annotations

import numpy as np
from hypothesis import strategies as st
from hypothesis import target as _hyp_target
from hypothesis.control import currently_in_test_context

from vq import core
from vq.refs import c07_ref as ref

EPS32 = ref.EPS32
K_RADON = 8.0
K_IRADON = 32.0
K_FILTER = 32.0
K_BATCH = 2.0  # batched vs per-image call: same arithmetic, only the batch extent differs (measured: bitwise equal)
FLOOR = 1e-30


def target(value, label):
    """hypothesis.target, silent when a case is judged outside a Hypothesis run (replays, sweeps)."""
    if currently_in_test_context():
        _hyp_target(float(value), label=label)


def _q():
    import quantem.tomography.radon.radon as rr

    return rr


# ------------------------------------------------------------------------------------------------
# generators
# ------------------------------------------------------------------------------------------------
SEEDS = st.integers(0, 2**31 - 1)
AMPS = st.sampled_from([1.0, 1.0, 1.0, 1e-3, 1e3])


@st.composite
def sizes(draw):
    parity = draw(st.sampled_from([0, 1]))  # drawn explicitly: even and odd are different code paths
    half = draw(st.one_of(st.integers(2, 8), st.integers(2, 24)))
    return min(48, 2 * half + parity) if parity == 0 else min(47, 2 * half + 1)


@st.composite
def angle_sets(draw):
    # dtype of the theta tensor: float32 / float64 (arbitrary angles) or an integer tensor, as
    # torch.arange gives and as the default theta of radon_torch is (whole degrees by construction)
    dtype = draw(st.sampled_from(["float32", "float32", "float32", "float64", "float64"] + ref.INT_THETA_DTYPES))
    special = st.sampled_from([0.0, 90.0, 180.0, 45.0, 135.0, 1.0, 179.0, 89.0, 91.0])
    if dtype in ref.INT_THETA_DTYPES:
        generic = st.integers(0, 180).map(float)
    else:
        generic = st.floats(0.0, 180.0, allow_nan=False, width=32 if dtype == "float32" else 64)
    angles = draw(st.lists(st.one_of(special, generic), min_size=1, max_size=12))
    return dtype, [float(a) for a in angles]


def _value():
    return st.floats(-4.0, 4.0, allow_nan=False, width=32).map(lambda v: v if abs(v) >= 0.125 else 1.0)


@st.composite
def image_specs(draw, N):
    t = draw(st.sampled_from(["smooth", "blocks", "noise", "impulse", "impulse"]))
    if t != "impulse":
        return {"type": t, "seed": draw(SEEDS), "amp": draw(AMPS)}
    pix = ref.disc_pixels(N)
    c = N // 2
    # pixels on the circle itself and next to the centre are the sharpest probes of centre / mask
    rim = [p for p in [(0, c), (c, 0), (N - 1, c), (c, N - 1), (c, c), (c - 1, c), (c, c - 1), (1, c), (c, 1)] if p in set(pix)]
    pts = []
    for _ in range(draw(st.integers(1, 3))):
        r, cc = draw(st.one_of(st.sampled_from(rim), st.integers(0, len(pix) - 1).map(lambda k: pix[k])))
        pts.append([int(r), int(cc), draw(_value())])
    return {"type": "impulse", "points": pts}


@st.composite
def sino_specs(draw, N, A):
    t = draw(st.sampled_from(["noise", "noise", "radon", "impulse", "ones"]))
    if t == "noise":
        return {"type": t, "seed": draw(SEEDS), "amp": draw(AMPS)}
    if t == "ones":
        return {"type": t, "amp": draw(AMPS)}
    if t == "radon":
        return {"type": t, "img": draw(image_specs(N))}
    pts = []
    for _ in range(draw(st.integers(1, 3))):
        p = draw(st.one_of(st.sampled_from([0, N - 1, N // 2, N // 2 - 1]), st.integers(0, N - 1)))
        pts.append([draw(st.integers(0, A - 1)), int(p), draw(_value())])
    return {"type": "impulse", "points": pts}


def _coef():
    return st.sampled_from([1.0, -1.0, 2.0, 0.5, -0.25, 3.0]) | st.floats(-3.0, 3.0, allow_nan=False, width=32)


@st.composite
def radon_cases(draw):
    N = draw(sizes())
    dtype, angles = draw(angle_sets())
    B = draw(st.integers(1, 3))
    return {
        "kind": "radon",
        "N": N,
        "theta_dtype": dtype,
        "angles": angles,
        "imgs": [draw(image_specs(N)) for _ in range(B)],
        "lin": {"img": draw(image_specs(N)), "a": draw(_coef()), "b": draw(_coef())},
    }


@st.composite
def iradon_cases(draw):
    N = draw(sizes())
    dtype, angles = draw(angle_sets())
    A = len(angles)
    B = draw(st.integers(1, 3))
    return {
        "kind": "iradon",
        "N": N,
        "theta_dtype": dtype,
        "angles": angles,
        # dtype of the sinogram tensor, drawn independently of the theta dtype (mixed arguments):
        # float32 half of the time, else float64 or integer detector counts
        "sino_dtype": draw(st.sampled_from(["float32"] * 5 + ["float64"] + ref.INT_SINO_DTYPES)),
        "filter": draw(st.sampled_from(ref.FILTERS)),
        # circle=True is the mode radon_torch produces sinograms for; circle=False is the other
        # value the SIRT caller forwards (1 case in 5)
        "circle": draw(st.sampled_from([True, True, True, True, False])),
        "sinos": [draw(sino_specs(N, A)) for _ in range(B)],
        "lin": {"sino": draw(sino_specs(N, A)), "a": draw(_coef()), "b": draw(_coef())},
    }


# Large problems: (kind, N, A, B, filter, circle).  Implementations that tile / cache / chunk by
# problem size only change path beyond some B * output_size^2 * A; the grid below puts a case just
# below and just above 2^20, 2^22 and 2^24 and uses every filter name.  Every run judges every
# row twice (quick; thorough: six times per worker) - Hypothesis draws the contents (seeds, angle
# offsets or random angle sets, theta dtype, image / sinogram types).
LARGE_QUICK = [
    ("iradon", 64, 60, 1, "ramp", True),  # 2^17.9
    ("iradon", 64, 180, 2, "cosine", True),  # 2^20.5  just above 2^20
    ("iradon", 96, 180, 2, "hamming", True),  # 2^21.7  just below 2^22
    ("iradon", 96, 180, 3, "hann", True),  # 2^22.2  just above 2^22
    ("iradon", 181, 360, 1, None, True),  # 2^23.5  below 2^24
    ("iradon", 128, 360, 3, "shepp-logan", True),  # 2^24.1  just above 2^24
    ("radon", 96, 180, 3, None, True),  # 2^22.2
    ("radon", 181, 120, 1, None, True),  # 2^21.9, odd N
    ("iradon", 128, 180, 2, "ramp", False),  # circle=False, output 90: 2^21.5
    ("iradon", 181, 180, 3, "ramp", True),  # 2^24.1, odd N
    ("radon", 128, 360, 3, None, True),  # 2^24.1
]
LARGE_THOROUGH = LARGE_QUICK + [
    ("iradon", 181, 360, 3, "hann", True),  # 2^25.1
    ("iradon", 256, 360, 2, "cosine", True),  # 2^25.5
    ("iradon", 65, 512, 2, "shepp-logan", True),  # many angles, 2^22.0
    ("iradon", 127, 90, 3, "hamming", False),  # odd, circle=False
    ("radon", 256, 180, 2, None, True),  # 2^24.5
    ("radon", 64, 512, 1, None, True),  # 2^21
]


@st.composite
def large_cases(draw, row):
    kind, N, A, B, fname, circle = row
    dtype = draw(st.sampled_from(["float32", "float64"]))
    if draw(st.sampled_from(["even", "even", "random"])) == "even":
        step = 180.0 / A
        off = step * draw(st.integers(0, 999)) / 1000.0
        angles = {"n": A, "mode": "even", "offset": off}
    else:
        angles = {"n": A, "mode": "random", "seed": draw(SEEDS)}
    case = {"kind": kind, "large": True, "N": N, "theta_dtype": dtype, "angles": angles}
    img = st.fixed_dictionaries({"type": st.sampled_from(["noise", "blocks", "smooth"]), "seed": SEEDS, "amp": st.just(1.0)})
    if kind == "radon":
        case["imgs"] = [draw(img) for _ in range(B)]
    else:
        sino = st.one_of(
            st.fixed_dictionaries({"type": st.just("noise"), "seed": SEEDS, "amp": st.just(1.0)}),
            st.fixed_dictionaries({"type": st.just("radon"), "img": img}),
        )
        case.update(filter=fname, circle=circle, sinos=[draw(sino) for _ in range(B)])
    return case


# ------------------------------------------------------------------------------------------------
# judging helpers
# ------------------------------------------------------------------------------------------------
def _np(t):
    return np.asarray(t.detach().cpu().numpy(), dtype=np.float64)


def _shape(case, got, want, what, squeeze_ok):
    """Both functions document (B, ...) outputs and drop the batch axis when it has length 1."""
    if tuple(got.shape) == tuple(want):
        return got
    if squeeze_ok and tuple(got.shape) == tuple(want[1:]):
        return got.reshape(want)
    raise core.Violation("%s: result has shape %s, expected %s" % (what, tuple(got.shape), tuple(want)), case)


def _judge(ctx, case, got, want, scale, K, what, label, skip=None):
    if not np.all(np.isfinite(got)):
        raise core.Violation("%s: non-finite values in the result" % what, case)
    d = np.abs(got - want)
    if skip is not None:
        d = np.where(skip, 0.0, d)
    err = float(d.max()) if d.size else 0.0
    ratio = err / (scale + FLOOR)
    key = "max_err_over_scale:" + label
    if ratio > ctx.extra.get(key, 0.0) and ratio <= K:
        ctx.extra[key] = round(ratio, 4)
    if ratio > K:
        i = np.unravel_index(int(np.argmax(d)), d.shape)
        raise core.Violation(
            "%s: |torch - reference| = %.3g at index %s (torch %.6g, reference %.6g); allowed %.3g = %g * %.3g"
            % (what, err, tuple(int(j) for j in i), got[i], want[i], K * scale, K, scale),
            case,
        )
    return ratio


def _angle_classes(theta64):
    special = all(a in (0.0, 90.0, 180.0) for a in theta64.tolist())
    cl = ["angles:only_0_90_180" if special else "angles:generic"]
    n = len(theta64)
    cl.append("n_angles:%s" % ("1" if n == 1 else "2-4" if n <= 4 else "5-12" if n <= 12 else "13-360" if n <= 360 else ">360"))
    if len(set(theta64.tolist())) < len(theta64):
        cl.append("angles:repeated")
    return special, cl


# ------------------------------------------------------------------------------------------------
# check
# ------------------------------------------------------------------------------------------------
def check(ctx, case):
    kind = case["kind"]
    if kind == "radon":
        return _check_radon(ctx, case)
    if kind == "iradon":
        return _check_iradon(ctx, case)
    if kind == "filter":
        return _check_filter(ctx, case)
    raise core.HarnessError("unknown case kind %r" % (kind,))


def _theta_tensor(case):
    import torch

    th64 = ref.theta_values(case["angles"], case["theta_dtype"])
    return th64, torch.tensor(th64, dtype=getattr(torch, case["theta_dtype"]))


def _radon_linearity(ctx, case, rr, th, N, A, imgs, singles):
    import torch

    a, b = float(case["lin"]["a"]), float(case["lin"]["b"])
    y = ref.build_image(case["lin"]["img"], N)
    z = (a * imgs[0].astype(np.float64) + b * y.astype(np.float64)).astype(np.float32)
    with ctx.sut(case, "radon_torch(linear combination)"):
        Ry = _np(rr.radon_torch(torch.from_numpy(y.copy()), theta=th))
        Rz = _np(rr.radon_torch(torch.from_numpy(z.copy()), theta=th))
    Ry = _shape(case, Ry, (A, N), "radon_torch(2-D image)", squeeze_ok=False)
    Rz = _shape(case, Rz, (A, N), "radon_torch(2-D image)", squeeze_ok=False)
    scale = EPS32 * N * N * (abs(a) * float(np.abs(imgs[0]).max()) + abs(b) * float(np.abs(y).max()))
    _judge(ctx, case, Rz, a * singles[0] + b * Ry, scale, 2 * K_RADON, "radon_torch linearity R(a x + b y) vs a R(x) + b R(y), a=%r b=%r" % (a, b), "radon_linearity")


def _check_radon(ctx, case):
    import torch

    rr = _q()
    N = int(case["N"])
    th64, th = _theta_tensor(case)
    A = len(th64)
    imgs = [ref.build_image(s, N) for s in case["imgs"]]
    B = len(imgs)
    special, cl = _angle_classes(th64)
    all_smooth = all(s["type"] == "smooth" for s in case["imgs"])
    classes = ["kind:radon", "N:even" if N % 2 == 0 else "N:odd", "B:%d" % B, "theta:" + case["theta_dtype"]] + cl
    classes += sorted({"image:" + s["type"] for s in case["imgs"]})
    large = bool(case.get("large"))
    sfx = "_large" if large else ""
    if large:
        classes += ["large_problem", "large_problem:radon B*N^2*A=2^%d.." % int(np.log2(B * N * N * A))]
    ctx.record(case, (N % 2 == 0) or (not special) or (not all_smooth), classes)

    stack = np.stack(imgs)
    with ctx.sut(case, "radon_torch(batch)"):
        out = rr.radon_torch(torch.from_numpy(stack.copy()), theta=th)
    out = _shape(case, _np(out), (B, A, N), "radon_torch(batch of %d)" % B, squeeze_ok=(B == 1))

    worst = 0.0
    singles = []
    for i, img in enumerate(imgs):
        want = ref.ref_radon(img, th64)
        scale = EPS32 * N * N * float(np.abs(img).max())
        worst = max(worst, _judge(ctx, case, out[i], want, scale, K_RADON, "radon_torch vs skimage.radon (image %d of the batch)" % i, "radon" + sfx))
        with ctx.sut(case, "radon_torch(single image)"):
            one = rr.radon_torch(torch.from_numpy(img.copy()), theta=th)
        one = _shape(case, _np(one), (A, N), "radon_torch(2-D image)", squeeze_ok=False)
        singles.append(one)
        _judge(ctx, case, out[i], one, scale, K_BATCH, "radon_torch batched call vs per-image call (image %d)" % i, "radon_batch" + sfx)

    # linearity: R(a x + b y) = a R(x) + b R(y)   (not repeated on the large problems)
    if case.get("lin") is not None:
        _radon_linearity(ctx, case, rr, th, N, A, imgs, singles)

    # projection at 0 degrees == column sums of the disc-masked image.  This clause is judged on
    # the image BEFORE masking: applying the disc mask is radon_torch's own job
    raws = [ref.build_image(s, N, masked=False) for s in case["imgs"]]
    with ctx.sut(case, "radon_torch(theta=[0])"):
        p0 = _np(rr.radon_torch(torch.from_numpy(np.stack(raws)), theta=torch.zeros(1, dtype=th.dtype)))
    p0 = _shape(case, p0, (B, 1, N), "radon_torch(theta=[0])", squeeze_ok=(B == 1))
    for i, raw in enumerate(raws):
        scale = EPS32 * N * N * float(np.abs(raw).max())
        _judge(ctx, case, p0[i, 0], ref.column_sums(raw), scale, K_RADON, "radon_torch at 0 degrees vs column sums of the disc-masked image (image %d, given unmasked)" % i, "radon_theta0" + sfx)
    if not large:
        # history: the caller's own theta tensor, used in a call, refilled in place and used again - the second call must
        # see the new angles (seeded change C07-12: cos/sin memo keyed on the identity of the theta tensor)
        with ctx.sut(case, "radon_torch(theta buffer), buffer += 37 in place, radon_torch(same buffer)"):
            rr.radon_torch(torch.from_numpy(imgs[0].copy()), theta=th)
            th.add_(37)
            again = rr.radon_torch(torch.from_numpy(imgs[0].copy()), theta=th)
        again = _shape(case, _np(again), (A, N), "radon_torch(2-D image)", squeeze_ok=False)
        scale = EPS32 * N * N * float(np.abs(imgs[0]).max())
        _judge(ctx, case, again, ref.ref_radon(imgs[0], th.to(torch.float64).numpy().copy()), scale, K_RADON, "radon_torch vs skimage.radon after the caller's theta tensor was refilled in place", "radon_theta_reused")
    target(min(worst / K_RADON, 2.0), label="radon err/tol")


def _check_iradon(ctx, case):
    import torch

    rr = _q()
    N = int(case["N"])
    th64, th = _theta_tensor(case)
    A = len(th64)
    circle = bool(case["circle"])
    fname = case["filter"]
    sdt = case.get("sino_dtype", "float32")
    sinos = [ref.build_sinogram(s, A, N, th64, sdt) for s in case["sinos"]]
    B = len(sinos)
    special, cl = _angle_classes(th64)
    plain = all(s["type"] == "radon" and s["img"]["type"] == "smooth" for s in case["sinos"])
    classes = ["kind:iradon", "N:even" if N % 2 == 0 else "N:odd", "B:%d" % B, "theta:" + case["theta_dtype"]] + cl
    classes += ["filter:%s" % fname, "circle:%s" % circle, "sino_dtype:" + sdt]
    fractional = bool(np.any(th64 != np.trunc(th64)))
    if sdt != case["theta_dtype"]:
        classes.append("dtype_mix:sinogram!=theta")
    if sdt in ref.INT_SINO_DTYPES and fractional:
        classes.append("dtype_mix:integer_sinogram+fractional_angles")
    classes += sorted({"sinogram:" + s["type"] for s in case["sinos"]})
    out_size = N if circle else int(np.floor(np.sqrt(N**2 / 2.0)))
    large = bool(case.get("large"))
    sfx = "_large" if large else ""
    if large:
        classes += ["large_problem", "large_problem:iradon B*out^2*A=2^%d.." % int(np.log2(B * out_size * out_size * A))]
    ctx.record(case, (N % 2 == 0) or (not special) or (not plain), classes)

    skip = ref.unstable_pixels(N, th64, circle)
    if skip.any():
        ctx.count("iradon:pixels_at_detector_end_not_compared", int(skip.sum()))
    stack = np.stack(sinos)
    with ctx.sut(case, "iradon_torch(batch)"):
        out = rr.iradon_torch(torch.from_numpy(stack.copy()), theta=th, filter_name=fname, circle=circle)
    out = _shape(case, _np(out), (B, out_size, out_size), "iradon_torch(batch of %d)" % B, squeeze_ok=(B == 1))

    worst = 0.0
    singles = []
    for i, s in enumerate(sinos):
        want = ref.ref_iradon(s, th64, fname, circle)
        scale = EPS32 * (N + 8) * float(np.abs(s.astype(np.float64)).max())
        worst = max(
            worst,
            _judge(ctx, case, out[i], want, scale, K_IRADON, "iradon_torch vs skimage.iradon (filter %r, circle=%s, sinogram %d of the batch)" % (fname, circle, i), "iradon" + sfx, skip),
        )
        with ctx.sut(case, "iradon_torch(single sinogram)"):
            one = rr.iradon_torch(torch.from_numpy(s.copy()), theta=th, filter_name=fname, circle=circle)
        one = _shape(case, _np(one), (out_size, out_size), "iradon_torch(2-D sinogram)", squeeze_ok=False)
        singles.append(one)
        _judge(ctx, case, out[i], one, scale, K_BATCH, "iradon_torch batched call vs per-sinogram call (sinogram %d)" % i, "iradon_batch" + sfx, skip)

    if case.get("lin") is None:  # linearity is not repeated on the large problems
        if not large:
            _iradon_theta_reused(ctx, case, rr, th, sinos[0], N, fname, circle, out_size)
        target(min(worst / K_IRADON, 2.0), label="iradon err/tol")
        return
    a, b = float(case["lin"]["a"]), float(case["lin"]["b"])
    # the partner has the dtype of the batch; the combination is always handed over as float32
    # (a x + b y is in general not representable in an integer dtype)
    y = ref.build_sinogram(case["lin"]["sino"], A, N, th64, sdt)
    z = (a * sinos[0].astype(np.float64) + b * y.astype(np.float64)).astype(np.float32)
    with ctx.sut(case, "iradon_torch(linear combination)"):
        Iy = _np(rr.iradon_torch(torch.from_numpy(y.copy()), theta=th, filter_name=fname, circle=circle))
        Iz = _np(rr.iradon_torch(torch.from_numpy(z.copy()), theta=th, filter_name=fname, circle=circle))
    Iy = _shape(case, Iy, (out_size, out_size), "iradon_torch(2-D sinogram)", squeeze_ok=False)
    Iz = _shape(case, Iz, (out_size, out_size), "iradon_torch(2-D sinogram)", squeeze_ok=False)
    scale = EPS32 * (N + 8) * (abs(a) * float(np.abs(sinos[0].astype(np.float64)).max()) + abs(b) * float(np.abs(y.astype(np.float64)).max()))
    _judge(ctx, case, Iz, a * singles[0] + b * Iy, scale, 2 * K_IRADON, "iradon_torch linearity I(a s + b u) vs a I(s) + b I(u), a=%r b=%r" % (a, b), "iradon_linearity", skip)
    if not large:
        _iradon_theta_reused(ctx, case, rr, th, sinos[0], N, fname, circle, out_size)
    target(min(worst / K_IRADON, 2.0), label="iradon err/tol")


def _iradon_theta_reused(ctx, case, rr, th, sino, N, fname, circle, out_size):
    """History: the caller's theta tensor is used, shifted in place by 37 degrees and used again; the second call is
    judged against skimage.iradon at the NEW angles (seeded change C07-12 covers radon_torch and iradon_torch)."""
    import torch

    with ctx.sut(case, "iradon_torch(theta buffer), buffer += 37 in place, iradon_torch(same buffer)"):
        rr.iradon_torch(torch.from_numpy(sino.copy()), theta=th, filter_name=fname, circle=circle)
        th.add_(37)
        again = rr.iradon_torch(torch.from_numpy(sino.copy()), theta=th, filter_name=fname, circle=circle)
    again = _shape(case, _np(again), (out_size, out_size), "iradon_torch(2-D sinogram)", squeeze_ok=False)
    th_new = th.to(torch.float64).numpy().copy()
    scale = EPS32 * (N + 8) * float(np.abs(sino.astype(np.float64)).max())
    _judge(ctx, case, again, ref.ref_iradon(sino, th_new, fname, circle), scale, K_IRADON, "iradon_torch vs skimage.iradon after the caller's theta tensor was refilled in place (filter %r, circle=%s)" % (fname, circle), "iradon_theta_reused", ref.unstable_pixels(N, th_new, circle))


def _check_filter(ctx, case):
    rr = _q()
    size = int(case["size"])
    fname = case["filter"]
    ctx.record(case, fname is not None, ["kind:filter", "filter:%s" % fname, "filter_size:pow2" if size & (size - 1) == 0 else "filter_size:other"])
    with ctx.sut(case, "get_fourier_filter_torch"):
        f = rr.get_fourier_filter_torch(size, fname)
    # documented layout: [1, size] (broadcast over [angles, size]); scikit-image's is (size, 1)
    f = _shape(case, _np(f), (1, size), "get_fourier_filter_torch(%d, %r)" % (size, fname), squeeze_ok=False)
    r = _judge(ctx, case, f[0], ref.ref_filter(size, fname), EPS32, K_FILTER, "get_fourier_filter_torch(%d, %r) vs skimage _get_fourier_filter" % (size, fname), "filter")
    target(min(r / K_FILTER, 2.0), label="filter err/tol")


def search(ctx):
    # the filter sub-domain is finite and small (127 even sizes x 6 names): swept completely
    for size in range(4, 257, 2):
        for fname in ref.FILTERS:
            check(ctx, {"kind": "filter", "size": size, "filter": fname})
    ctx.extra["filter_cases_enumerated_exhaustively"] = True
    # every image size x every filter name once per run (size-specific code paths - FFT padding, detector
    # padding - must not depend on the luck of the size draw): noise + impulse sinograms, circle mode
    for N in range(4, 49):
        if (N + ctx.widx) % max(1, ctx.nworkers) != 0 and ctx.nworkers > 1 and not ctx.thorough:
            continue
        for j, fname in enumerate(ref.FILTERS):
            sd = 1000 * N + j + 17 * ctx.seed
            check(ctx, {
                "kind": "iradon", "N": N, "theta_dtype": "float32", "angles": [0.0, 37.5, 90.0, 121.25, 180.0][: 3 + (N + j) % 3],
                "filter": fname, "circle": True, "tier": "size_x_filter_grid",
                "sinos": [{"type": "noise", "seed": sd % 2**31, "amp": 1.0}, {"type": "impulse", "points": [[0, N // 2, 1.0], [1, N - 1, -2.0]]}],
                "lin": {"sino": {"type": "ones", "amp": 1.0}, "a": 1.0, "b": -0.5},
            })  # fmt: skip
    # large problems: every row of the grid, twice (quick) or six times (thorough, per worker)
    for k, row in enumerate(LARGE_THOROUGH if ctx.thorough else LARGE_QUICK):
        core.run_given(ctx, "large-%d" % k, large_cases(row), lambda c: check(ctx, c), ctx.n(2, 6), shrink=False)
    # thorough: several independently seeded Hypothesis runs per worker instead of one long one
    chunks = 1 if not ctx.thorough else 6
    for k in range(chunks):
        core.run_given(ctx, "radon-%d" % k, radon_cases(), lambda c: check(ctx, c), ctx.n(1100, 2500))
        core.run_given(ctx, "iradon-%d" % k, iradon_cases(), lambda c: check(ctx, c), ctx.n(1100, 2500))

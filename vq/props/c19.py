"""C19 — configuration store: last-writer-wins nested map, refresh restores defaults,
device rejection, `with set(...)` restores.

Model-based: generated histories of set / update_defaults / refresh / with-blocks / device requests
are applied to the real module-level store and to a reference model written from the docstrings;
after every step every schema path is read back through `get` in both spellings."""

from __future__ import annotations

import copy

from hypothesis import strategies as st

from vq import core

# ------------------------------------------------------------------------------------------------
# fixed schema: every path has a fixed kind (interior / leaf), so "leaf under scalar" never occurs
# (that is a TypeError today and not a claimed input).  Components are written normalised ('_').
# ------------------------------------------------------------------------------------------------
SCHEMA = {
    "alpha": None,
    "alpha_2": None,  # name string-extends "alpha" (not a child of it)
    "beta": None,
    "beta_one": None,
    "gamma_two": None,
    "dtype_real": None,  # real default key
    "grp_a": {"x": None, "x_tra": None, "y_z": None, "w_v": None, "sub": {"p": None, "q_r": None}, "sub_x": None},
    "grp_b": {"k": None, "m_n": None},
    "viz": {"cmap": None, "real_space_units": None, "colors": {"set": None}},  # real defaults
    "cupy": {"fft_cache_size": None},  # real default spelled with hyphens in quantem.yaml
    "mkl": {"threads": None},
}


def _paths(tree, prefix=()):
    for k, v in tree.items():
        p = prefix + (k,)
        yield p, v is not None
        if v is not None:
            yield from _paths(v, p)


ALL_PATHS = list(_paths(SCHEMA))
LEAF_PATHS = [p for p, interior in ALL_PATHS if not interior]
INTERIOR_PATHS = [p for p, interior in ALL_PATHS if interior]


def _subtree(path):
    t = SCHEMA
    for c in path:
        t = t[c]
    return t


def norm_key(k):
    return k.replace("-", "_") if isinstance(k, str) else k


def norm_tree(d):
    if isinstance(d, dict):
        return {norm_key(k): norm_tree(v) for k, v in d.items()}
    return d


# ------------------------------------------------------------------------------------------------
# generators
# ------------------------------------------------------------------------------------------------
VALUES = st.one_of(
    st.integers(0, 3),
    st.integers(-1000, 1000),
    st.sampled_from(["a", "b", "float32", "gray", "x-y_z", ""]),
    st.lists(st.integers(0, 3), max_size=3),
    st.booleans(),
    st.none(),
    st.floats(-2, 2, allow_nan=False).map(lambda f: round(f, 2)),
)


def _spell(draw, comp):
    # inherited canonicalisation flips a whole component between all-'_' and all-'-'
    return comp.replace("_", "-") if draw(st.booleans()) else comp


@st.composite
def spelled_path(draw, path):
    return [_spell(draw, c) for c in path]


@st.composite
def mapping_for(draw, path):
    """A fresh nested mapping for interior `path` covering a drawn subset of its schema children."""
    sub = _subtree(path)
    out = {}
    for k, v in sub.items():
        if not draw(st.booleans()):
            continue
        sk = _spell(draw, k)
        out[sk] = draw(VALUES) if v is None else draw(mapping_for(path + (k,)))
    return out


def _pool(paths, focus):
    """With a focus subtree, 3 of 4 draws come from that subtree: histories then revisit the same few keys
    (set / defaults / refresh collisions, None <-> section transitions) instead of spreading over 22 paths."""
    if not focus:
        return st.sampled_from(paths)
    inside = [p for p in paths if p[0] == focus]
    if not inside:
        return st.sampled_from(paths)
    return st.one_of(st.sampled_from(inside), st.sampled_from(inside), st.sampled_from(inside), st.sampled_from(paths))


@st.composite
def set_item(draw, focus=None):
    if draw(st.integers(0, 2 if focus else 4)) == 0:
        path = draw(_pool(INTERIOR_PATHS, focus))
        # an interior key may also hold None (an empty yaml section); a later section default / mapping
        # value must turn it into a section again
        val = None if draw(st.integers(0, 2)) == 0 else draw(mapping_for(path))
    else:
        path = draw(_pool(LEAF_PATHS, focus))
        val = draw(VALUES)
    return [draw(spelled_path(path)), val]


@st.composite
def set_step(draw, focus=None):
    items = draw(st.lists(set_item(focus), min_size=1, max_size=3))
    form = draw(st.sampled_from(["mapping", "kwargs", "mapping+kwargs"]))
    return {"op": "set", "form": form, "items": items}


@st.composite
def defaults_step(draw, focus=None):
    new = {}
    for _ in range(draw(st.integers(1, 3))):
        path = draw(_pool(LEAF_PATHS, focus))
        sp = draw(spelled_path(path))
        d = new
        ok = True
        for c in sp[:-1]:
            # do not put both spellings of one component into the same mapping
            alt = [k for k in d if norm_key(k) == norm_key(c)]
            c = alt[0] if alt else c
            d = d.setdefault(c, {})
            if not isinstance(d, dict):
                ok = False
                break
        if ok:
            alt = [k for k in d if norm_key(k) == norm_key(sp[-1])]
            d[alt[0] if alt else sp[-1]] = draw(VALUES)
    return {"op": "update_defaults", "new": new}


PREFIX_PAIRS = [(("alpha",), ("alpha_2",)), (("beta",), ("beta_one",)), (("grp_a", "x"), ("grp_a", "x_tra")), (("grp_a", "sub"), ("grp_a", "sub_x")), (("grp_a", "sub"), ("grp_a", "sub", "p"))]


@st.composite
def with_step(draw, focus=None):
    outer = draw(st.lists(set_item(focus), min_size=1, max_size=3))
    if draw(st.integers(0, 2)) == 0:
        # two entries of ONE set call whose dotted names are string-prefix related (shorter first or second)
        a, b = draw(st.sampled_from(PREFIX_PAIRS))
        ia = [draw(spelled_path(a)), draw(mapping_for(a)) if a in INTERIOR_PATHS else draw(VALUES)]
        ib = [draw(spelled_path(b)), draw(VALUES)]
        outer = ([ia, ib] if draw(st.integers(0, 3)) else [ib, ia]) + outer[:1]
    inner = draw(st.none() | st.lists(set_item(focus), min_size=1, max_size=2))
    return {"op": "with", "outer": outer, "inner": inner, "raise_inside": draw(st.booleans())}


BAD_DEVICES = [
    "cuda", "cuda:0", "cuda:7", "CUDA:1", "gpu", "GPU", "mps", "MPS", 0, 1, 5, -1, -3, 3.5, True,
    "tpu", "", "xyz", "xla:0", "meta", ["cuda"], "cuda:-1", "cuda:abc",
    "torch.device:meta", "torch.device:cuda", "torch.device:cuda:1", "torch.device:mps", "torch.device:xla",
    "torch.device:xpu", "torch.device:hpu", "torch.device:vulkan",
]  # fmt: skip
GOOD_DEVICES = ["cpu", "CPU", "torch.device:cpu", "cpu:0"]


@st.composite
def device_step(draw):
    good = draw(st.integers(0, 3)) == 0
    val = draw(st.sampled_from(GOOD_DEVICES if good else BAD_DEVICES))
    via = draw(st.sampled_from(["set_device", "set_mapping", "set_kwargs", "update_defaults", "with"]))
    return {"op": "device", "via": via, "value": val, "good": good}


def step_strategy(focus=None):
    return st.one_of(
        set_step(focus), set_step(focus), set_step(focus), defaults_step(focus), defaults_step(focus),
        st.just({"op": "refresh"}), st.just({"op": "refresh"}), with_step(focus), device_step(),
    )  # fmt: skip


@st.composite
def histories(draw, max_steps):
    focus = draw(st.sampled_from([None, None, "grp_a", "grp_a", "viz", "grp_b"]))
    steps = draw(st.lists(step_strategy(focus), min_size=5 if focus else 1, max_size=max_steps))
    return {"kind": "history", "steps": steps, "mapping_kind": draw(st.sampled_from([0, 0, 0, 1, 2, 3, 4]))}


DEEP = [(("grp_a",), ("grp_a", "sub", "p")), (("grp_a",), ("grp_a", "sub", "q_r")), (("viz",), ("viz", "colors", "set")), (("grp_a", "sub"), ("grp_a", "sub", "p"))]


@st.composite
def transition_histories(draw):
    """Template for the rare ordered event chain 'a section key holds None (empty yaml section) -> a later
    defaults layer fills it with a nested section -> the user sets a key deep inside -> refresh', with
    random steps interleaved.  The random generator produces each event often but the chain rarely."""
    top, leaf = draw(st.sampled_from(DEEP))
    focus = top[0]
    noise = lambda: draw(st.lists(step_strategy(focus), max_size=2))  # noqa: E731
    nested = draw(VALUES)
    for c in reversed(leaf[len(top):]):
        nested = {_spell(draw, c): nested}
    d = nested
    for c in reversed(top):
        d = {_spell(draw, c): d}
    steps = []
    steps += noise()
    steps.append({"op": "set", "form": draw(st.sampled_from(["mapping", "kwargs"])), "items": [[draw(spelled_path(top)), None]]})
    steps += noise()
    steps.append({"op": "update_defaults", "new": d})
    steps += noise()
    steps.append({"op": "set", "form": draw(st.sampled_from(["mapping", "kwargs"])), "items": [[draw(spelled_path(leaf)), draw(VALUES)]]})
    steps += noise()
    steps.append({"op": "refresh"})
    steps += noise()
    return {"kind": "history", "steps": steps, "mapping_kind": draw(st.sampled_from([0, 0, 1, 2, 3, 4]))}


# ------------------------------------------------------------------------------------------------
# reference model
# ------------------------------------------------------------------------------------------------
def as_mapping(d, kind, top_only=False):
    """The API takes Mappings, not only dicts: hand nested sections over as MappingProxyType / UserDict /
    ChainMap / OrderedDict (kind 1..4; 0 = plain dict)."""
    import collections
    import types

    if not isinstance(d, dict):
        return d
    inner = d if top_only else {k: as_mapping(v, kind) for k, v in d.items()}
    if kind == 1:
        return types.MappingProxyType(inner)
    if kind == 2:
        return collections.UserDict(inner)
    if kind == 3:
        return collections.ChainMap(inner)
    if kind == 4:
        return collections.OrderedDict(inner)
    return inner


class Model:
    """cur / defaults hold nested dicts with NORMALISED keys; value semantics (deep copies)."""

    def __init__(self, pristine_cur, pristine_defaults):
        self.cur = norm_tree(copy.deepcopy(pristine_cur))
        self.defaults = [norm_tree(copy.deepcopy(d)) for d in pristine_defaults]
        # leaf paths whose current value may legitimately be either "kept" or "replaced" by the next
        # update_defaults when it equals the previous default (see DESIGN C19)
        self.uncertain = set()

    @staticmethod
    def _merge_new(old, new):
        for k, v in new.items():
            if isinstance(v, dict):
                if not isinstance(old.get(k), dict):
                    old[k] = {}
                Model._merge_new(old[k], v)
            else:
                old[k] = copy.deepcopy(v)

    def merged_defaults(self):
        out = {}
        for d in self.defaults:
            self._merge_new(out, d)
        return out

    def set(self, path, value):
        d = self.cur
        for i, c in enumerate(path[:-1]):
            if c not in d:
                d[c] = {}
                # an ancestor created by set() may be stored under the other spelling than the one the
                # defaults use; update_defaults then cannot see the previous default of ANY leaf below
                # it (inherited behaviour, outside what the property fixes) -> either outcome allowed
                for lp in LEAF_PATHS:
                    if lp[: i + 1] == tuple(path[: i + 1]):
                        self.uncertain.add(lp)
            d = d[c]
        d[path[-1]] = norm_tree(copy.deepcopy(value))
        # anything at or below this path was written by the user
        for lp in LEAF_PATHS:
            if lp[: len(path)] == tuple(path):
                self.uncertain.add(lp)

    def refresh(self):
        self.cur = self.merged_defaults()
        self.uncertain = set()

    def get(self, path):
        d = self.cur
        for c in path:
            if not isinstance(d, dict) or c not in d:
                raise KeyError(path)
            d = d[c]
        return d


MISSING = "__vq_missing__"


class Harness:
    def __init__(self, ctx, case):
        import quantem.core.config as qc

        self.qc = qc
        self.ctx = ctx
        self.case = case
        self.pristine_defaults = list(qc.defaults)
        # pristine state = accumulated defaults; QUANTEM_CONFIG points at an empty directory
        qc.refresh()
        self.pristine_cur = copy.deepcopy(qc.config)
        self.model = Model(self.pristine_cur, [copy.deepcopy(d) for d in qc.defaults])
        self.flags = {"set_paths": set(), "defaults_after_set": False, "refresh_after": False, "with": False}
        self.case_wrap = int(case.get("mapping_kind", 0)) if isinstance(case, dict) else 0

    def close(self):
        qc = self.qc
        qc.defaults[:] = self.pristine_defaults
        qc.config.clear()
        qc.config.update(copy.deepcopy(self.pristine_cur))

    # -- helpers ----------------------------------------------------------------------------------
    def _viol(self, msg):
        raise core.Violation(msg, self.case)

    @staticmethod
    def _plan(items, form):
        """Resolve the call into its real application order: list of (spelled path, value, to_kw).  The
        mapping is applied first, then the keyword arguments, each in insertion order; a repeated literal
        key is superseded by its last occurrence (as in a dict literal, keeping the first position for a
        plain dict update but we delete + re-insert, so it moves to the end)."""
        order_map, order_kw = {}, {}
        for i, (sp, val) in enumerate(items):
            to_kw = form == "kwargs" or (form == "mapping+kwargs" and i % 2 == 1)
            if to_kw and "__".join(sp) in order_kw:
                to_kw = False
            if to_kw:
                order_kw["__".join(sp)] = (sp, val, True)
            else:
                order_map.pop(".".join(sp), None)
                order_map[".".join(sp)] = (sp, val, False)
        return list(order_map.values()) + list(order_kw.values())

    def _applicable(self, items, form):
        """Plan of the call without the entries that would assign BELOW a key currently holding None / a
        scalar (a TypeError today, not a claimed input), decided on a simulation in application order."""
        sim = copy.deepcopy(self.model.cur)
        plan = []
        for sp, val, to_kw in self._plan(items, form):
            path = [norm_key(c) for c in sp]
            d, ok = sim, True
            for c in path[:-1]:
                if c in d and not isinstance(d[c], dict):
                    ok = False
                    break
                d = d.setdefault(c, {})
            if ok:
                d[path[-1]] = norm_tree(copy.deepcopy(val))
                plan.append((sp, val, to_kw))
            else:
                self.ctx.exclude("set_below_none_or_scalar")
        return plan

    def _real_set(self, plan, wrap=0):
        qc = self.qc
        mapping, kwargs = {}, {}
        for sp, val, to_kw in plan:
            (kwargs if to_kw else mapping)["__".join(sp) if to_kw else ".".join(sp)] = copy.deepcopy(val)
        arg = mapping if (mapping or not kwargs) else None
        if arg is not None and wrap:
            arg = as_mapping(arg, wrap, top_only=True)  # the top-level argument is documented as a Mapping
        return qc.set(arg, **kwargs), mapping, kwargs

    def _model_set(self, plan):
        for sp, val, _to_kw in plan:
            self.model.set([norm_key(c) for c in sp], val)
            self.flags["set_paths"].add(tuple(norm_key(c) for c in sp))

    # -- steps -------------------------------------------------------------------------------------
    def apply(self, step):
        op = step["op"]
        ctx, case, qc = self.ctx, self.case, self.qc
        if op == "set":
            items = self._applicable(step["items"], step["form"])
            if items:
                with ctx.sut(case, "config.set"):
                    self._real_set(items, wrap=self.case_wrap)
                self._model_set(items)
        elif op == "refresh":
            with ctx.sut(case, "config.refresh"):
                qc.refresh()
            self.model.refresh()
            if self.flags["defaults_after_set"]:
                self.flags["refresh_after"] = True
        elif op == "update_defaults":
            self._update_defaults(step["new"])
        elif op == "with":
            self._with(step)
        elif op == "device":
            self._device(step)
        else:
            raise core.HarnessError("unknown op %r" % op)
        self.compare("after step %r" % op)

    def _update_defaults(self, new):
        ctx, case, qc = self.ctx, self.case, self.qc
        prev = self.model.merged_defaults()
        with ctx.sut(case, "config.update_defaults"):
            arg = copy.deepcopy(new)
            if self.case_wrap:
                # update_defaults stores and mutates the top-level object (a dict is required there); the NESTED
                # sections may be any Mapping
                arg = {k: as_mapping(v, self.case_wrap) for k, v in arg.items()}
                self.ctx.count("non_dict_mapping_sections")
            qc.update_defaults(arg)
        nnew = norm_tree(copy.deepcopy(new))
        self.model.defaults.append(nnew)

        def walk(new_d, cur_d, prev_d, path):
            for k, v in new_d.items():
                p = path + (k,)
                if isinstance(v, dict):
                    if not isinstance(cur_d.get(k), dict):
                        cur_d[k] = {}
                    walk(v, cur_d[k], prev_d.get(k) if isinstance(prev_d, dict) and isinstance(prev_d.get(k), dict) else {}, p)
                    continue
                if p in self.flags["set_paths"] or any(p[: len(s)] == s for s in self.flags["set_paths"]):
                    self.flags["defaults_after_set"] = True
                if k not in cur_d:
                    cur_d[k] = copy.deepcopy(v)
                elif not (isinstance(prev_d, dict) and k in prev_d):
                    pass  # no earlier default: the stored value is the user's, keep it
                elif not (prev_d[k] == cur_d[k]):
                    pass  # user changed it away from the default: keep
                elif p in self.model.uncertain:
                    # a user-set value that happens to equal the previous default cannot be told
                    # from an untouched default: either outcome is allowed, adopt the observed one
                    try:
                        real = self.qc.get(".".join(p))
                    except Exception:
                        self._viol("key %s vanished after update_defaults" % (p,))
                    if real == v or real == cur_d[k]:
                        self.ctx.count("ambiguous_default_override")
                        cur_d[k] = copy.deepcopy(real)
                    else:
                        cur_d[k] = copy.deepcopy(v)  # neither: compare() will report
                else:
                    cur_d[k] = copy.deepcopy(v)  # untouched default follows the new default

        walk(nnew, self.model.cur, prev, ())

    def _with(self, step):
        ctx, case, qc = self.ctx, self.case, self.qc
        self.flags["with"] = True
        before_model = copy.deepcopy(self.model.cur)
        before_unc = set(self.model.uncertain)
        before_flags = set(self.flags["set_paths"])

        class _Boom(Exception):
            pass

        outer_items = self._applicable(step["outer"], "mapping")
        if not outer_items:
            return
        try:
            with ctx.sut(case, "with config.set(...)"):
                cm, _m, _k = self._real_set(outer_items)
                if not (hasattr(type(cm), "__enter__") and hasattr(type(cm), "__exit__")):
                    self._viol("config.set(...) cannot be used as a context manager (no __enter__/__exit__): previous values are not restored on exit")
                with cm:
                    self._model_set(outer_items)
                    self.compare("inside with-block")
                    inner_items = self._applicable(step["inner"], "mapping") if step["inner"] is not None else []
                    if inner_items:
                        mid_model = copy.deepcopy(self.model.cur)
                        cm2, _m2, _k2 = self._real_set(inner_items)
                        with cm2:
                            self._model_set(inner_items)
                            self.compare("inside nested with-block")
                        self.model.cur = mid_model
                        self.compare("after leaving the nested with-block")
                    if step.get("raise_inside"):
                        raise _Boom()
        except _Boom:
            pass
        self.model.cur = before_model
        self.model.uncertain = before_unc
        self.flags["set_paths"] = before_flags

    def _device(self, step):
        import torch

        ctx, case, qc = self.ctx, self.case, self.qc
        val = step["value"]
        if isinstance(val, str) and val.startswith("torch.device:"):
            val = torch.device(val[len("torch.device:"):])
        with ctx.sut(case, "config.get('device')"):
            before = qc.get("device")
        raised = None
        try:
            if step["via"] == "set_device":
                qc.set_device(val)
            elif step["via"] == "set_mapping":
                qc.set({"device": val})
            elif step["via"] == "set_kwargs":
                qc.set(device=val)
            elif step["via"] == "with":
                cm = qc.set({"device": val})
                if hasattr(type(cm), "__exit__"):  # (absence is reported by the with-step)
                    with cm:
                        pass
            else:
                qc.update_defaults({"device": val})
        except Exception as e:  # noqa: BLE001 - judged right below
            raised = e
        with ctx.sut(case, "config.get('device')"):
            after = qc.get("device")
        if step["good"]:
            if raised is not None:
                self._viol("cpu device request %r rejected: %r" % (step["value"], raised))
            if after != "cpu":
                self._viol("cpu device request %r stored as %r" % (step["value"], after))
            if step["via"] == "update_defaults":
                self.model.defaults.append({"device": "cpu"})
        else:
            if raised is None:
                self._viol("unavailable/malformed device %r via %s was accepted (device now %r)" % (step["value"], step["via"], after))
            if after != before:
                self._viol("rejected device request %r changed the stored device %r -> %r" % (step["value"], before, after))
        ctx.count("device:" + ("accepted" if step["good"] else "rejected"))

    def _ancestors_are_sections(self, path):
        d = self.model.cur
        for c in path[:-1]:
            if not isinstance(d, dict):
                return False  # below a key holding None / a scalar
            if c not in d:
                return True  # plain absence (KeyError expected)
            d = d[c]
        return isinstance(d, dict)

    # -- invariant ---------------------------------------------------------------------------------
    def compare(self, when):
        qc, case = self.qc, self.case
        for path, _interior in ALL_PATHS:
            try:
                exp = self.model.get(path)
                present = True
            except KeyError:
                exp, present = None, False
            for spelling in ("_", "-"):
                key = ".".join(c if spelling == "_" else c.replace("_", "-") for c in path)
                try:
                    got = qc.get(key)
                    gp = True
                except KeyError:
                    got, gp = None, False
                except TypeError:
                    # reading below a key that holds None / a scalar: "absent" is reported as TypeError
                    got, gp = None, False
                    if present or self._ancestors_are_sections(path):
                        self._viol("%s: get(%r) raised TypeError" % (when, key))
                except Exception as e:  # noqa: BLE001
                    self._viol("%s: get(%r) raised %s: %s" % (when, key, type(e).__name__, e))
                if gp != present:
                    self._viol("%s: get(%r) %s but the model says the key is %s" % (when, key, "returned %r" % (got,) if gp else "raised KeyError", "present (%r)" % (exp,) if present else "absent"))
                if present and not _same(norm_tree(got), exp):
                    self._viol("%s: get(%r) = %r, expected %r" % (when, key, got, exp))
                try:
                    d = qc.get(key, default=MISSING)
                except Exception as e:  # noqa: BLE001 - an observation may not raise when a default is given
                    self._viol("%s: get(%r, default=...) raised %s: %s" % (when, key, type(e).__name__, e))
                if (d == MISSING) == present and not (present and exp == MISSING):
                    self._viol("%s: get(%r, default) inconsistent with get(%r)" % (when, key, key))
        # whole-store comparison: no stray or dropped keys anywhere (siblings survive)
        real = norm_tree(copy.deepcopy(qc.config))
        if not _same(real, self.model.cur):
            self._viol("%s: whole store differs from model: real=%r model=%r" % (when, _diff(real, self.model.cur), "see paths"))


def _same(a, b):
    if isinstance(a, dict) or isinstance(b, dict):
        if not (isinstance(a, dict) and isinstance(b, dict)) or a.keys() != b.keys():
            return False
        return all(_same(a[k], b[k]) for k in a)
    return type(a) is type(b) and a == b


def _diff(a, b, path=()):
    out = []
    if isinstance(a, dict) and isinstance(b, dict):
        for k in sorted(set(a) | set(b), key=str):
            if k not in a:
                out.append((".".join(path + (str(k),)), "<absent>", b[k]))
            elif k not in b:
                out.append((".".join(path + (str(k),)), a[k], "<absent>"))
            else:
                out += _diff(a[k], b[k], path + (str(k),))
    elif not _same(a, b):
        out.append((".".join(path), a, b))
    return out[:4]


# ------------------------------------------------------------------------------------------------
def check(ctx, case):
    steps = case["steps"]
    h = Harness(ctx, case)
    try:
        h.compare("initially")
        for s in steps:
            h.apply(s)
        ops = [s["op"] for s in steps]
        nontrivial = bool(h.flags["with"] or (h.flags["defaults_after_set"] and h.flags["refresh_after"]))
        classes = ["op:" + o for o in ops]
        classes.append("len:%d" % min(len(steps), 20))
        if h.flags["defaults_after_set"] and h.flags["refresh_after"]:
            classes.append("set_then_defaults_then_refresh")
        if any(s["op"] == "with" and s["inner"] is not None for s in steps):
            classes.append("nested_with")
        ctx.record(case, nontrivial, classes)
    finally:
        h.close()


def search(ctx):
    core.run_given(ctx, "histories", histories(20), lambda c: check(ctx, c), ctx.n(1500, 4000))
    core.run_given(ctx, "none-to-section", transition_histories(), lambda c: check(ctx, c), ctx.n(250, 800))

"""C08 — failed saves leave no loadable partial object; write-once never overwrites; no save
touches a path other than its target.

Fault enumeration: for every generated (graph, store, mode, pre-state) the un-faulted save() is run
once under counting wrappers to learn the number n of fault sites (calls of _serialize_value,
_write_ndarray, _write_bytes and ZipFile.write), then save() is re-run from a fresh copy of the
pre-state with an exception injected at EVERY site k = 1..n."""

from __future__ import annotations

import contextlib
import errno
import hashlib
import io
import os
import shutil
import tempfile
import zipfile

from hypothesis import strategies as st

from vq import core
from vq.gen import graphs as gg


class Injected(Exception):
    pass


# ------------------------------------------------------------------------------------------------
# generators
# ------------------------------------------------------------------------------------------------
@st.composite
def small_objects(draw, depth=2):
    cls = draw(st.sampled_from(["NodeA", "NodeB", "NodeC"]))
    names = draw(st.lists(gg.attr_names(), min_size=2, max_size=5, unique=True))
    attrs = []
    nested_done = False
    for i, n in enumerate(names):
        r = draw(st.integers(0, 5))
        if depth > 0 and (r == 0 or (i == len(names) - 1 and not nested_done and depth == 2)):
            attrs.append([n, draw(small_objects(depth - 1))])
            nested_done = True
        elif r <= 2:
            attrs.append([n, draw(gg.values(1, objs=False))])
        else:
            attrs.append([n, draw(gg.leaves())])
    return {"t": "obj", "cls": cls, "attrs": attrs}


def _inject_unpicklable(draw, spec):
    """Replace one attribute (at a drawn position, possibly nested) by an unserialisable leaf."""
    objs = []

    def walk(s):
        if s["t"] == "obj":
            objs.append(s)
            for _n, v in s["attrs"]:
                walk(v)

    walk(spec)
    o = objs[draw(st.integers(0, len(objs) - 1))]
    i = draw(st.integers(0, len(o["attrs"]) - 1))
    where = draw(st.sampled_from(["attr", "in_list", "in_dict"]))
    bad = {"t": "unpicklable"}
    if where == "in_list":
        bad = {"t": "list", "items": [{"t": "str", "v": "x"}, bad]}
    elif where == "in_dict":
        bad = {"t": "dict", "items": [["k", {"t": "int", "v": 1}], ["bad", bad]]}
    o["attrs"][i][1] = bad


PRES = {
    "zip": ["absent", "earlier_save", "unrelated_file", "unrelated_dir", "earlier_other_kind", "hardlink_twin", "symlink_to_file"],
    "dir": ["absent", "earlier_save", "unrelated_file", "unrelated_dir", "earlier_other_kind", "symlink_to_dir"],
}
# every (store, pre-state, mode) combination is its own stratum of the search (see search()): a uniform draw over
# the 26 combinations left whole combinations out of a quick run (seeded change C08-7 was then caught at one seed
# and missed at another)
STRATA = [(store, pre, mode) for store in ("zip", "dir") for pre in PRES[store] for mode in ("o", "w")]


@st.composite
def cases(draw, stratum=None):
    root = draw(small_objects())
    natural = draw(st.integers(0, 5)) == 0
    if natural:
        _inject_unpicklable(draw, root)
    if stratum is None:
        store, pre, mode = draw(st.sampled_from(STRATA))
    else:
        store, pre, mode = stratum
    case = {
        "kind": "fault",
        "root": root,
        "old": draw(small_objects(1)),
        "store": store,
        "mode": mode,
        "pre": pre,
        # zip store may be given a path without the .zip suffix (save appends it)
        "suffix_given": draw(st.booleans()) if store == "zip" else True,
        # base name of the target; dotted names matter for the zip store: "run.v2" -> "run.v2.zip", never "run.zip"
        "name": draw(st.sampled_from(["t", "t", "run.v2", "scan_0.5mrad", "a.b.c"])) if store == "zip" else "t",
        # "cycle": fault site k uses exception kind EXCS[(k + off) % 4] and timing WHENS[((k + off) // 4) % 3],
        # so every case exercises every exception kind and both timings across its sites
        "when": draw(st.sampled_from(["cycle", "cycle", "before", "after"])),
        "exc": draw(st.sampled_from(["cycle", "cycle", "cycle", "cycle"] + EXCS)),
        "off": draw(st.integers(0, 11)),
        "natural": natural,
        # the process runs with warnings turned into errors (python -W error / pytest -W error)
        "warn_error": draw(st.integers(0, 3)) == 0,
        "compression": draw(st.sampled_from([None, 0, 4])),
        # history: earlier in the same process a write-once save onto ANOTHER, existing target was refused
        # (seeded change C08-12: a class-level list of unfinished targets that a refused save never leaves, and that
        # the failure clean-up of a later save removes wholesale)
        "refused_before": draw(st.integers(0, 2)) == 0,
    }
    return case


# ------------------------------------------------------------------------------------------------
# filesystem helpers
# ------------------------------------------------------------------------------------------------
def snapshot(root, exclude=None):
    """{relative path: (type, size, sha256)} of everything under root except the `exclude` subtree."""
    out = {}
    for dp, dns, fns in os.walk(root):
        for name in list(dns) + fns:
            p = os.path.join(dp, name)
            rel = os.path.relpath(p, root)
            if exclude is not None and (rel == exclude or rel.startswith(exclude + os.sep)):
                continue
            if os.path.islink(p):
                out[rel] = ("link", 0, os.readlink(p))
            elif os.path.isdir(p):
                out[rel] = ("dir", 0, "")
            else:
                with open(p, "rb") as f:
                    b = f.read()
                out[rel] = ("file", len(b), hashlib.sha256(b).hexdigest())
    return out


def _snap_diff(a, b):
    gone = sorted(set(a) - set(b))
    new = sorted(set(b) - set(a))
    changed = sorted(k for k in set(a) & set(b) if a[k] != b[k])
    if gone or new or changed:
        return "removed=%s created=%s modified=%s" % (gone[:4], new[:4], changed[:4])
    return None


def _make_exc(name):
    if name == "OSError":
        return OSError(errno.ENOSPC, "vq: injected ENOSPC")
    if name == "RuntimeError":
        return RuntimeError("vq: injected")
    if name == "SystemExit":
        return SystemExit(3)  # e.g. a SIGTERM handler calling sys.exit() during a long save
    if name == "MemoryError":
        return MemoryError("vq: injected")
    if name == "GeneratorExit":
        return GeneratorExit()
    if name == "CustomBase":
        return CustomBase("vq: injected")
    if name == "KeyboardInterrupt":
        return KeyboardInterrupt("vq: injected")  # "fails part-way for any reason": Ctrl-C during a long save
    return Injected("vq: injected")


EXCS = ["OSError", "KeyboardInterrupt", "RuntimeError", "Injected", "SystemExit", "MemoryError", "GeneratorExit", "CustomBase"]


class CustomBase(BaseException):
    """a BaseException that is neither Exception nor KeyboardInterrupt (cf. asyncio.CancelledError)"""
WHENS = ["before", "after", "before"]


def _exc_when(case, k):
    off = case.get("off", 0)
    kk = (k or 0) + off
    exc = case["exc"] if case["exc"] != "cycle" else EXCS[kk % len(EXCS)]
    when = case["when"] if case["when"] != "cycle" else WHENS[(kk // len(EXCS)) % 3]
    return exc, when


class Faults:
    """Counting / fault-injecting wrappers around the serializer's write operations."""

    def __init__(self, fail_at=None, when="before", exc="Injected"):
        self.count = 0
        self.fail_at = fail_at
        self.when = when
        self.exc_name = exc
        self.raised = None
        self.sites = []

    def _tick(self, site, phase):
        if phase == "before":
            self.count += 1
            self.sites.append(site)
        if self.fail_at is not None and self.count == self.fail_at and phase == self.when and self.raised is None:
            self.raised = _make_exc(self.exc_name)
            raise self.raised

    @contextlib.contextmanager
    def installed(self):
        import quantem.core.io.serialize as ser

        A = ser.AutoSerialize
        orig_sv = A.__dict__["_serialize_value"]
        orig_wn = A.__dict__["_write_ndarray"]
        orig_wb = A.__dict__["_write_bytes"]
        orig_zip = ser.ZipFile
        me = self

        def sv(self_, value, group, name, *a, **k):
            me._tick("_serialize_value:%s" % name, "before")
            r = orig_sv(self_, value, group, name, *a, **k)
            me._tick("_serialize_value:%s" % name, "after")
            return r

        def wn(group, name, array, *a, **k):
            me._tick("_write_ndarray:%s" % name, "before")
            r = orig_wn.__func__(group, name, array, *a, **k)
            me._tick("_write_ndarray:%s" % name, "after")
            return r

        def wb(group, name, data, *a, **k):
            me._tick("_write_bytes:%s" % name, "before")
            r = orig_wb.__func__(group, name, data, *a, **k)
            me._tick("_write_bytes:%s" % name, "after")
            return r

        class FaultyZip(zipfile.ZipFile):
            def write(self_, filename, arcname=None, *a, **k):
                me._tick("ZipFile.write:%s" % arcname, "before")
                r = zipfile.ZipFile.write(self_, filename, arcname, *a, **k)
                me._tick("ZipFile.write:%s" % arcname, "after")
                return r

        A._serialize_value = sv
        A._write_ndarray = staticmethod(wn)
        A._write_bytes = staticmethod(wb)
        ser.ZipFile = FaultyZip
        try:
            yield self
        finally:
            A._serialize_value = orig_sv
            A._write_ndarray = orig_wn
            A._write_bytes = orig_wb
            ser.ZipFile = orig_zip


# ------------------------------------------------------------------------------------------------
class Scenario:
    """Pre-state template (built once per case) + one faulted save from a fresh copy of it."""

    def __init__(self, ctx, case):
        from quantem.core.io.serialize import load  # noqa: F401

        self.ctx, self.case = ctx, case
        self.x = gg.build(case["root"])
        self.old = gg.build(case["old"])
        self.template = ctx.fresh_dir()
        store = case["store"]
        base = case.get("name", "t")
        self.given = base if (store == "dir" or not case["suffix_given"]) else base + ".zip"
        self.target = base + ".zip" if store == "zip" else base
        tp = os.path.join(self.template, self.target)
        pre = case["pre"]
        self.old_loadable = False
        with contextlib.redirect_stdout(io.StringIO()):
            if pre == "earlier_save":
                self.old.save(tp, mode="w", store=store)
                self.old_loadable = True
            elif pre == "earlier_other_kind":
                # a zip target path that is a directory store / a dir target path that is a zip file
                if store == "zip":
                    os.makedirs(tp)
                    self.old.save(os.path.join(tp, "inner"), mode="w", store="dir")
                else:
                    self.old.save(tp + ".zip", mode="w", store="zip")
                    os.rename(tp + ".zip", tp)
                    self.old_loadable = True
            elif pre == "hardlink_twin":
                # the target is an earlier archive that also has a second name (cp -l snapshot)
                self.old.save(tp, mode="w", store=store)
                os.link(tp, os.path.join(self.template, "snapshot_hardlink.zip"))
                self.old_loadable = True
            elif pre == "symlink_to_file":
                real = os.path.join(self.template, "real_archive.zip")
                self.old.save(real, mode="w", store="zip")
                os.symlink("real_archive.zip", tp)
                self.old_loadable = True
            elif pre == "symlink_to_dir":
                real = os.path.join(self.template, "real_store")
                self.old.save(real, mode="w", store="dir")
                os.symlink("real_store", tp)
                self.old_loadable = True
            elif pre == "unrelated_file":
                with open(tp, "wb") as f:
                    f.write(b"unrelated user data\n" * 3)
            elif pre == "unrelated_dir":
                os.makedirs(os.path.join(tp, "sub"))
                with open(os.path.join(tp, "sub", "keep.txt"), "w") as f:
                    f.write("user data")
            # siblings, including names a sloppy implementation might use or confuse with the target
            confusable = ["sib.txt", "t.tmp", "t.zip.tmp", "t.zip.bak", ".t.zip", "t_old.zip"]
            if base != "t":
                # what a suffix-REPLACING normalisation would hit: run.v2 -> run.zip, scan_0.5mrad -> scan_0.zip, a.b.c -> a.b.zip
                stem = base.rsplit(".", 1)[0]
                confusable += [stem + ".zip", stem, base + ".tmp", base + ".zip.tmp"]
            for name in confusable:
                if name in (self.target, self.given):
                    continue
                with open(os.path.join(self.template, name), "w") as f:
                    f.write("sibling " + name)
            os.makedirs(os.path.join(self.template, "sibdir", "deep"))
            with open(os.path.join(self.template, "sibdir", "deep", "f.bin"), "wb") as f:
                f.write(bytes(range(50)))
            if self.given != self.target and not os.path.lexists(os.path.join(self.template, self.given)):
                # the un-suffixed name is a different path than the real target
                os.makedirs(os.path.join(self.template, self.given))
                self.old.save(os.path.join(self.template, self.given, "store"), mode="w", store="dir")
            elif store == "dir":
                self.old.save(os.path.join(self.template, "t.zip"), mode="w", store="zip")
        self.protected = "protected_earlier.zip" if store == "zip" else "protected_earlier"
        with contextlib.redirect_stdout(io.StringIO()):
            self.old.save(os.path.join(self.template, self.protected), mode="w", store=store)
        self.pre_exists = os.path.lexists(tp)
        self.pre_target_snap = snapshot(self.template)  # whole tree incl. target
        self.pre_other_snap = snapshot(self.template, exclude=self.target)

    def close(self):
        shutil.rmtree(self.template, ignore_errors=True)

    def run(self, k):
        """One save() from a fresh copy of the pre-state with a fault at site k (None = no fault).
        Returns the Faults object (for counting)."""
        from quantem.core.io.serialize import load

        ctx, case = self.ctx, self.case
        kcase = dict(case, k=k)
        work = ctx.tmp()
        shutil.copytree(self.template, work, symlinks=True)
        tmp_before = set(os.listdir(tempfile.gettempdir()))
        try:
            exc_k, when_k = _exc_when(case, k)
            faults = Faults(fail_at=k, when=when_k, exc=exc_k)
            raised = None
            import warnings

            if case.get("refused_before"):
                try:
                    with contextlib.redirect_stdout(io.StringIO()):
                        self.x.save(os.path.join(work, self.protected), mode="w", store=case["store"])
                except FileExistsError:
                    ctx.count("history:refused_write_once_save_before")
                else:
                    raise core.Violation("mode='w' on an existing target (%s) did not raise FileExistsError" % self.protected, kcase)
            with faults.installed(), warnings.catch_warnings():
                warnings.simplefilter("error" if case.get("warn_error") else "ignore")
                try:
                    with contextlib.redirect_stdout(io.StringIO()):
                        self.x.save(os.path.join(work, self.given), mode=case["mode"], store=case["store"], compression_level=case["compression"])
                except BaseException as e:  # noqa: BLE001 - judged below
                    raised = e
            warned = case.get("warn_error") and isinstance(raised, Warning) and faults.raised is None
            if warned:
                ctx.count("save_failed_because_a_warning_was_an_error")
            tp = os.path.join(work, self.target)
            expect_exists_error = case["mode"] == "w" and self.pre_exists
            natural = case["natural"]

            # (iv) write-once on an existing target
            if expect_exists_error:
                if not isinstance(raised, FileExistsError):
                    raise core.Violation("mode='w' on an existing target did not raise FileExistsError (got %r)" % (raised,), kcase)
                d = _snap_diff(self.pre_target_snap, snapshot(work))
                if d:
                    raise core.Violation("mode='w': existing target or neighbours were modified: %s" % d, kcase)
                return faults
            # (iii) nothing but the target may change, success or not
            d = _snap_diff(self.pre_other_snap, snapshot(work, exclude=self.target))
            if d:
                raise core.Violation("save() altered paths other than its target (%s): %s" % (self.target, d), kcase)
            leaked = set(os.listdir(tempfile.gettempdir())) - tmp_before - {os.path.basename(work)}
            leaked = {n for n in leaked if not n.startswith("vq-") and not n.startswith("t0")}
            if leaked:
                raise core.Violation("save() left temporary files behind in %s: %s" % (tempfile.gettempdir(), sorted(leaked)[:3]), kcase)

            failed = faults.raised is not None or natural or bool(warned) or (case.get("warn_error") and raised is not None)
            if faults.raised is not None:
                # (i) the injected exception must propagate (not be swallowed / replaced by success)
                if raised is None:
                    raise core.Violation("an exception injected at site %d (%s) was swallowed: save() returned normally" % (k, faults.sites[k - 1] if k <= len(faults.sites) else "?"), kcase)
            elif raised is not None and not natural and not case.get("warn_error"):
                # save() refused or failed on its own (e.g. mode 'o' on a target that is a symlink to a directory store:
                # shutil.rmtree refuses symlinks).  The statement does not promise that a save succeeds, it says what
                # holds after one that "fails for any reason": a save that refuses its target before writing anything is
                # judged as a failure below ...
                if faults.count > 0:
                    # ... but not after it has started writing: every graph and target here is one that save() is
                    # documented to handle (C01), so this is the generator's precondition failing, and letting it pass
                    # as "a failed save" would make the whole fault enumeration of the case vacuous
                    raise core.Violation(
                        "save() without an injected fault raised %s after %d write operation(s): %s" % (type(raised).__name__, faults.count, str(raised)[:200]), kcase
                    )
                failed = True
                ctx.count("save_refused_up_front:%s:%s/%s/%s" % (type(raised).__name__, case["store"], case["pre"], case["mode"]))
            elif natural and raised is None and not case.get("warn_error"):
                raise core.Violation("saving a graph with an unserialisable leaf did not raise", kcase)

            # (ii) what does the target load to?
            if failed:
                if os.path.lexists(tp):
                    try:
                        with contextlib.redirect_stdout(io.StringIO()):
                            got = load(tp)
                    except Exception:  # noqa: BLE001 - "unreadable" is an allowed outcome
                        got = None
                        ctx.count("after_failure:target_unreadable")
                    if got is not None:
                        dn = gg.diff(self.x, got) if not natural else "graph with unserialisable leaf can never be complete"
                        do = gg.diff(self.old, got) if self.old_loadable else "no earlier object"
                        if dn and do:
                            site = faults.sites[k - 1] if (k and k <= len(faults.sites)) else "natural failure"
                            raise core.Violation(
                                "after save() failed at site %s (%s) the target loads to a PARTIAL object: vs new graph: %s; vs earlier object: %s" % (k, site, dn, do),
                                kcase,
                            )
                        ctx.count("after_failure:loads_complete_" + ("old" if not do else "new"))
                else:
                    ctx.count("after_failure:target_absent")
            else:
                with ctx.sut(kcase, "load after successful save"):
                    with contextlib.redirect_stdout(io.StringIO()):
                        got = load(tp)
                d = gg.diff(self.x, got)
                if d:
                    raise core.Violation("successful save does not load back: %s" % d, kcase)
            return faults
        finally:
            shutil.rmtree(work, ignore_errors=True)


def check(ctx, case):
    sc = Scenario(ctx, case)
    try:
        n_attrs = len(case["root"]["attrs"])
        has_nested = any(v["t"] == "obj" for _n, v in case["root"]["attrs"])
        base_classes = ["store:" + case["store"], "mode:" + case["mode"], "pre:" + case["pre"], "when:" + case["when"], "exc:" + case["exc"]]
        if case["natural"]:
            base_classes.append("natural_unserialisable_leaf")
        if not case["suffix_given"]:
            base_classes.append("zip_path_without_suffix")
        if "k" in case and case["k"] is not None:
            ks = [case["k"]]
            n = None
        else:
            f0 = sc.run(None)
            n = f0.count
            ctx.record(dict(case, k=None), False, base_classes + ["unfaulted"])
            ks = list(range(1, n + 1))
            ctx.count("sites_total", n)
        for k in ks:
            f = sc.run(k)
            nt = bool(n and 1 < k < n and n_attrs >= 3 and has_nested)
            site_kind = f.sites[k - 1].split(":")[0] if k <= len(f.sites) else "beyond"
            exc_k, when_k = _exc_when(case, k)
            ctx.record(dict(case, k=k), nt, base_classes + ["site:" + site_kind, "exc@site:" + exc_k, "when@site:" + when_k])
    finally:
        sc.close()


def search(ctx):
    for stratum in STRATA:
        k = ctx.n(3, 10) if stratum[2] == "o" else ctx.n(2, 4)
        core.run_given(ctx, "faults/%s/%s/%s" % stratum, cases(stratum), lambda c: check(ctx, c), k, shrink=True)
    ctx.extra["exhaustive"] = False
    ctx.extra["fault_sites_enumerated_exhaustively_per_case"] = True

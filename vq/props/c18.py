"""C18 — centre-of-mass origin estimation is exact, path-independent and batch-invariant.

Three case kinds, all judged against the float64 reference in vq/refs/c18_oracle.py:

com    a generated 4-D dataset (+ optional detector mask): CenterOfMassOriginModel.calculate_origin for
       several batch sizes, PtychographyDatasetRaster._set_intensities_com vectorised and looped, all
       == oracle (row first, column second) and == each other; when the patterns are built so that
       their exact centre of mass is a plane / a constant over the scan, the fitted origins of both
       models (through their normal call chain) == that surface.
fit    origins placed exactly on a plane / constant inside the detector: fit_origin_background and
       ptycho_utils.fit_origin return the surface.
shift  integer fitted origins: shift_origin_to((0, 0)) == circular roll of every pattern.

Tolerances (clean-tree errors measured over 1500-5000 random cases, see the meta entry):
  TOL_COM   1e-3 px  float32 weighted means (measured max 2.2e-6; worst-case sequential float32
                     summation bound for 144 pixels and coordinates <= 11 is ~1e-4)
  TOL_FIT32 1e-3 px  float32 PCA plane / mean (measured max 2.1e-5 on the steepest planes)
  TOL_FIT64 1e-6 px  float64 curve_fit / mean (measured max 2.5e-9)
  TOL_ROLL  2e-5 * max|pattern|  grid_sample at integer positions (measured max 1.2e-6, bicubic)
"""

from __future__ import annotations

import numpy as np

from vq import core
from vq.gen import c18_data as gd
from vq.refs import c18_oracle as ref

TOL_COM = 1e-3
TOL_FIT32 = 1e-3
TOL_FIT64 = 1e-6
TOL_ROLL = 2e-5
UNITS = ["A", "A", "A^-1", "A^-1"]
# known-finding key (only consulted when known_findings.json lists it as an open finding): the
# curve_fit based fitter raises RuntimeError (MINPACK info=8) on some origin maps that it fits exactly
KEY_EXACT = "fit-origin-exact-fit-raises"


class _ExactFitRaised(Exception):
    pass


class _fit_sut:
    """ctx.sut, except that while KEY_EXACT is an open known finding its specific RuntimeError is
    counted as excluded (raised to the caller as _ExactFitRaised) instead of being a violation."""

    def __init__(self, ctx, case, what):
        self.ctx, self.case, self.what = ctx, case, what
        self.cm = ctx.sut(case, what)

    def __enter__(self):
        return self.cm.__enter__()

    def __exit__(self, et, ev, tb):
        if (
            et is not None
            and self.ctx.is_open(KEY_EXACT)
            and issubclass(et, RuntimeError)
            and "Optimal parameters not found" in str(ev)
            and "gtol" in str(ev)
        ):
            self.ctx.exclude(KEY_EXACT)
            raise _ExactFitRaised() from ev
        return self.cm.__exit__(et, ev, tb)


def _q():
    import torch
    from quantem.core.datastructures import Dataset4dstem
    from quantem.diffractive_imaging import ptycho_utils
    from quantem.diffractive_imaging.dataset_models import PtychographyDatasetRaster
    from quantem.diffractive_imaging.origin_models import CenterOfMassOriginModel

    return torch, Dataset4dstem, CenterOfMassOriginModel, PtychographyDatasetRaster, ptycho_utils


def _np64(t):
    """torch tensor / ndarray -> float64 ndarray (harness side)."""
    if hasattr(t, "detach"):
        t = t.detach().cpu().numpy()
    return np.asarray(t, dtype=np.float64)


def _judge_pair(case, what, got_r, got_c, exp_r, exp_c, tol):
    """got_(r,c) must equal exp_(r,c) (same shape) within tol; says so when the two are swapped."""
    got_r, got_c = np.asarray(got_r), np.asarray(got_c)
    if got_r.shape != exp_r.shape or got_c.shape != exp_c.shape:
        raise core.Violation("%s: shape %s/%s, expected %s" % (what, got_r.shape, got_c.shape, exp_r.shape), case)
    er = np.abs(got_r - exp_r)
    ec = np.abs(got_c - exp_c)
    err = float(max(np.nanmax(er), np.nanmax(ec))) if np.all(np.isfinite(got_r)) and np.all(np.isfinite(got_c)) else float("inf")
    if not err <= tol:
        hint = ""
        if core.close(got_r, exp_c, atol=tol) and core.close(got_c, exp_r, atol=tol):
            hint = " (row and column components are swapped)"
        k = int(np.argmax(np.nan_to_num(er, nan=np.inf).ravel() + np.nan_to_num(ec, nan=np.inf).ravel()))
        raise core.Violation(
            "%s: max error %.3g px > %.1g%s; at flat index %d got (row %.6g, col %.6g), expected (row %.6g, col %.6g)"
            % (what, err, tol, hint, k, got_r.ravel()[k], got_c.ravel()[k], exp_r.ravel()[k], exp_c.ravel()[k]),
            case,
        )
    return err


# ------------------------------------------------------------------------------------------------
# kind "com"
# ------------------------------------------------------------------------------------------------
def _check_com(ctx, case):
    torch, Dataset4dstem, Origin, Raster, _pu = _q()
    a, b = case["scan"]
    H, W = case["det"]
    n = a * b
    arr = gd.make_patterns(case)
    mask = gd.make_mask(case)
    exp_r, exp_c = ref.com(arr)  # unmasked oracle, (a, b)
    mexp_r, mexp_c = ref.com(arr, mask) if mask is not None else (exp_r, exp_c)
    planar = case["pattern"] == "delta"
    fit = case["fit"]

    batches = [None] + list(case["batches"])
    nondividing = any(bs is not None and 1 < bs < n and n % bs != 0 for bs in batches)
    centre_r, centre_c = (H - 1) / 2.0, (W - 1) / 2.0
    asym = bool(
        max(np.max(np.abs(exp_r - centre_r)), np.max(np.abs(exp_c - centre_c))) > 0.05
        and np.max(np.abs(exp_r - exp_c)) > 0.05
    )
    classes = [
        "kind:com",
        "pattern:" + case["pattern"],
        "dtype:" + case["dtype"],
        "fit:" + fit,
        "mask:" + (case["mask"]["type"] if case["mask"] else "none"),
        "nonsquare" if H != W else "square",
        "batch_nondividing" if nondividing else "batch_dividing_only",
    ]
    ctx.record(case, H != W and asym and nondividing, classes)

    worst = 0.0
    # --- direct-ptychography origin model, every requested batch size ---------------------------
    with ctx.sut(case, "CenterOfMassOriginModel.from_dataset"):
        ds = Dataset4dstem.from_array(arr.copy(), units=list(UNITS))
        om = Origin.from_dataset(ds, device="cpu")
    origin_rc = None
    for bs in batches:
        with ctx.sut(case, "calculate_origin(max_batch_size=%r)" % (bs,)):
            om.calculate_origin(bs)
            meas = om.origin_measured
        m = _np64(meas)
        if m.shape != (n, 2):
            raise core.Violation("calculate_origin(%r): origin_measured has shape %s, expected %s" % (bs, m.shape, (n, 2)), case)
        got_r, got_c = m[:, 0].reshape(a, b), m[:, 1].reshape(a, b)
        worst = max(worst, _judge_pair(case, "calculate_origin(max_batch_size=%r) vs float64 oracle" % (bs,), got_r, got_c, exp_r, exp_c, TOL_COM))
        origin_rc = (got_r, got_c)
    if planar:
        with ctx.sut(case, "fit_origin_background(fit_method=%r) after calculate_origin" % fit):
            om.fit_origin_background(fit_method=fit)
            fitted = om.origin_fitted
        f = _np64(fitted)
        if f.shape != (n, 2):
            raise core.Violation("origin_fitted has shape %s, expected %s" % (f.shape, (n, 2)), case)
        _judge_pair(
            case,
            "origin model: %s fit of origins that lie exactly on a %s" % (fit, fit),
            f[:, 0].reshape(a, b), f[:, 1].reshape(a, b), exp_r, exp_c, TOL_FIT32,
        )  # fmt: skip

    # --- ptychography dataset model, vectorised and looped ---------------------------------------
    with ctx.sut(case, "PtychographyDatasetRaster.from_array"):
        pd = Raster.from_array(arr.copy(), units=list(UNITS), verbose=0)
    paths = {}
    for vec in (True, False):
        name = "vectorised" if vec else "looped"
        try:
            with _fit_sut(ctx, case, "_set_intensities_com(%s, mask=%s, fit=%r)" % (name, "yes" if mask is not None else "no", fit)):
                # a fresh copy per call: the looped path multiplies the mask into its argument in place
                pd._set_intensities_com(
                    pd.intensities_4d.copy(),
                    dp_mask=None if mask is None else mask.copy(),
                    fit_function=fit,
                    vectorized_calculation=vec,
                )
                cm = pd.com_measured
                cf = pd.com_fit
        except _ExactFitRaised:
            return
        cm, cf = _np64(cm), _np64(cf)
        if cm.shape != (2, a, b) or cf.shape != (2, a, b):
            raise core.Violation("%s path: com_measured/com_fit shapes %s/%s, expected %s" % (name, cm.shape, cf.shape, (2, a, b)), case)
        worst = max(worst, _judge_pair(case, "_set_intensities_com %s path vs float64 oracle" % name, cm[0], cm[1], mexp_r, mexp_c, TOL_COM))
        if planar and mask is None:
            _judge_pair(case, "dataset model (%s path): %s fit of origins that lie exactly on a %s" % (name, fit, fit), cf[0], cf[1], exp_r, exp_c, TOL_FIT32)
        paths[name] = cm
    _judge_pair(case, "looped path vs vectorised path", paths["looped"][0], paths["looped"][1], paths["vectorised"][0], paths["vectorised"][1], 2 * TOL_COM)
    if mask is None:
        _judge_pair(case, "dataset model (vectorised) vs origin model", paths["vectorised"][0], paths["vectorised"][1], origin_rc[0], origin_rc[1], 2 * TOL_COM)
    ctx.extra["max_com_err_px"] = max(ctx.extra.get("max_com_err_px", 0.0), worst)


# ------------------------------------------------------------------------------------------------
# kind "fit"
# ------------------------------------------------------------------------------------------------
def _check_fit(ctx, case):
    torch, Dataset4dstem, Origin, _Raster, pu = _q()
    a, b = case["scan"]
    H, W = case["det"]
    n = a * b
    method = case["method"]
    zr = ref.plane((a, b), case["surf_r"])
    zc = ref.plane((a, b), case["surf_c"])
    if zr.min() < -1e-9 or zr.max() > H - 1 + 1e-9 or zc.min() < -1e-9 or zc.max() > W - 1 + 1e-9:
        raise ValueError("surface leaves the detector (generator bug)")
    sr, sc = case["surf_r"], case["surf_c"]
    if method == "plane":
        nontrivial = sr != sc and any(abs(v) > 1e-3 for v in sr[1:] + sc[1:]) and abs(sr[1] - sr[2]) > 1e-3
    else:
        nontrivial = abs(sr[0] - sc[0]) > 1e-3
    ctx.record(
        case,
        bool(nontrivial),
        [
            "kind:fit",
            "method:" + method,
            "fit_origin_data:" + case["data_dtype"],
            "fit_origin_mask:" + case["fo_mask"],
            "surface:" + ("flat" if not any(sr[1:] + sc[1:]) else "tilted"),
        ],
    )

    # --- origin model: measured origins set through the public setter (as force_measured_origin) --
    with ctx.sut(case, "CenterOfMassOriginModel.from_dataset"):
        ds = Dataset4dstem.from_array(np.ones((a, b, H, W), dtype=np.float32), units=list(UNITS))
        om = Origin.from_dataset(ds, device="cpu")
    meas = np.stack([zr.ravel(), zc.ravel()], axis=-1).astype(np.float32)
    with ctx.sut(case, "fit_origin_background(fit_method=%r)" % method):
        om.origin_measured = torch.tensor(meas)
        om.fit_origin_background(fit_method=method)
        fitted = om.origin_fitted
    f = _np64(fitted)
    if f.shape != (n, 2):
        raise core.Violation("origin_fitted has shape %s, expected %s" % (f.shape, (n, 2)), case)
    e32 = _judge_pair(case, "fit_origin_background(%r) of origins exactly on that surface" % method, f[:, 0].reshape(a, b), f[:, 1].reshape(a, b), zr, zc, TOL_FIT32)

    # --- ptycho_utils.fit_origin ------------------------------------------------------------------
    dt = np.dtype(case["data_dtype"])
    kw = {"fit_function": method}
    if case["fo_mask"] == "all_true":
        kw["mask"] = np.ones((a, b), dtype=bool)  # what _set_intensities_com passes (finite mask)
    tol = TOL_FIT64 if dt == np.float64 else TOL_FIT32
    try:
        with _fit_sut(ctx, case, "ptycho_utils.fit_origin(%s, mask=%s)" % (method, case["fo_mask"])):
            out = pu.fit_origin(data=(zr.astype(dt), zc.astype(dt)), **kw)
    except _ExactFitRaised:
        return
    if len(out) != 4:
        raise core.Violation("fit_origin returned %d values, expected 4" % len(out), case)
    fr, fc, rr, rc = (_np64(o) for o in out)
    e64 = _judge_pair(case, "fit_origin(%r) of origins exactly on that surface" % method, fr, fc, zr, zc, tol)
    _judge_pair(case, "fit_origin(%r) residuals of an exact surface" % method, rr, rc, np.zeros((a, b)), np.zeros((a, b)), tol)
    ctx.extra["max_fit32_err_px"] = max(ctx.extra.get("max_fit32_err_px", 0.0), e32)
    if dt == np.float64:
        ctx.extra["max_fit64_err_px"] = max(ctx.extra.get("max_fit64_err_px", 0.0), e64)


# ------------------------------------------------------------------------------------------------
# kind "shift"
# ------------------------------------------------------------------------------------------------
def _check_shift(ctx, case):
    torch, Dataset4dstem, Origin, _Raster, _pu = _q()
    a, b = case["scan"]
    H, W = case["det"]
    n = a * b
    arr = gd.make_patterns(case).astype(np.float32)
    origins = [[int(r), int(c)] for r, c in case["origins"]]
    if len(origins) not in (1, n) or any(not (0 <= r < H and 0 <= c < W) for r, c in origins):
        raise ValueError("bad origins (generator bug)")
    full = origins * n if len(origins) == 1 else origins
    bs = case["batch"]
    nondividing = bs is not None and 1 < bs < n and n % bs != 0
    moved = any(r != c and (r, c) != (0, 0) for r, c in full)
    ctx.record(
        case,
        H != W and moved,
        [
            "kind:shift",
            "mode:" + case["mode"],
            "origins:" + ("single" if len(origins) == 1 else "per_pattern"),
            "batch_nondividing" if nondividing else "batch_dividing_or_default",
            "nonsquare" if H != W else "square",
        ],
    )
    with ctx.sut(case, "CenterOfMassOriginModel.from_dataset"):
        ds = Dataset4dstem.from_array(arr.copy(), units=list(UNITS))
        om = Origin.from_dataset(ds, device="cpu")
    with ctx.sut(case, "shift_origin_to((0, 0), max_batch_size=%r, mode=%r)" % (bs, case["mode"])):
        om.origin_fitted = torch.tensor(np.asarray(origins, dtype=np.float32))
        om.shift_origin_to((0, 0), max_batch_size=bs, mode=case["mode"])
        shifted = om.shifted_tensor
    s = _np64(shifted)
    if s.shape != (a, b, H, W):
        raise core.Violation("shifted_tensor has shape %s, expected %s" % (s.shape, (a, b, H, W)), case)
    exp = ref.roll_to_corner(arr.reshape(n, H, W).astype(np.float64), full).reshape(a, b, H, W)
    scale = float(np.max(np.abs(arr)))
    err = core.maxerr(s, exp) / scale if np.all(np.isfinite(s)) else float("inf")
    if not err <= TOL_ROLL:
        k = int(np.argmax(np.abs(np.nan_to_num(s, nan=np.inf) - exp).reshape(n, -1).max(axis=1)))
        raise core.Violation(
            "shift_origin_to((0,0)) with integer origins is not the circular roll: max error %.3g of max intensity "
            "(tolerance %.0e); worst pattern %d with origin %s" % (err, TOL_ROLL, k, full[k]),
            case,
        )
    ctx.extra["max_roll_err_rel"] = max(ctx.extra.get("max_roll_err_rel", 0.0), err)


def check(ctx, case):
    k = case["kind"]
    if k == "com":
        return _check_com(ctx, case)
    if k == "fit":
        return _check_fit(ctx, case)
    if k == "shift":
        return _check_shift(ctx, case)
    raise ValueError("unknown case kind %r" % k)


def search(ctx):
    core.run_given(ctx, "com", gd.com_cases(), lambda c: check(ctx, c), ctx.n(1500, 15000))
    core.run_given(ctx, "fit", gd.fit_cases(), lambda c: check(ctx, c), ctx.n(1000, 10000))
    core.run_given(ctx, "shift", gd.shift_cases(), lambda c: check(ctx, c), ctx.n(800, 8000))

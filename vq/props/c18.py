"""C18 — centre-of-mass origin estimation is exact, path-independent and batch-invariant.

Three case kinds, all judged against the float64 reference in vq/refs/c18_oracle.py:

com    a generated 4-D dataset (+ optional detector mask): CenterOfMassOriginModel.calculate_origin for
       several batch sizes, PtychographyDatasetRaster._set_intensities_com vectorised and looped, all
       == oracle (row first, column second) and == each other; when the patterns are built so that
       their exact centre of mass is a plane / a constant over the scan, the fitted origins of both
       models (through their normal call chain) == that surface.
fit    origins placed exactly on a plane / constant inside the detector: fit_origin_background and
       ptycho_utils.fit_origin return the surface.
shift  integer fitted origins: shift_origin_to((0, 0)) == circular roll of every pattern.

Tolerances (clean-tree errors measured over 1500-5000 random cases, see the meta entry):
  TOL_COM   1e-3 px  float32 weighted means (measured max 2.2e-6; worst-case sequential float32
                     summation bound for 144 pixels and coordinates <= 11 is ~1e-4)
  TOL_FIT32 1e-3 px  float32 PCA plane / mean (measured max 2.1e-5 on the steepest planes)
  TOL_FIT64 1e-6 px  float64 curve_fit / mean (measured max 2.5e-9)
  TOL_ROLL  (2e-5 + 1e-6 * longest side) * max|pattern|  grid_sample at integer positions: the float32
                     normalised grid is off by ~side * 6e-8 px, which bilinear/bicubic weights pass on
                     (measured max 1.2e-6 for sides <= 12, 5.4e-8 * side for sides up to 600)

Two more kinds run HISTORIES on one instance (results must not depend on what the instance did before):
ohist  one CenterOfMassOriginModel: measure / replace the data through the `tensor` setter / set
       origin_measured, origin_fitted, shifted_tensor, device through their setters / fit / shift in
       drawn orders; every measurement == oracle of the CURRENT data, every fit of exactly planar
       measured origins == that surface, every shift with integer fitted origins == roll of the
       CURRENT data.
       Fitted origins are set per pattern, one for all, or ALL AT THE TARGET corner (identity shift);
       shifts come in series on the same instance; every history ends with a measurement.
bigcom the `com` judgements on LARGE datasets: sizes right below / above 2^20 .. 2^24 values, prime
       number of scan rows (no equal split of the rows is exact), detectors 32..128 px.
dhist  one PtychographyDatasetRaster: _set_intensities_com (explicit argument or the stored
       intensities_4d, either path, drawn masks) and preprocess() called repeatedly while
       intensities_4d / com_measured / com_fit are replaced through their setters.
"""

from __future__ import annotations

import numpy as np
from hypothesis import strategies as st

from vq import core
from vq.gen import c18_data as gd
from vq.refs import c18_oracle as ref

TOL_COM = 1e-3
TOL_FIT32 = 1e-3
TOL_FIT64 = 1e-6
TOL_ROLL = 2e-5  # + TOL_ROLL_PER_PX * longest detector side
TOL_ROLL_PER_PX = 1e-6
UNITS = ["A", "A", "A^-1", "A^-1"]
# known-finding key (only consulted when known_findings.json lists it as an open finding): the
# curve_fit based fitter raises RuntimeError (MINPACK info=8) on some origin maps that it fits exactly
KEY_EXACT = "fit-origin-exact-fit-raises"


class _ExactFitRaised(Exception):
    pass


class _fit_sut:
    """ctx.sut, except that while KEY_EXACT is an open known finding its specific RuntimeError is
    counted as excluded (raised to the caller as _ExactFitRaised) instead of being a violation."""

    def __init__(self, ctx, case, what):
        self.ctx, self.case, self.what = ctx, case, what
        self.cm = ctx.sut(case, what)

    def __enter__(self):
        return self.cm.__enter__()

    def __exit__(self, et, ev, tb):
        if (
            et is not None
            and self.ctx.is_open(KEY_EXACT)
            and issubclass(et, RuntimeError)
            and "Optimal parameters not found" in str(ev)
            and "gtol" in str(ev)
        ):
            self.ctx.exclude(KEY_EXACT)
            raise _ExactFitRaised() from ev
        return self.cm.__exit__(et, ev, tb)


def _q():
    import torch
    from quantem.core.datastructures import Dataset4dstem
    from quantem.diffractive_imaging import ptycho_utils
    from quantem.diffractive_imaging.dataset_models import PtychographyDatasetRaster
    from quantem.diffractive_imaging.origin_models import CenterOfMassOriginModel

    return torch, Dataset4dstem, CenterOfMassOriginModel, PtychographyDatasetRaster, ptycho_utils


def _np64(t):
    """torch tensor / ndarray -> float64 ndarray (harness side)."""
    if hasattr(t, "detach"):
        t = t.detach().cpu().numpy()
    return np.asarray(t, dtype=np.float64)


def _judge_pair(case, what, got_r, got_c, exp_r, exp_c, tol):
    """got_(r,c) must equal exp_(r,c) (same shape) within tol; says so when the two are swapped."""
    got_r, got_c = np.asarray(got_r), np.asarray(got_c)
    if got_r.shape != exp_r.shape or got_c.shape != exp_c.shape:
        raise core.Violation("%s: shape %s/%s, expected %s" % (what, got_r.shape, got_c.shape, exp_r.shape), case)
    er = np.abs(got_r - exp_r)
    ec = np.abs(got_c - exp_c)
    err = float(max(np.nanmax(er), np.nanmax(ec))) if np.all(np.isfinite(got_r)) and np.all(np.isfinite(got_c)) else float("inf")
    if not err <= tol:
        hint = ""
        if core.close(got_r, exp_c, atol=tol) and core.close(got_c, exp_r, atol=tol):
            hint = " (row and column components are swapped)"
        k = int(np.argmax(np.nan_to_num(er, nan=np.inf).ravel() + np.nan_to_num(ec, nan=np.inf).ravel()))
        raise core.Violation(
            "%s: max error %.3g px > %.1g%s; at flat index %d got (row %.6g, col %.6g), expected (row %.6g, col %.6g)"
            % (what, err, tol, hint, k, got_r.ravel()[k], got_c.ravel()[k], exp_r.ravel()[k], exp_c.ravel()[k]),
            case,
        )
    return err


# ------------------------------------------------------------------------------------------------
# kind "com"
# ------------------------------------------------------------------------------------------------
def _check_com(ctx, case):
    torch, Dataset4dstem, Origin, Raster, _pu = _q()
    a, b = case["scan"]
    H, W = case["det"]
    n = a * b
    arr = gd.make_patterns(case)
    mask = gd.make_mask(case)
    exp_r, exp_c = ref.com(arr)  # unmasked oracle, (a, b)
    mexp_r, mexp_c = ref.com(arr, mask) if mask is not None else (exp_r, exp_c)
    planar = case["pattern"] == "delta"
    fit = case["fit"]

    batches = [None] + list(case["batches"])
    nondividing = any(bs is not None and 1 < bs < n and n % bs != 0 for bs in batches)
    centre_r, centre_c = (H - 1) / 2.0, (W - 1) / 2.0
    asym = bool(
        max(np.max(np.abs(exp_r - centre_r)), np.max(np.abs(exp_c - centre_c))) > 0.05
        and np.max(np.abs(exp_r - exp_c)) > 0.05
    )
    classes = [
        "kind:com",
        _scale_class(case),
        "pattern:" + case["pattern"],
        "dtype:" + case["dtype"],
        "fit:" + fit,
        "mask:" + (case["mask"]["type"] if case["mask"] else "none"),
        "nonsquare" if H != W else "square",
        "batch_nondividing" if nondividing else "batch_dividing_only",
    ]
    ctx.record(case, H != W and asym and nondividing, classes)

    worst = 0.0
    # --- direct-ptychography origin model, every requested batch size ---------------------------
    with ctx.sut(case, "CenterOfMassOriginModel.from_dataset"):
        ds = Dataset4dstem.from_array(arr.copy(), units=list(UNITS))
        om = Origin.from_dataset(ds, device="cpu")
    origin_rc = None
    for bs in batches:
        with ctx.sut(case, "calculate_origin(max_batch_size=%r)" % (bs,)):
            om.calculate_origin(bs)
            meas = om.origin_measured
        m = _np64(meas)
        if m.shape != (n, 2):
            raise core.Violation("calculate_origin(%r): origin_measured has shape %s, expected %s" % (bs, m.shape, (n, 2)), case)
        got_r, got_c = m[:, 0].reshape(a, b), m[:, 1].reshape(a, b)
        worst = max(worst, _judge_pair(case, "calculate_origin(max_batch_size=%r) vs float64 oracle" % (bs,), got_r, got_c, exp_r, exp_c, TOL_COM))
        origin_rc = (got_r, got_c)
    if planar:
        with ctx.sut(case, "fit_origin_background(fit_method=%r) after calculate_origin" % fit):
            om.fit_origin_background(fit_method=fit)
            fitted = om.origin_fitted
        f = _np64(fitted)
        if f.shape != (n, 2):
            raise core.Violation("origin_fitted has shape %s, expected %s" % (f.shape, (n, 2)), case)
        _judge_pair(
            case,
            "origin model: %s fit of origins that lie exactly on a %s" % (fit, fit),
            f[:, 0].reshape(a, b), f[:, 1].reshape(a, b), exp_r, exp_c, TOL_FIT32,
        )  # fmt: skip

    # --- ptychography dataset model, vectorised and looped ---------------------------------------
    with ctx.sut(case, "PtychographyDatasetRaster.from_array"):
        pd = Raster.from_array(arr.copy(), units=list(UNITS), verbose=0)
    paths = {}
    for vec in (True, False):
        name = "vectorised" if vec else "looped"
        try:
            with _fit_sut(ctx, case, "_set_intensities_com(%s, mask=%s, fit=%r)" % (name, "yes" if mask is not None else "no", fit)):
                # a fresh copy per call: the looped path multiplies the mask into its argument in place
                pd._set_intensities_com(
                    pd.intensities_4d.copy(),
                    dp_mask=None if mask is None else mask.copy(),
                    fit_function=fit,
                    vectorized_calculation=vec,
                )
                cm = pd.com_measured
                cf = pd.com_fit
        except _ExactFitRaised:
            return
        cm, cf = _np64(cm), _np64(cf)
        if cm.shape != (2, a, b) or cf.shape != (2, a, b):
            raise core.Violation("%s path: com_measured/com_fit shapes %s/%s, expected %s" % (name, cm.shape, cf.shape, (2, a, b)), case)
        worst = max(worst, _judge_pair(case, "_set_intensities_com %s path vs float64 oracle" % name, cm[0], cm[1], mexp_r, mexp_c, TOL_COM))
        if planar and mask is None:
            _judge_pair(case, "dataset model (%s path): %s fit of origins that lie exactly on a %s" % (name, fit, fit), cf[0], cf[1], exp_r, exp_c, TOL_FIT32)
        paths[name] = cm
    _judge_pair(case, "looped path vs vectorised path", paths["looped"][0], paths["looped"][1], paths["vectorised"][0], paths["vectorised"][1], 2 * TOL_COM)
    if mask is None:
        _judge_pair(case, "dataset model (vectorised) vs origin model", paths["vectorised"][0], paths["vectorised"][1], origin_rc[0], origin_rc[1], 2 * TOL_COM)
    ctx.extra["max_com_err_px"] = max(ctx.extra.get("max_com_err_px", 0.0), worst)


# ------------------------------------------------------------------------------------------------
# kind "bigcom": the same judgements as "com" on a dataset of 10^6 .. 2*10^7 values
# ------------------------------------------------------------------------------------------------
def _check_bigcom(ctx, case):
    torch, Dataset4dstem, Origin, Raster, _pu = _q()
    a, b = case["scan"]
    H, W = case["det"]
    n = a * b
    arr = gd.make_patterns(case)
    mask = gd.make_mask(case)
    exp_r, exp_c = ref.com(arr)
    mexp_r, mexp_c = ref.com(arr, mask) if mask is not None else (exp_r, exp_c)
    # float32 results: half an ulp of a coordinate up to max(H, W) is 6e-8 * side (measured 1.5e-7 *
    # side over detectors up to 256 px)
    tol = TOL_COM + 2e-6 * max(H, W)
    ctx.record(
        case,
        H != W and arr.size >= 2**19,
        [
            "kind:bigcom",
            _scale_class(case),
            "bigcom_size:" + case["near"],
            "bigcom_values>=2^%d" % int(np.floor(np.log2(arr.size))),
            "mask:" + (case["mask"]["type"] if case["mask"] else "none"),
        ],
    )
    with ctx.sut(case, "CenterOfMassOriginModel.from_dataset"):
        om = Origin.from_dataset(Dataset4dstem.from_array(arr.copy(), units=list(UNITS)), device="cpu")
    got = None
    for bs in list(case["batches"]):
        with ctx.sut(case, "calculate_origin(max_batch_size=%r)" % (bs,)):
            om.calculate_origin(bs)
            m = _np64(om.origin_measured)
        if m.shape != (n, 2):
            raise core.Violation("calculate_origin(%r): origin_measured has shape %s" % (bs, m.shape), case)
        got = (m[:, 0].reshape(a, b), m[:, 1].reshape(a, b))
        _judge_pair(case, "calculate_origin(max_batch_size=%r) vs float64 oracle (%d values)" % (bs, arr.size), got[0], got[1], exp_r, exp_c, tol)
    del om
    with ctx.sut(case, "PtychographyDatasetRaster.from_array"):
        pd = Raster.from_array(arr.copy(), units=list(UNITS), verbose=0)
    paths = {}
    for vec in (True, False):
        name = "vectorised" if vec else "looped"
        try:
            with _fit_sut(ctx, case, "_set_intensities_com(%s, mask=%s, fit=%r)" % (name, "yes" if mask is not None else "no", case["fit"])):
                pd._set_intensities_com(
                    pd.intensities_4d.copy(),
                    dp_mask=None if mask is None else mask.copy(),
                    fit_function=case["fit"],
                    vectorized_calculation=vec,
                )
                cm = _np64(pd.com_measured)
        except _ExactFitRaised:
            return
        if cm.shape != (2, a, b):
            raise core.Violation("%s path: com_measured has shape %s" % (name, cm.shape), case)
        _judge_pair(case, "_set_intensities_com %s path vs float64 oracle (%d values, scan %dx%d)" % (name, arr.size, a, b), cm[0], cm[1], mexp_r, mexp_c, tol)
        paths[name] = cm
    _judge_pair(case, "looped path vs vectorised path", paths["looped"][0], paths["looped"][1], paths["vectorised"][0], paths["vectorised"][1], 2 * tol)
    if mask is None:
        _judge_pair(case, "dataset model (vectorised) vs origin model", paths["vectorised"][0], paths["vectorised"][1], got[0], got[1], 2 * tol)


# ------------------------------------------------------------------------------------------------
# kind "fit"
# ------------------------------------------------------------------------------------------------
def _is_index_grid(d):
    return list(d["scale"]) == [1.0, 1.0] and float(d["angle"]) == 0.0 and list(d["offset"]) == [0.0, 0.0]


def _positions_class(d):
    if d is None:
        return "none"
    return "%s/%s/%s" % ("index_grid" if _is_index_grid(d) else "affine", d["form"], d["layout"])


def _check_fit(ctx, case):
    torch, Dataset4dstem, Origin, _Raster, pu = _q()
    a, b = case["scan"]
    H, W = case["det"]
    n = a * b
    method = case["method"]
    zr = ref.plane((a, b), case["surf_r"])
    zc = ref.plane((a, b), case["surf_c"])
    if zr.min() < -1e-9 or zr.max() > H - 1 + 1e-9 or zc.min() < -1e-9 or zc.max() > W - 1 + 1e-9:
        raise ValueError("surface leaves the detector (generator bug)")
    sr, sc = case["surf_r"], case["surf_c"]
    if method == "plane":
        nontrivial = sr != sc and any(abs(v) > 1e-3 for v in sr[1:] + sc[1:]) and abs(sr[1] - sr[2]) > 1e-3
    else:
        nontrivial = abs(sr[0] - sc[0]) > 1e-3
    ctx.record(
        case,
        bool(nontrivial),
        [
            "kind:fit",
            "method:" + method,
            "fit_origin_data:" + case["data_dtype"],
            "fit_origin_mask:" + case["fo_mask"],
            "surface:" + ("flat" if not any(sr[1:] + sc[1:]) else "tilted"),
            "probe_positions:" + _positions_class(case.get("positions")),
        ],
    )

    # --- origin model: measured origins set through the public setter (as force_measured_origin) --
    with ctx.sut(case, "CenterOfMassOriginModel.from_dataset"):
        ds = Dataset4dstem.from_array(np.ones((a, b, H, W), dtype=np.float32), units=list(UNITS))
        om = Origin.from_dataset(ds, device="cpu")
    meas = np.stack([zr.ravel(), zc.ravel()], axis=-1).astype(np.float32)
    pdesc = case.get("positions")
    if pdesc is None:
        pos, pwhat = None, "None"
    else:
        P = gd.make_positions((a, b), pdesc)
        form = pdesc["form"]
        pos = torch.tensor(P, dtype=torch.float32) if form == "tensor32" else torch.tensor(P) if form == "tensor64" else P.tolist() if form == "list" else P
        pwhat = "%s %s%s" % (pdesc["layout"], form, "" if _is_index_grid(pdesc) else " (affine image of the index grid)")
    with ctx.sut(case, "fit_origin_background(probe_positions=%s, fit_method=%r)" % (pwhat, method)):
        om.origin_measured = torch.tensor(meas)
        om.fit_origin_background(probe_positions=pos, fit_method=method)
        fitted = om.origin_fitted
    f = _np64(fitted)
    if f.shape != (n, 2):
        raise core.Violation("origin_fitted has shape %s, expected %s" % (f.shape, (n, 2)), case)
    e32 = _judge_pair(case, "fit_origin_background(%r, probe_positions=%s) of origins exactly on that surface" % (method, pwhat), f[:, 0].reshape(a, b), f[:, 1].reshape(a, b), zr, zc, TOL_FIT32)

    # --- ptycho_utils.fit_origin ------------------------------------------------------------------
    dt = np.dtype(case["data_dtype"])
    kw = {"fit_function": method}
    if case["fo_mask"] == "all_true":
        kw["mask"] = np.ones((a, b), dtype=bool)  # what _set_intensities_com passes (finite mask)
    tol = TOL_FIT64 if dt == np.float64 else TOL_FIT32
    try:
        with _fit_sut(ctx, case, "ptycho_utils.fit_origin(%s, mask=%s)" % (method, case["fo_mask"])):
            out = pu.fit_origin(data=(zr.astype(dt), zc.astype(dt)), **kw)
    except _ExactFitRaised:
        return
    if len(out) != 4:
        raise core.Violation("fit_origin returned %d values, expected 4" % len(out), case)
    fr, fc, rr, rc = (_np64(o) for o in out)
    e64 = _judge_pair(case, "fit_origin(%r) of origins exactly on that surface" % method, fr, fc, zr, zc, tol)
    _judge_pair(case, "fit_origin(%r) residuals of an exact surface" % method, rr, rc, np.zeros((a, b)), np.zeros((a, b)), tol)
    ctx.extra["max_fit32_err_px"] = max(ctx.extra.get("max_fit32_err_px", 0.0), e32)
    if pdesc is not None and not _is_index_grid(pdesc):
        ctx.extra["max_fit32_err_px_affine_positions"] = max(ctx.extra.get("max_fit32_err_px_affine_positions", 0.0), e32)
    if dt == np.float64:
        ctx.extra["max_fit64_err_px"] = max(ctx.extra.get("max_fit64_err_px", 0.0), e64)


# ------------------------------------------------------------------------------------------------
# kind "shift"
# ------------------------------------------------------------------------------------------------
def _check_shift(ctx, case):
    torch, Dataset4dstem, Origin, _Raster, _pu = _q()
    a, b = case["scan"]
    H, W = case["det"]
    n = a * b
    arr = gd.make_patterns(case).astype(np.float32)
    origins = [[int(r), int(c)] for r, c in case["origins"]]
    if len(origins) not in (1, n) or any(not (0 <= r < H and 0 <= c < W) for r, c in origins):
        raise ValueError("bad origins (generator bug)")
    full = origins * n if len(origins) == 1 else origins
    bs = case["batch"]
    nondividing = bs is not None and 1 < bs < n and n % bs != 0
    moved = any(r != c and (r, c) != (0, 0) for r, c in full)
    enumerated = case.get("enumerated_side") is not None
    ctx.record(
        case,
        (H != W and moved) or (enumerated and any((r, c) != (0, 0) for r, c in full)),
        [
            "kind:shift",
            "side:enumerated" if enumerated else "side:drawn",
            "mode:" + case["mode"],
            "origins:" + ("single" if len(origins) == 1 else "per_pattern"),
            "batch_nondividing" if nondividing else "batch_dividing_or_default",
            "nonsquare" if H != W else "square",
            "target:" + ("corner" if not any(case.get("coordinate", [0, 0])) else "other_pixel"),
            _scale_class(case),
        ],
    )
    with ctx.sut(case, "CenterOfMassOriginModel.from_dataset"):
        ds = Dataset4dstem.from_array(arr.copy(), units=list(UNITS))
        om = Origin.from_dataset(ds, device="cpu")
    coord = tuple(int(v) for v in case.get("coordinate", [0, 0]))
    with ctx.sut(case, "shift_origin_to(%r, max_batch_size=%r, mode=%r)" % (coord, bs, case["mode"])):
        om.origin_fitted = torch.tensor(np.asarray(origins, dtype=np.float32))
        om.shift_origin_to(coord, max_batch_size=bs, mode=case["mode"])
        shifted = om.shifted_tensor
    err = _judge_roll(case, "shift_origin_to(%r)" % (coord,), shifted, arr, full, coord)
    ctx.extra["max_roll_err_rel"] = max(ctx.extra.get("max_roll_err_rel", 0.0), err)
    ctx.extra["max_roll_err_rel_per_px"] = max(ctx.extra.get("max_roll_err_rel_per_px", 0.0), err / max(H, W))


def _scale_class(case):
    if "scale_pow2" in case:
        sc = 2.0 ** int(case["scale_pow2"])
    else:
        sc = float(case.get("scale", 1.0))
    return "intensity_scale:" + ("<=1e-6" if sc <= 1.0001e-6 else ">=1e6" if sc >= 0.9999e6 else "1e-5..1e5")


def _judge_roll(case, what, shifted, arr, full, coord=(0, 0)):
    """shifted (a,b,H,W) must be every pattern of arr circularly rolled so that its integer origin
    lands on the integer target pixel `coord` (the detector corner by default)."""
    a, b, H, W = arr.shape
    n = a * b
    full = [[int(r) - int(coord[0]), int(c) - int(coord[1])] for r, c in full]  # net displacement
    s = _np64(shifted)
    if s.shape != (a, b, H, W):
        raise core.Violation("%s: shifted_tensor has shape %s, expected %s" % (what, s.shape, (a, b, H, W)), case)
    exp = ref.roll_to_corner(arr.reshape(n, H, W).astype(np.float64), full).reshape(a, b, H, W)
    scale = float(np.max(np.abs(arr)))
    err = core.maxerr(s, exp) / scale if np.all(np.isfinite(s)) else float("inf")
    tol_roll = TOL_ROLL + TOL_ROLL_PER_PX * max(H, W)
    if not err <= tol_roll:
        k = int(np.argmax(np.abs(np.nan_to_num(s, nan=np.inf) - exp).reshape(n, -1).max(axis=1)))
        raise core.Violation(
            "%s with integer origins is not the circular roll: max error %.3g of max intensity "
            "(tolerance %.1e); detector %dx%d, worst pattern %d with origin minus target = %s" % (what, err, tol_roll, H, W, k, full[k]),
            case,
        )
    return err


# ------------------------------------------------------------------------------------------------
# kind "ohist": a history on one CenterOfMassOriginModel
# ------------------------------------------------------------------------------------------------
def _surface_kind(coef_r, coef_c):
    """'constant' (both fits must return it) or 'plane' (only the plane fit must)."""
    return "constant" if not any(coef_r[1:]) and not any(coef_c[1:]) else "plane"


def _check_ohist(ctx, case):
    torch, Dataset4dstem, Origin, _Raster, _pu = _q()
    a, b = case["scan"]
    H, W = case["det"]
    n = a * b
    versions = [gd.version_array(case, k) for k in range(len(case["data"]))]
    oracles = [ref.com(v) for v in versions]

    def planar_kind(k):
        d = case["data"][k]
        return _surface_kind(d["plane_r"], d["plane_c"]) if d["pattern"] == "delta" else None

    steps = case["steps"]
    # non-trivial: some measurement follows a replacement of the data by a different version that
    # itself follows a measurement (the sequence a per-instance cache would get wrong)
    cur, seen_measure, replaced_after_measure, remeasured = case["initial"], False, False, False
    for st_ in steps:
        if st_["op"] == "measure":
            remeasured = remeasured or replaced_after_measure
            seen_measure = True
        elif st_["op"] == "set_tensor":
            if seen_measure and st_["version"] != cur:
                replaced_after_measure = True
            cur = st_["version"]
    ctx.record(
        case,
        bool(remeasured and H != W),
        ["kind:ohist", "steps:%d" % len(steps)] + sorted({"ohist_op:" + st_["op"] for st_ in steps}),
    )

    cur = case["initial"]
    with ctx.sut(case, "CenterOfMassOriginModel.from_dataset"):
        om = Origin.from_dataset(Dataset4dstem.from_array(versions[cur].copy(), units=list(UNITS)), device="cpu")
    measured = None  # None | ("surface", zr, zc, kind) | ("other",)
    fitted_int = None  # integer origins currently stored in origin_fitted, else None
    had_identity_shift = False
    used_other_target = False  # some earlier shift / forward used a target other than the corner
    for i, st_ in enumerate(steps):
        op = st_["op"]
        tag = "step %d/%d %s" % (i + 1, len(steps), op)
        if op == "set_tensor":
            cur = st_["version"]
            new = versions[cur].astype(np.float32)
            with ctx.sut(case, tag):
                om.tensor = torch.tensor(new) if st_["as"] == "torch" else versions[cur].copy()
        elif op == "set_device":
            with ctx.sut(case, tag):
                om.device = "cpu"
        elif op == "set_shifted":
            with ctx.sut(case, tag):
                om.shifted_tensor = torch.zeros((a, b, H, W))
        elif op == "measure":
            with ctx.sut(case, tag + "(max_batch_size=%r)" % (st_["batch"],)):
                om.calculate_origin(st_["batch"])
                m = _np64(om.origin_measured)
            if m.shape != (n, 2):
                raise core.Violation("%s: origin_measured has shape %s" % (tag, m.shape), case)
            exp_r, exp_c = oracles[cur]
            _judge_pair(
                case,
                "%s: calculate_origin(%r) vs float64 oracle of the data the model currently holds (version %d)" % (tag, st_["batch"], cur),
                m[:, 0].reshape(a, b), m[:, 1].reshape(a, b), exp_r, exp_c, TOL_COM,
            )  # fmt: skip
            pk = planar_kind(cur)
            measured = ("surface", exp_r, exp_c, pk) if pk else ("other",)
            ctx.count("ohist_judged:measure")
        elif op == "set_measured":
            zr, zc = ref.plane((a, b), st_["surf_r"]), ref.plane((a, b), st_["surf_c"])
            with ctx.sut(case, tag):
                om.origin_measured = torch.tensor(np.stack([zr.ravel(), zc.ravel()], axis=-1).astype(np.float32))
            measured = ("surface", zr, zc, _surface_kind(st_["surf_r"], st_["surf_c"]))
        elif op == "fit":
            if measured is None:
                ctx.count("ohist_skipped:fit_before_measure")
                continue
            with ctx.sut(case, tag + "(%r)" % st_["method"]):
                om.fit_origin_background(fit_method=st_["method"])
                f = _np64(om.origin_fitted)
            fitted_int = None
            if f.shape != (n, 2):
                raise core.Violation("%s: origin_fitted has shape %s" % (tag, f.shape), case)
            if measured[0] == "surface" and (measured[3] == "constant" or st_["method"] == "plane"):
                _judge_pair(
                    case,
                    "%s: %s fit of measured origins that lie exactly on a %s" % (tag, st_["method"], measured[3]),
                    f[:, 0].reshape(a, b), f[:, 1].reshape(a, b), measured[1], measured[2], TOL_FIT32,
                )  # fmt: skip
                ctx.count("ohist_judged:fit")
        elif op == "set_fitted":
            origins = [[int(r), int(c)] for r, c in st_["origins"]]
            with ctx.sut(case, tag):
                om.origin_fitted = torch.tensor(np.asarray(origins, dtype=np.float32))
            fitted_int = origins * n if len(origins) == 1 else origins
            if not any(r or c for r, c in fitted_int):
                ctx.count("ohist_origins:all_at_target")
        elif op == "shift":
            if fitted_int is None:
                ctx.count("ohist_skipped:shift_without_integer_origin")
                continue
            coord = tuple(int(v) for v in st_.get("coordinate", [0, 0]))
            with ctx.sut(case, tag + "(%r, max_batch_size=%r, mode=%r)" % (coord, st_["batch"], st_["mode"])):
                om.shift_origin_to(coord, max_batch_size=st_["batch"], mode=st_["mode"])
                sh = om.shifted_tensor
            _judge_roll(case, "%s: shift_origin_to(%r) of the data the model currently holds (version %d)" % (tag, coord, cur), sh, versions[cur].astype(np.float32), fitted_int, coord)
            ctx.count("ohist_judged:shift")
            if any(coord):
                ctx.count("ohist_judged:shift_to_other_pixel")
                used_other_target = True
            elif used_other_target:
                ctx.count("ohist_judged:corner_shift_after_other_target")
            identity = not any((r - coord[0]) or (c - coord[1]) for r, c in fitted_int)
            if identity:
                ctx.count("ohist_judged:identity_shift")
            elif had_identity_shift:
                ctx.count("ohist_judged:shift_after_identity_shift")
            had_identity_shift = had_identity_shift or identity
        elif op == "forward":
            coord = tuple(int(v) for v in st_["coordinate"])
            with ctx.sut(case, tag + "(max_batch_size=%r, fit_method=%r, shift_to_origin=%r, origin_coordinate=%r)" % (st_["batch"], st_["method"], st_["shift"], coord)):
                # the orientation estimate is not this property (and needs >= 3x3 scans)
                om.forward(
                    max_batch_size=st_["batch"], fit_method=st_["method"], estimate_detector_orientation=False,
                    shift_to_origin=st_["shift"], origin_coordinate=coord, mode=st_["mode"],
                )  # fmt: skip
                m = _np64(om.origin_measured)
                f = _np64(om.origin_fitted)
            if m.shape != (n, 2) or f.shape != (n, 2):
                raise core.Violation("%s: origin_measured/origin_fitted shapes %s/%s" % (tag, m.shape, f.shape), case)
            exp_r, exp_c = oracles[cur]
            _judge_pair(
                case,
                "%s: origin_measured vs float64 oracle of the data the model currently holds (version %d)" % (tag, cur),
                m[:, 0].reshape(a, b), m[:, 1].reshape(a, b), exp_r, exp_c, TOL_COM,
            )  # fmt: skip
            ctx.count("ohist_judged:measure")
            pk = planar_kind(cur)
            measured = ("surface", exp_r, exp_c, pk) if pk else ("other",)
            fitted_int = None
            if pk and (pk == "constant" or st_["method"] == "plane"):
                _judge_pair(case, "%s: %s fit of measured origins that lie exactly on a %s" % (tag, st_["method"], pk), f[:, 0].reshape(a, b), f[:, 1].reshape(a, b), exp_r, exp_c, TOL_FIT32)
                ctx.count("ohist_judged:fit")
            if st_["shift"] and any(coord):
                used_other_target = True
                ctx.count("ohist_forward_to_other_pixel")
        else:
            raise ValueError("unknown op %r" % op)
        if used_other_target and op == "measure":
            ctx.count("ohist_judged:measure_after_other_target")


# ------------------------------------------------------------------------------------------------
# kind "dhist": a history on one PtychographyDatasetRaster
# ------------------------------------------------------------------------------------------------
_COM_FRAMES = ("_set_intensities_com", "fit_origin", "perform_robust_fitting")


def _check_dhist(ctx, case):
    _torch, _D4, _Origin, Raster, _pu = _q()
    a, b = case["scan"]
    H, W = case["det"]
    versions = [gd.version_array(case, k) for k in range(len(case["data"]))]
    steps = case["steps"]
    ncom = sum(st_["op"] in ("com", "preprocess") for st_ in steps)
    changes = any(st_["op"] == "set_intensities" for st_ in steps[:-1])
    ctx.record(
        case,
        bool(ncom >= 2 and changes and H != W),
        ["kind:dhist", "steps:%d" % len(steps)] + sorted({"dhist_op:" + st_["op"] for st_ in steps}),
    )
    with ctx.sut(case, "PtychographyDatasetRaster.from_array"):
        pd = Raster.from_array(versions[case["initial"]].copy(), units=list(UNITS), verbose=0)
    stored = case["initial"]  # version held by pd.intensities_4d

    def planar_ok(k, fit):
        d = case["data"][k]
        return d["pattern"] == "delta" and (_surface_kind(d["plane_r"], d["plane_c"]) == "constant" or fit == "plane")

    for i, st_ in enumerate(steps):
        op = st_["op"]
        tag = "step %d/%d %s" % (i + 1, len(steps), op)
        if op == "set_intensities":
            stored = st_["version"]
            with ctx.sut(case, tag):
                pd.intensities_4d = versions[stored].copy()
        elif op == "set_com":
            with ctx.sut(case, tag):
                pd.com_measured = np.zeros((2, a, b))
                pd.com_fit = np.zeros((2, a, b))
        elif op in ("com", "preprocess"):
            fit, vec = st_["fit"], st_["vectorized"]
            name = "vectorised" if vec else "looped"
            if op == "com":
                src = stored if st_["src"] == "attr" else st_["src"]
                mask = gd.make_mask({"det": case["det"], "mask": st_["mask"]})
                with ctx.sut(case, tag + " (read intensities)"):
                    x = pd.intensities_4d.copy() if st_["src"] == "attr" else versions[src].astype(np.float32)
                exp_r, exp_c = ref.com(x, mask)
                try:
                    with _fit_sut(ctx, case, "%s: _set_intensities_com(%s, mask=%s, fit=%r)" % (tag, name, "yes" if mask is not None else "no", fit)):
                        pd._set_intensities_com(
                            x.copy(), dp_mask=None if mask is None else mask.copy(), fit_function=fit, vectorized_calculation=vec
                        )
                        cm, cf = _np64(pd.com_measured), _np64(pd.com_fit)
                except _ExactFitRaised:
                    return
            else:
                src, mask = stored, None
                with ctx.sut(case, tag + " (read intensities)"):
                    x = pd.intensities_4d.copy()
                exp_r, exp_c = ref.com(x)
                try:
                    kw = {"force_com_rotation": 0.0, "force_com_transpose": False} if st_.get("force_orientation") else {}
                    pd.preprocess(com_fit_function=fit, plot_rotation=False, plot_com=False, vectorized=vec, **kw)
                    cm, cf = _np64(pd.com_measured), _np64(pd.com_fit)
                except Exception as e:  # noqa: BLE001
                    import traceback

                    frames = [fr.name for fr in traceback.extract_tb(e.__traceback__)]
                    msg = str(e)
                    if ctx.is_open(KEY_EXACT) and isinstance(e, RuntimeError) and "Optimal parameters not found" in msg and "gtol" in msg:
                        ctx.exclude(KEY_EXACT)
                        return
                    if any(fn in _COM_FRAMES for fn in frames):
                        raise core.Violation("%s: preprocess raised %s in the centre-of-mass step: %s" % (tag, type(e).__name__, msg[:300]), case)
                    # the rest of preprocess (rotation estimate, resampling, patches) is not this property
                    ctx.count("dhist_preprocess_failed_outside_com:" + type(e).__name__)
                    return
            if cm.shape != (2, a, b) or cf.shape != (2, a, b):
                raise core.Violation("%s: com_measured/com_fit shapes %s/%s" % (tag, cm.shape, cf.shape), case)
            is_version = np.array_equal(x, versions[src].astype(np.float32))  # preprocess must not have altered the store
            _judge_pair(case, "%s: %s path vs float64 oracle of the current intensities (version %d)" % (tag, name, src), cm[0], cm[1], exp_r, exp_c, TOL_COM)
            if mask is None and is_version and planar_ok(src, fit):
                _judge_pair(case, "%s: %s fit of origins that lie exactly on such a surface" % (tag, fit), cf[0], cf[1], exp_r, exp_c, TOL_FIT32)
                ctx.count("dhist_judged:fit")
        else:
            raise ValueError("unknown op %r" % op)


def check(ctx, case):
    k = case["kind"]
    if k == "com":
        return _check_com(ctx, case)
    if k == "fit":
        return _check_fit(ctx, case)
    if k == "shift":
        return _check_shift(ctx, case)
    if k == "bigcom":
        return _check_bigcom(ctx, case)
    if k == "ohist":
        return _check_ohist(ctx, case)
    if k == "dhist":
        return _check_dhist(ctx, case)
    raise ValueError("unknown case kind %r" % k)


SIDES_QUICK = 128
SIDES_THOROUGH = 600
MODES = ["bilinear", "nearest", "bicubic"]
BIG_EXPS = [20, 21, 22, 23, 24]


def search(ctx):
    core.run_given(ctx, "com", gd.com_cases(), lambda c: check(ctx, c), ctx.n(1100, 15000))
    core.run_given(ctx, "fit", gd.fit_cases(), lambda c: check(ctx, c), ctx.n(800, 10000))
    core.run_given(ctx, "shift", gd.shift_cases(), lambda c: check(ctx, c), ctx.n(500, 8000))
    core.run_given(ctx, "ohist", gd.origin_history_cases(), lambda c: check(ctx, c), ctx.n(500, 6000))
    core.run_given(ctx, "dhist", gd.dataset_history_cases(), lambda c: check(ctx, c), ctx.n(300, 3000))
    # every detector side length, every interpolation mode: enumerated, not sampled (a wrap-around that
    # fails only for particular sizes cannot hide behind the sampling of sizes)
    top = SIDES_THOROUGH if ctx.thorough else SIDES_QUICK
    per = 2 if not ctx.thorough else 3
    for side in range(2, top + 1):
        for mode in MODES:
            core.run_given(ctx, "side-%d-%s" % (side, mode), gd.side_shift_cases(side, mode), lambda c: check(ctx, c), per)
    # dataset sizes right below / above every power of two from 2^20 to 2^24 values (enumerated): the
    # range where implementations start to work in blocks
    # Hypothesis' first example is always the all-minimal one (the same dataset in every run), and a
    # case costs up to 2 s: the descriptions are drawn by Hypothesis (first example dropped), then judged
    # one by one (no shrinking for these)
    combos = [(e, sd) for e in BIG_EXPS for sd in ("below", "above")]
    drawn = []
    core.run_given(ctx, "big", st.tuples(*[gd.big_com_cases(e, sd) for e, sd in combos]), drawn.append, 2 if not ctx.thorough else 3, shrink=False)
    for group in drawn[1:] or drawn:
        for c in group:
            check(ctx, c)
    ctx.extra["enumerated_sizes"] = "2^%d..2^%d values, below/above" % (BIG_EXPS[0], BIG_EXPS[-1])
    ctx.extra["enumerated_sides"] = "2..%d x %s" % (top, "/".join(MODES))

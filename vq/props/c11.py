"""C11 — ragged Vector keeps its structural invariants under any operation history.

Model-based: a generated history (creation from shape / data, cell / slice / fancy assignment and
retrieval through __setitem__/__getitem__ and set_data/get_data, slicing to new Vectors, slice / fancy
assignment of Vector values (fresh, sliced now, or held from earlier and possibly stale), from_data / .data
from a list object the harness keeps, mutates and reuses, cells of mixed dtypes (read side by value), field
arithmetic, flatten / set_flattened, add_fields / remove_fields, copy, metadata writes, a second and
third independently created Vector) is applied to real `Vector` objects and to the pure-Python
reference model in vq/refs/c11_vector_model.py.  After EVERY step every live Vector is read back
through its public API and compared with its model (cells, fields, units, per-field flatten, whole
flatten, metadata) and no two live Vectors may share a cell array or a metadata dict.

Steps are ABSTRACT: indices, field numbers and slots are small integers interpreted modulo the
current shape / field count / number of live vectors, so every generated list of steps is executable
and a case is a self-contained replay file.  One executor (`History.apply`) serves both the
Hypothesis search and `--replay`.

Values: cell entries are half-integers in [-4, 4] computed from (seed, row, column); scalars for
field arithmetic come from a fixed list.  The model performs the same single IEEE-754 double
operations with Python floats, so all comparisons are EXACT (measured clean-tree error: 0)."""

from __future__ import annotations

import contextlib
import copy
import io
import itertools

import numpy as np
from hypothesis import strategies as st

from vq import core
from vq.refs.c11_vector_model import VectorModel, index_set

NAME_POOL = ["a", "b", "c", "x", "y", "kx", "ky", "intensity", "field_0", "field_1", "field_2"]
UNIT_POOL = ["A", "nm", "mrad", "none", "1/A", "e"]
SCALARS = [2.0, -1.0, 0.5, 1.5, 3.0, -2.0, 0.1, 0.0]
FUNCS = {
    "double": (lambda x: x * 2, lambda x: x * 2),
    "neg_plus1": (lambda x: -x + 1, lambda x: -x + 1),
    "damp": (lambda x: x * 0.5 - 1, lambda x: x * 0.5 - 1),  # (no squaring: values must stay finite)
}
META_KEYS = ["k0", "k1", "k2"]
MAX_FIELDS = 7
MAX_SLOTS = 3
BAD_KINDS = ["cols+1", "cols-1", "ndim1", "ndim3"]
KEY_CALLABLE = "C11-callable-field-assignment"


def _V():
    from quantem.core.datastructures.vector import Vector

    return Vector


def val(seed, r, c):
    return ((seed * 7 + r * 3 + c * 5) % 17 - 8) / 2.0


def rows_for(seed, nrows, k):
    return [[val(seed, r, c) for c in range(k)] for r in range(nrows)]


def as_array(rows, k, dt="float64"):
    """fresh (nrows, k) array of dtype dt (zero rows keep their k columns)"""
    return np.array(rows, dtype=np.dtype(dt)).reshape(len(rows), k)


DTS = ["int64", "float64", "int32", "float32"]
NPI = [None, "int64", "int32", "intp", "uint8"]  # spelling of an integer position: Python int or a NumPy integer scalar


def np_int(i, code):
    name = NPI[code % len(NPI)]
    return i if name is None else getattr(np, name)(i)


def dtype_for(code, t, enabled):
    """dtype of the t-th array of a step: codes 0..3 (and every code when the history does not use mixed
    dtypes) mean float64 throughout, codes 4..7 cycle through DTS starting at DTS[code % 4]"""
    if not enabled or code < 4:
        return "float64"
    return DTS[(code + t) % 4]


def rows_dt(seed, nrows, k, dt):
    """cell content for dtype dt: half-integers in [-4, 4] (exact in float32/float64); integer dtypes get the
    integer-valued 2*val in [-8, 8] (as Python floats: everything is compared by value)"""
    if dt.startswith("int"):
        return [[val(seed, r, c) * 2 for c in range(k)] for r in range(nrows)]
    return rows_for(seed, nrows, k)


def make_elem(rows, k, dt, as_list):
    """one element of a from_data / .data list: ndarray of dtype dt, or a nested Python list (ints for the
    integer dtypes - the docstring's from_data example; zero rows and float32 have no list spelling)"""
    if as_list and rows and dt != "float32":
        if dt.startswith("int"):
            return [[int(x) for x in r] for r in rows]
        return copy.deepcopy(rows)
    return as_array(rows, k, dt)


def bad_array(kind, seed, nrows, k):
    nrows = max(nrows, 1)
    if kind == "cols+1":
        return as_array(rows_for(seed, nrows, k + 1), k + 1)
    if kind == "cols-1":
        return as_array(rows_for(seed, nrows, k - 1), k - 1)
    if kind == "ndim1":
        return np.array([val(seed, 0, c) for c in range(k)], dtype=np.float64)
    if kind == "ndim3":
        return as_array(rows_for(seed, nrows, k), k)[None, :, :]
    raise core.HarnessError("unknown bad kind %r" % kind)


# ------------------------------------------------------------------------------------------------
# generators (abstract steps)
# ------------------------------------------------------------------------------------------------
small = st.integers(0, 7)
seeds = st.integers(0, 50)
slots = st.integers(0, MAX_SLOTS - 1)
nrows = st.sampled_from([0, 1, 1, 2, 2, 3])
idx3 = st.lists(small, min_size=3, max_size=3)


def _fd(op, **kw):
    d = {"op": st.just(op)}
    d.update(kw)
    return st.fixed_dictionaries(d)


EXPR = st.one_of(
    st.fixed_dictionaries({"t": st.just("i"), "v": small, "np": st.sampled_from([0, 0, 1, 2, 3, 4])}),
    st.fixed_dictionaries(
        {"t": st.just("s"), "a": small, "b": small, "step": st.sampled_from([1, 1, 1, 2, -1]), "form": st.integers(0, 5)}
    ),
    st.fixed_dictionaries({"t": st.sampled_from(["l", "a"]), "v": st.lists(small, min_size=1, max_size=3)}),
)
EXPRS3 = st.lists(EXPR, min_size=3, max_size=3)
BAD = st.one_of(st.none(), st.none(), st.none(), st.none(), st.sampled_from(BAD_KINDS))
DT = st.integers(0, 7)


@st.composite
def create_spec(draw):
    how = draw(st.sampled_from(["from_shape", "from_shape", "from_shape", "from_data"]))
    spec = {
        "how": how,
        "nf": draw(st.integers(1, 4)),
        "names": draw(st.sampled_from(["default", "given", "both"])),
        "name_off": draw(st.integers(0, len(NAME_POOL) - 1)),
        "units": draw(st.booleans()),
        "name": draw(st.sampled_from([None, "peaks"])),
    }
    if how == "from_shape":
        nd = draw(st.sampled_from([1, 2, 2, 3, 3]))
        spec["shape"] = [draw(st.integers(1, 4)) for _ in range(nd)]
    else:
        spec["rows"] = draw(st.lists(nrows, min_size=1, max_size=5))
        spec["seed"] = draw(seeds)
        spec["form"] = draw(st.sampled_from(["arrays", "lists", "mixed"]))
        spec["dt"] = draw(st.integers(0, 7))
        spec["keep"] = draw(st.booleans())
    return spec


# v[...] = <Vector>: right-hand side is a slice of another/the same live vector taken now ("slice"), a slice
# of the destination vector taken earlier in the history or just before an add/remove of fields ("held"),
# or a fresh Vector.from_data with k, k+1 or k-1 columns ("fresh")
def _av():
    return _fd(
        "assign_vector", slot=slots, src=slots, exprs=EXPRS3, multi=small, rhs=st.sampled_from(["slice", "held", "held", "fresh", "fresh"]),
        reg=st.integers(0, 1), use_reg=st.sampled_from([True, True, False]), between=st.sampled_from([None, None, "add", "remove"]),
        shift=idx3, delta=st.sampled_from([0, 0, 0, 1, -1]), seed=seeds, as_array=st.booleans(),
    )

# mutations applied to a SLICE RESULT (and to its parent while the slice is alive): replacements only - cell / list
# assignment, set_data, Vector-valued assignment of a fresh Vector, the data setter, add / remove fields, the
# flatten -> set_flattened round trip, reads; "parent_set_cell" replaces a cell of the parent, "copy_set" replaces a
# cell in a copy() of the slice
_NPI = st.sampled_from([0, 0, 1, 2, 3, 4])
SUB = st.one_of(
    _fd("set_cell", idx=idx3, rows=nrows, seed=seeds, via=st.sampled_from(["setitem", "set_data"]), bad=st.none(), dt=st.just(0), np=_NPI),
    _fd("set_cell", idx=idx3, rows=nrows, seed=seeds, via=st.sampled_from(["setitem", "set_data"]), bad=st.none(), dt=st.just(0), np=_NPI),
    _fd("parent_set_cell", idx=idx3, rows=nrows, seed=seeds, via=st.sampled_from(["setitem", "set_data"]), bad=st.none(), dt=st.just(0), np=_NPI),
    _fd("parent_set_cell", idx=idx3, rows=nrows, seed=seeds, via=st.sampled_from(["setitem", "set_data"]), bad=st.none(), dt=st.just(0), np=_NPI),
    _fd("copy_set", idx=idx3, rows=nrows, seed=seeds),
    _fd("set_many", exprs=EXPRS3, multi=small, seed=seeds, via=st.sampled_from(["setitem", "set_data"]), bad=BAD, bad_pos=small, dt=st.just(0)),
    _fd("get_many", exprs=EXPRS3, via=st.sampled_from(["slice", "get_data"]), drop=st.integers(0, 2), bare=st.booleans()),
    _fd("add_fields", names=st.lists(st.integers(0, len(NAME_POOL) - 1), min_size=1, max_size=2), form=st.sampled_from(["str", "list"])),
    _fd("remove_fields", picks=st.lists(st.integers(0, 8), min_size=1, max_size=2), form=st.sampled_from(["str", "list"])),
    _fd("field_roundtrip", f=small),
)


def _slice_mutate():
    return _fd(
        "slice_mutate", slot=slots, exprs=EXPRS3, multi=small, drop=st.integers(0, 2), bare=st.booleans(),
        use_reg=st.booleans(), reg=st.integers(0, 1), subs=st.lists(SUB, min_size=1, max_size=4),
    )


def _kept_create():
    # Vector.from_data(L) where L is a list object the harness keeps, mutates and reuses
    return _fd(
        "kept_create", dst=slots, rows=st.lists(nrows, min_size=1, max_size=4), seed=seeds, nf=st.integers(1, 3),
        form=st.sampled_from(["arrays", "arrays", "lists", "mixed"]), dt=DT, same=st.booleans(), how=st.sampled_from(["slice", "clear+extend"]),
    )


STEP = st.one_of(
    _fd("set_cell", slot=slots, idx=idx3, rows=nrows, seed=seeds, via=st.sampled_from(["setitem", "set_data"]), bad=BAD, dt=DT, np=st.sampled_from([0, 0, 1, 2, 3, 4])),
    _fd("set_cell", slot=slots, idx=idx3, rows=nrows, seed=seeds, via=st.sampled_from(["setitem", "set_data"]), bad=BAD, dt=DT, np=st.sampled_from([0, 0, 1, 2, 3, 4])),
    _fd("get_cell", slot=slots, idx=idx3, via=st.sampled_from(["getitem", "get_data"]), np=st.sampled_from([0, 0, 1, 2, 3, 4])),
    _fd(
        "set_many", slot=slots, exprs=EXPRS3, multi=small, seed=seeds, via=st.sampled_from(["setitem", "set_data"]),
        bad=BAD, bad_pos=small, dt=DT,
    ),
    _fd(
        "set_many", slot=slots, exprs=EXPRS3, multi=small, seed=seeds, via=st.sampled_from(["setitem", "set_data"]),
        bad=BAD, bad_pos=small, dt=DT,
    ),
    _fd("get_many", slot=slots, exprs=EXPRS3, via=st.sampled_from(["slice", "slice", "get_data"]), drop=st.integers(0, 2), bare=st.booleans()),
    _fd("get_many", slot=slots, exprs=EXPRS3, via=st.sampled_from(["slice", "slice", "get_data"]), drop=st.integers(0, 2), bare=st.booleans()),
    _fd(
        "set_many", slot=slots, exprs=EXPRS3, multi=small, seed=seeds, via=st.sampled_from(["setitem", "set_data"]),
        bad=BAD, bad_pos=small, dt=DT,
    ),
    _fd("get_many", slot=slots, exprs=EXPRS3, via=st.sampled_from(["slice", "slice", "get_data"]), drop=st.integers(0, 2), bare=st.booleans()),
    _kept_create(), _kept_create(),
    _slice_mutate(), _slice_mutate(), _slice_mutate(),
    _fd("kept_mutate", kind=st.sampled_from(["replace", "replace", "append", "clear", "pop", "insert"]), i=small, rows=nrows, seed=seeds),
    _fd("kept_mutate", kind=st.sampled_from(["replace", "replace", "append", "clear", "pop", "insert"]), i=small, rows=nrows, seed=seeds),
    _fd(
        "data_set", slot=slots, seed=seeds, form=st.sampled_from(["arrays", "lists", "mixed"]), dt=DT, use_kept=st.booleans(),
        bad=st.sampled_from([None, None, None, "len+1", "len-1", "cols+1"]),
    ),
    _fd("hold", slot=slots, exprs=EXPRS3, multi=small, reg=st.integers(0, 1)),
    _av(), _av(), _av(),  # (separate instances: one_of drops repeated identical strategy objects)
    _fd("field_op", slot=slots, f=small, operator=st.sampled_from(["+", "-", "*", "/"]), scalar=st.integers(0, len(SCALARS) - 1)),
    _fd("field_callable", slot=slots, f=small, fn=st.sampled_from(sorted(FUNCS))),
    _fd("field_set_flat", slot=slots, f=small, seed=seeds, via=st.sampled_from(["set_flattened", "setitem_str", "list"]), bad_len=st.sampled_from([0, 0, 0, 0, 1, -1])),
    _fd("field_roundtrip", slot=slots, f=small),
    _fd("add_fields", slot=slots, names=st.lists(st.integers(0, len(NAME_POOL) - 1), min_size=1, max_size=3), form=st.sampled_from(["str", "list", "tuple"])),
    _fd("remove_fields", slot=slots, picks=st.lists(st.integers(0, 8), min_size=1, max_size=3), form=st.sampled_from(["str", "list", "tuple"])),
    _fd("copy", slot=slots, dst=slots, meta_before=st.none() | st.lists(st.integers(0, 9), max_size=2), poke=st.integers(0, 2)),
    _fd("create", dst=slots, spec=create_spec()),
    _fd("meta_set", slot=slots, key=st.integers(0, len(META_KEYS) - 1), value=st.one_of(st.integers(0, 9), st.lists(st.integers(0, 9), max_size=2))),
    _fd("meta_append", slot=slots, key=st.integers(0, len(META_KEYS) - 1), x=st.integers(0, 9)),
)


@st.composite
def histories(draw, max_steps):
    # explicit length: st.lists alone is biased towards very short lists (a third had one step)
    n = draw(st.integers(1, max_steps))
    init = draw(create_spec())
    # history-level switch: cells of other dtypes than float64 (int64 / int32 / float32) only in a third of the
    # histories, so that the others keep their field arithmetic
    init["mixed_dtypes"] = draw(st.sampled_from([False, False, True]))
    return {"kind": "history", "init": init, "steps": draw(st.lists(STEP, min_size=n, max_size=n))}


# ------------------------------------------------------------------------------------------------
# resolution of abstract index expressions against an axis of length n
# ------------------------------------------------------------------------------------------------
def resolve_expr(e, n, assign):
    """-> (model expr, object handed to the Vector).  Index sets are never empty; fancy lists used for
    assignment have >= 2 entries (a 1-element list is not a multi-cell index for __setitem__)."""
    t = e["t"]
    if t == "i":
        i = e["v"] % n
        return ("i", i), np_int(i, e.get("np", 0))
    if t == "s":
        lo = e["a"] % n
        hi = lo + 1 + (e["b"] % (n - lo))
        step, form = e["step"], e["form"]
        if step == -1:
            tup = (None, None, -1) if form % 2 else (hi - 1, (lo - 1) if lo > 0 else None, -1)
        elif form == 0:
            tup = (lo, hi, step)
        elif form == 1:
            tup = (None, hi, step)
        elif form == 2:
            tup = (lo, None, step)
        elif form == 3:
            tup = (None, None, step)
        elif form == 4:
            tup = (lo - n, hi if hi < n else None, step)
        else:
            tup = (lo, (hi - n) if hi < n else None, step)
        return ("s", tup), slice(*tup)
    lst = [x % n for x in e["v"]]
    if assign and len(lst) < 2:
        lst.append((lst[0] + 1) % n)
    if t == "l":
        return ("l", lst), list(lst)
    return ("a", lst), np.array(lst)


def _fmt_expr(me):
    if me[0] == "s":
        return "slice(%s,%s,%s)" % me[1]
    if me[0] == "a":
        return "array(%s)" % (me[1],)
    return repr(me[1])


def _fmt_key(mes, ses):
    """index expression as handed to the Vector (shows NumPy integer scalars as such)"""
    return ", ".join(repr(se) if me[0] == "i" else _fmt_expr(me) for me, se in zip(mes, ses))


# ------------------------------------------------------------------------------------------------
# comparison of a live Vector with its model (public API only)
# ------------------------------------------------------------------------------------------------
def cell_problem(got, exp, k):
    """None if `got` (what the Vector returned for one cell) matches model cell `exp`"""
    if exp is None:
        return None if got is None else "is %r, expected an unset cell (None)" % (got,)
    if not isinstance(got, np.ndarray):
        return "is %s %r, expected a 2-D array with rows %r" % (type(got).__name__, got, exp)
    if got.ndim != 2:
        return "has ndim %d (shape %s), expected 2" % (got.ndim, got.shape)
    if got.shape[1] != k:
        return "has %d columns for %d fields" % (got.shape[1], k)
    if got.shape[0] != len(exp) or got.tolist() != exp:
        return "= %r, expected %r" % (got.tolist(), exp)
    return None


def _get_cell(v, idx):
    return v[idx[0]] if len(idx) == 1 else v[tuple(idx)]


def vec_problem(v, m, meta=True):
    """first discrepancy between Vector v and model m as a string, else None"""
    if tuple(v.shape) != m.shape:
        return "shape %r, expected %r" % (v.shape, m.shape)
    fields, units = list(v.fields), list(v.units)
    if len(set(fields)) != len(fields):
        return "duplicate field names %r" % (fields,)
    if len(fields) != len(units):
        return "%d fields %r but %d units %r" % (len(fields), fields, len(units), units)
    if fields != m.fields:
        return "fields %r, expected %r" % (fields, m.fields)
    if units != m.units:
        return "units %r, expected %r (fields %r)" % (units, m.units, fields)
    if v.num_fields != m.k:
        return "num_fields %r, expected %r" % (v.num_fields, m.k)
    for idx in m.order():
        try:
            got = _get_cell(v, idx)
        except Exception as e:  # noqa: BLE001
            return "reading cell %r raised %s: %s" % (idx, type(e).__name__, e)
        p = cell_problem(got, m.cells[idx], m.k)
        if p:
            return "cell %r %s" % (idx, p)
    for f in m.fields:
        try:
            flat = v[f].flatten()
        except Exception as e:  # noqa: BLE001
            return "v[%r].flatten() raised %s: %s" % (f, type(e).__name__, e)
        exp = m.field_flat(f)
        if not isinstance(flat, np.ndarray) or flat.ndim != 1 or flat.tolist() != exp:
            return "v[%r].flatten() = %r, expected the row-major concatenation %r" % (f, getattr(flat, "tolist", lambda: flat)(), exp)
    try:
        whole = v.flatten()
    except Exception as e:  # noqa: BLE001
        return "flatten() raised %s: %s" % (type(e).__name__, e)
    exp = m.flatten()
    if not isinstance(whole, np.ndarray) or whole.shape != (len(exp), m.k) or whole.tolist() != exp:
        return "flatten() = %r (shape %r), expected the row-major stack %r" % (
            getattr(whole, "tolist", lambda: whole)(), getattr(whole, "shape", None), exp)
    if meta:
        md = v.metadata
        if not isinstance(md, dict) or md != m.metadata:
            return "metadata %r, expected %r" % (md, m.metadata)
    return None


# ------------------------------------------------------------------------------------------------
# the executor
# ------------------------------------------------------------------------------------------------
class History:
    def __init__(self, ctx, case):
        self.ctx = ctx
        self.case = case
        self.live = []  # [Vector, VectorModel]
        self.dropped = []
        self.mixed_dtypes = bool(case.get("init", {}).get("mixed_dtypes", False))
        self.kept = None  # {"L": the harness-owned list handed to from_data / .data, "rows", "dts", "lists", "k"}
        self.views = set()  # id() of live entries that are slice results (share cell ARRAYS with their parent)
        self.held = [None, None]  # (owner Vector, index sets, sliced Vector) kept by `hold` steps
        self.nstep = 0
        self.classes = []
        self.flags = {"fieldchange": False, "assign": False, "slice": False, "non2d": False, "executed": 0}

    # -- helpers ----------------------------------------------------------------------------------
    def viol(self, msg):
        raise core.Violation("step %d: %s" % (self.nstep, msg), self.case)

    def call(self, what, fn, expect=None):
        """run fn() as code under test.  -> (True, result) or (False, exc) when the declared legal
        rejection `expect` was raised; anything else raised by quantem is a violation."""
        legal = (expect,) if expect else ()
        try:
            with self.ctx.sut(self.case, "step %d: %s" % (self.nstep, what), legal=legal):
                with contextlib.redirect_stdout(io.StringIO()):
                    return True, fn()
        except legal as e:
            return False, e

    def must(self, what, fn):
        return self.call(what, fn)[1]

    def pick(self, step, key="slot"):
        s = step[key] % len(self.live)
        v, m = self.live[s]
        if m.ndim != 2:
            self.flags["non2d"] = True
        self.classes.append("ndim:%d" % m.ndim)
        return s, v, m

    def place(self, dst, pair, avoid=None):
        if len(self.live) < MAX_SLOTS:
            self.live.append(pair)
            return len(self.live) - 1
        d = dst % MAX_SLOTS
        if avoid is not None and d == avoid:
            d = (d + 1) % MAX_SLOTS
        self.dropped.append(self.live[d])
        self.live[d] = pair
        return d

    def check_all(self, when):
        # no shared mutable state between live vectors
        seen_meta, seen_cells = {}, {}
        for s, (v, m) in enumerate(self.live):
            md = v.metadata
            if id(md) in seen_meta:
                self.viol("%s: vectors #%d and #%d share one metadata dict object" % (when, seen_meta[id(md)], s))
            seen_meta[id(md)] = s
        for s, (v, m) in enumerate(self.live):
            p = vec_problem(v, m)
            if p:
                self.viol("%s: vector #%d: %s" % (when, s, p))
        for s, (v, m) in enumerate(self.live):
            if id(v) in self.views:
                continue  # a slice result holds its parent's cell arrays by design (name suffix "[view]")
            for idx in m.order():
                if m.cells[idx] is None:
                    continue
                c = _get_cell(v, idx)
                if id(c) in seen_cells:
                    self.viol("%s: cell %r of vector #%d is the same array object as cell %r of vector #%d" % ((when, idx, s) + seen_cells[id(c)][::-1]))
                seen_cells[id(c)] = (s, idx)

    # -- creation ---------------------------------------------------------------------------------
    def create(self, spec):
        Vector = _V()
        nf = spec["nf"]
        names = [NAME_POOL[(spec["name_off"] + i) % len(NAME_POOL)] for i in range(nf)]
        units = [UNIT_POOL[(spec["name_off"] + 2 * i) % len(UNIT_POOL)] for i in range(nf)] if spec["units"] else None
        kw = {}
        if spec["names"] in ("default", "both"):
            kw["num_fields"] = nf
        if spec["names"] in ("given", "both"):
            kw["fields"] = list(names)
        if units is not None:
            kw["units"] = list(units)
        if spec["name"] is not None:
            kw["name"] = spec["name"]
        mfields = names if "fields" in kw else ["field_%d" % i for i in range(nf)]
        munits = units if units is not None else ["none"] * nf
        if spec["how"] == "from_shape":
            shape = tuple(int(n) for n in spec["shape"])
            v = self.must("Vector.from_shape(%r, %r)" % (shape, kw), lambda: Vector.from_shape(shape, **kw))
            m = VectorModel(shape, mfields, munits)
        else:
            dts = [dtype_for(spec.get("dt", 0), t, self.mixed_dtypes) for t in range(len(spec["rows"]))]
            cells = [rows_dt(spec["seed"] + t, r, nf, dts[t]) for t, r in enumerate(spec["rows"])]
            lists = [spec["form"] == "lists" or (spec["form"] == "mixed" and t % 2 == 1) for t in range(len(cells))]
            # (a zero-row cell has no nested-list spelling that carries the column count)
            data = [make_elem(rows, nf, dts[t], lists[t]) for t, rows in enumerate(cells)]
            if spec.get("keep"):
                self.kept = {"L": data, "rows": copy.deepcopy(cells), "dts": list(dts), "lists": list(lists), "k": nf}
                self.classes.append("kept-list:created")
            if spec["names"] == "default" and spec["name_off"] % 2:
                kw.pop("num_fields")  # inferred from the data
            v = self.must("Vector.from_data(<%d cells, rows %r, %s>, %r)" % (len(cells), spec["rows"], spec["form"], kw), lambda: Vector.from_data(data, **kw))
            m = VectorModel((len(cells),), mfields, munits)
            for t, rows in enumerate(cells):
                m.set_cell((t,), rows)
            if any(d != "float64" for d in dts):
                m.mixed = True
                self.classes.append("create:from_data:dtypes:" + "+".join(dts[:3]))
        self.classes.append("create:%s:%dd" % (spec["how"], m.ndim))
        if not isinstance(v, Vector):
            self.viol("creation returned %r" % (type(v),))
        return v, m

    # -- steps ------------------------------------------------------------------------------------
    def apply(self, step):
        self.nstep += 1
        op = step["op"]
        r = getattr(self, "op_" + op)(step)
        if r is not False:
            self.flags["executed"] += 1
            self.classes.append("op:" + op)
        else:
            self.classes.append("skipped:" + op)
        self.check_all("after %s" % op)

    def _idx(self, step, m):
        return [step["idx"][d] % m.shape[d] for d in range(m.ndim)]

    @staticmethod
    def _sut_idx(step, idx):
        """the same positions as handed to the Vector: Python ints, or (np != 0) a rotation of NumPy integer types"""
        code = step.get("np", 0)
        return [np_int(i, code + d) if code else i for d, i in enumerate(idx)]

    def op_set_cell(self, step):
        s, v, m = self.pick(step)
        idx = self._idx(step, m)
        dt = dtype_for(step.get("dt", 0), 0, self.mixed_dtypes)
        rows = rows_dt(step["seed"], step["rows"], m.k, dt)
        bad = step["bad"]
        arr = bad_array(bad, step["seed"], step["rows"], m.k) if bad else as_array(rows, m.k, dt)
        sidx = self._sut_idx(step, idx)
        key = sidx[0] if m.ndim == 1 else tuple(sidx)
        if step["via"] == "setitem":
            what = "v#%d[%r] = array%r" % (s, key, arr.shape)
            fn = lambda: v.__setitem__(key, arr)  # noqa: E731
        else:
            what = "v#%d.set_data(array%r, *%r)" % (s, arr.shape, sidx)
            fn = lambda: v.set_data(arr, *sidx)  # noqa: E731
        ok, _ = self.call(what, fn, ValueError if bad else None)
        if bad:
            if ok:
                self.viol("%s accepted an array that is not (_, %d): %s" % (what, m.k, bad))
            self.classes.append("rejected:" + bad)
            return
        m.set_cell(idx, rows)
        if dt != "float64":
            m.mixed = True
            self.classes.append("cell-dtype:" + dt)
        self.flags["assign"] = True

    def op_get_cell(self, step):
        s, v, m = self.pick(step)
        idx = self._idx(step, m)
        sidx = self._sut_idx(step, idx)
        if step["via"] == "getitem":
            what = "v#%d[%r]" % (s, tuple(sidx))
            got = self.must(what, lambda: _get_cell(v, sidx))
        else:
            what = "v#%d.get_data(*%r)" % (s, sidx)
            got = self.must(what, lambda: v.get_data(*sidx))
        p = cell_problem(got, m.cells[tuple(idx)], m.k)
        if p:
            self.viol("%s %s" % (what, p))

    def _resolve(self, step, m, assign, one_multi=False, force_multi=False, drop=0):
        """-> (model exprs, sut exprs).  force_multi: dimension multi % ndim is made a multi-cell
        index (an integer i becomes slice(i, i+1)); one_multi: every OTHER dimension is an integer"""
        nd = m.ndim
        md = step.get("multi", 0) % nd
        if one_multi:
            wide = [d for d in range(nd) if m.shape[d] >= 2]
            if wide:
                md = wide[step.get("multi", 0) % len(wide)]
        mes, ses = [], []
        for d in range(nd - min(drop, nd - 1)):
            e = step["exprs"][d]
            if one_multi and d != md and e["t"] != "i":
                e = {"t": "i", "v": e["v"][0] if e["t"] in "la" else e["a"], "np": e.get("form", len(e.get("v", [])))}
            if force_multi and d == md and e["t"] == "i":
                i = e["v"] % m.shape[d]
                me, se = ("s", (i, i + 1, None)), slice(i, i + 1)
            else:
                me, se = resolve_expr(e, m.shape[d], assign)
            if one_multi and d == md and m.shape[d] >= 2 and len(index_set(me, m.shape[d])) < 2:
                i = index_set(me, m.shape[d])[0]
                lo = i if i + 1 < m.shape[d] else i - 1
                me, se = ("s", (lo, lo + 2, None)), slice(lo, lo + 2)
            mes.append(me)
            ses.append(se)
        if any(isinstance(x, np.integer) for x in ses) and (len(ses) < nd or any(e[0] != "i" for e in mes)):
            self.classes.append("index:numpy-int-position+multi-or-omitted-axis")
        return mes, ses

    def op_set_many(self, step):
        s, v, m = self.pick(step)
        via = step["via"]
        # set_data(list, ...): only one multi-cell dimension, where "one array per addressed cell" is
        # the only reading of the docstring; __setitem__: outer product, row-major (len is checked)
        mes, ses = self._resolve(step, m, assign=True, one_multi=(via == "set_data"), force_multi=True)
        _sets, cells = m.addressed(mes)
        if via == "set_data" and len(cells) == 1:
            # set_data treats "every index set has one element" as single-cell addressing (bare array);
            # whether a 1-cell slice takes a list or an array is not fixed by the docstring -> not claimed
            via = "setitem"
            self.classes.append("set_data-one-cell-slice->setitem")
        dts = [dtype_for(step.get("dt", 0), t, self.mixed_dtypes) for t in range(len(cells))]
        rows_list = [rows_dt(step["seed"] + t, (step["seed"] + t) % 4, m.k, dts[t]) for t in range(len(cells))]
        arrs = [as_array(r, m.k, dts[t]) for t, r in enumerate(rows_list)]
        bad = step["bad"]
        bp = step["bad_pos"] % len(cells)
        if any(d != "float64" for d in dts):
            m.mixed = True  # (also when the assignment is rejected half-way: conservative)
            self.classes.append("cell-dtype:list")
        if bad:
            arrs[bp] = bad_array(bad, step["seed"], 1, m.k)
        desc = _fmt_key(mes, ses)
        if via == "setitem":
            key = ses[0] if (m.ndim == 1 and step["multi"] % 2) else tuple(ses)
            what = "v#%d[%s] = <list of %d arrays>" % (s, desc, len(arrs))
            fn = lambda: v.__setitem__(key, arrs)  # noqa: E731
        else:
            what = "v#%d.set_data(<list of %d arrays>, %s)" % (s, len(arrs), desc)
            fn = lambda: v.set_data(arrs, *ses)  # noqa: E731
        self.classes.append("set_many:%s:%d-multi" % (via, sum(e[0] != "i" for e in mes)))
        ok, _ = self.call(what, fn, ValueError if bad else None)
        if bad:
            if ok:
                self.viol("%s accepted, although array %d is not (_, %d): %s" % (what, bp, m.k, bad))
            self.classes.append("rejected-in-list:" + bad)
            # the statement promises the invariants, not atomicity: the arrays before the bad one may
            # or may not have been stored
            if vec_problem(v, m, meta=False) is not None:
                m2 = m.copy()
                m2.set_many(mes, rows_list, upto=bp)
                if vec_problem(v, m2, meta=False) is None:
                    self.live[s][1] = m2
                    self.ctx.count("rejected-list-prefix-applied")
            return
        m.set_many(mes, rows_list)
        self.flags["assign"] = True

    def op_get_many(self, step):
        s, v, m = self.pick(step)
        Vector = _V()
        if step["via"] == "get_data":
            mes, ses = self._resolve(step, m, assign=False)
            what = "v#%d.get_data(%s)" % (s, _fmt_key(mes, ses))
            got = self.must(what, lambda: v.get_data(*ses))
            exp = m.get_many(mes)
            if all(e[0] == "i" for e in mes) or len(exp) == 1 and not isinstance(got, list):
                # all index sets have one element: documented to return the single cell
                p = cell_problem(got, exp[0], m.k)
                if p:
                    self.viol("%s %s" % (what, p))
                return
            if not isinstance(got, list) or len(got) != len(exp):
                self.viol("%s returned %s, expected a flat list of the %d addressed cells" % (what, _short(got), len(exp)))
            for t, (g, e) in enumerate(zip(got, exp)):
                p = cell_problem(g, e, m.k)
                if p:
                    self.viol("%s: element %d (cell %r) %s" % (what, t, m.addressed(mes)[1][t], p))
            self.classes.append("get_data-multi:%dd" % m.ndim)
            return
        mes, ses = self._resolve(step, m, assign=False, drop=step["drop"])
        key = ses[0] if (len(ses) == 1 and step["bare"]) else tuple(ses)
        what = "v#%d[%s]" % (s, _fmt_key(mes, ses))
        got = self.must(what, lambda: v[key])
        if len(mes) == m.ndim and all(e[0] == "i" for e in mes):
            p = cell_problem(got, m.cells[tuple(e[1] for e in mes)], m.k)
            if p:
                self.viol("%s %s" % (what, p))
            return
        if not isinstance(got, Vector):
            self.viol("%s returned %s, expected a Vector" % (what, _short(got)))
        exp = m.select(mes)
        p = vec_problem(got, exp, meta=False)
        if p:
            self.viol("%s (source shape %r) returned a Vector with %s" % (what, m.shape, p))
        self.flags["slice"] = True
        self.classes.append("slice:%dd:%s" % (m.ndim, "partial" if len(mes) < m.ndim else "full"))

    # -- a data list the harness keeps: from_data(L) / v.data = L must not keep L itself -------------------
    def _fill_kept(self, L, cells, dts, lists, k, how, reuse=None):
        """rewrite list object L in place with elements for `cells`.  ndarray elements are always FRESH objects
        (a Vector stores the arrays it is given by reference - the documented aliasing - so an array object is
        never handed to two vectors); nested-list elements listed in `reuse` are kept as the same objects"""
        elems = []
        for t, rows in enumerate(cells):
            old = reuse[t] if reuse is not None and t < len(reuse) else None
            elems.append(old if isinstance(old, list) else make_elem(rows, k, dts[t], lists[t]))
        if how == "slice":
            L[:] = elems
        else:
            L.clear()
            L.extend(elems)
        self.kept = {"L": L, "rows": copy.deepcopy(cells), "dts": list(dts), "lists": list(lists), "k": k}

    def op_kept_create(self, step):
        """v = Vector.from_data(L) with L the kept list object: the first time a new list, afterwards the SAME
        list object refilled (same content with fresh array objects, or new content)"""
        kept = self.kept
        if kept is not None and step["same"] and kept["rows"]:
            cells, dts, lists, k = copy.deepcopy(kept["rows"]), kept["dts"], kept["lists"], kept["k"]
            self._fill_kept(kept["L"], cells, dts, lists, k, step["how"], reuse=list(kept["L"]))
            self.classes.append("kept-list:second-vector-same-content")
        else:
            k = step["nf"]
            dts = [dtype_for(step["dt"], t, self.mixed_dtypes) for t in range(len(step["rows"]))]
            cells = [rows_dt(step["seed"] + t, r, k, dts[t]) for t, r in enumerate(step["rows"])]
            lists = [step["form"] == "lists" or (step["form"] == "mixed" and t % 2 == 1) for t in range(len(cells))]
            self.classes.append("kept-list:refilled-new-content" if kept is not None else "kept-list:created")
            self._fill_kept(kept["L"] if kept is not None else [], cells, dts, lists, k, step["how"])
        L = self.kept["L"]
        v = self.must("Vector.from_data(<kept list: %d cells, %d columns, dtypes %r>)" % (len(cells), k, dts), lambda: _V().from_data(L))
        m = VectorModel((len(cells),), ["field_%d" % i for i in range(k)], ["none"] * k)
        for t, rows in enumerate(cells):
            m.set_cell((t,), rows)
        if any(d != "float64" for d in dts):
            m.mixed = True
            self.classes.append("create:from_data:dtypes:" + "+".join(dts[:3]))
        self.flags["non2d"] = True
        self.place(step["dst"], [v, m])

    def op_kept_mutate(self, step):
        """the caller goes on using its own list after handing it to from_data / .data: no live Vector may change
        (check_all right after this step compares every live vector with its untouched model)"""
        kept = self.kept
        if kept is None:
            return False
        L, k, kind = kept["L"], kept["k"], step["kind"]
        if kind in ("replace", "pop") and not L:
            kind = "append"
        rows = rows_for(step["seed"] + 11, max(step["rows"], 1), k)
        if kind == "replace":
            i = step["i"] % len(L)
            L[i] = as_array(rows, k)
            kept["rows"][i], kept["dts"][i], kept["lists"][i] = rows, "float64", False
        elif kind == "pop":
            i = step["i"] % len(L)
            L.pop(i)
            for key in ("rows", "dts", "lists"):
                kept[key].pop(i)
        elif kind == "clear":
            L.clear()
            kept["rows"], kept["dts"], kept["lists"] = [], [], []
        else:
            i = len(L) if kind == "append" else step["i"] % (len(L) + 1)
            L.insert(i, as_array(rows, k))
            kept["rows"].insert(i, rows)
            kept["dts"].insert(i, "float64")
            kept["lists"].insert(i, False)
        self.classes.append("kept-list:mutated:" + kind)

    def op_data_set(self, step):
        """v.data = <list> (public setter; one element per cell, defined for one fixed dimension)"""
        s, v, m = self.pick(step)
        if m.ndim != 1:
            return False
        bad = step["bad"]
        n = m.shape[0] + (1 if bad == "len+1" else -1 if bad == "len-1" else 0)
        k = m.k + (1 if bad == "cols+1" else 0)
        dts = [dtype_for(step["dt"], t, self.mixed_dtypes) for t in range(n)]
        cells = [rows_dt(step["seed"] + t, (step["seed"] + t) % 4, k, dts[t]) for t in range(n)]
        lists = [step["form"] == "lists" or (step["form"] == "mixed" and t % 2 == 1) for t in range(n)]
        if step["use_kept"] and self.kept is not None:
            self._fill_kept(self.kept["L"], cells, dts, lists, k, "slice")
            target = self.kept["L"]
            self.classes.append("kept-list:data-setter")
        else:
            target = [make_elem(rows, k, dts[t], lists[t]) for t, rows in enumerate(cells)]
        what = "v#%d.data = <list of %d cells with %d columns> (shape %r, %d fields)" % (s, n, k, m.shape, m.k)
        ok, _ = self.call(what, lambda: setattr(v, "data", target), ValueError if bad else None)
        if bad:
            if ok:
                self.viol("%s accepted: %s" % (what, bad))
            self.classes.append("rejected:data-setter:" + bad)
            return
        for t, rows in enumerate(cells):
            m.set_cell((t,), rows)
        if any(d != "float64" for d in dts):
            m.mixed = True
        self.flags["assign"] = True

    def _observed_model(self, vec, what):
        """reference model of a slice result built from what it returns NOW through its public API (a held slice
        shares cell arrays with its parent, so its content may have followed in-place field arithmetic there)"""
        shape = tuple(vec.shape)
        k = len(vec.fields)
        om = VectorModel(shape, list(vec.fields), list(vec.units))
        for idx in om.order():
            c = _get_cell(vec, idx)
            if c is None:
                continue
            if not isinstance(c, np.ndarray) or c.ndim != 2 or c.shape[1] != k:
                self.viol("%s: cell %r is %s, not a 2-D array with %d columns" % (what, idx, _short(c), k))
            om.cells[idx] = [[float(x) for x in r] for r in c.tolist()]
        return om

    def op_slice_mutate(self, step):
        """s = v[expr] (full or partial index tuple, repeated positions welcome), or a slice held from an earlier step;
        then a few REPLACEMENT-type mutations on s and on its parent.  A slice result is a new Vector with its own cell
        containers: replacing a cell (or the fields) of s changes neither the parent nor any other cell of s - in
        particular not the twin row produced by a repeated index - and vice versa; only the cell ARRAYS are shared."""
        ent, pslot = None, None
        if step["use_reg"]:
            for r in (step["reg"], 1 - step["reg"]):
                if self.held[r] is not None:
                    ent = self.held[r]
                    pslot = next((i for i, (lv, _lm) in enumerate(self.live) if lv is ent[0]), None)
                    break
        if ent is not None:
            sv = ent[2]
            sm = self._observed_model(sv, "slice held from an earlier step")
            self.classes.append("slice_mutate:held" + ("" if pslot is not None else ":parent-gone"))
        else:
            pslot, v, m = self.pick(step)
            mes, ses = self._resolve(step, m, assign=False, force_multi=True, drop=step["drop"])
            key = ses[0] if (len(ses) == 1 and step["bare"]) else tuple(ses)
            what = "s = v#%d[%s]" % (pslot, _fmt_key(mes, ses))
            sv = self.must(what, lambda: v[key])
            if not isinstance(sv, _V()):
                self.viol("%s returned %s, expected a Vector" % (what, _short(sv)))
            sm = m.select(mes)
            p = vec_problem(sv, sm, meta=False)
            if p:
                self.viol("%s (source shape %r) returned a Vector with %s" % (what, m.shape, p))
            sm.metadata = copy.deepcopy(sv.metadata) if isinstance(sv.metadata, dict) else {}
            sets = m.addressed(mes)[0]
            self.classes.append("slice_mutate:%dd:%s%s" % (m.ndim, "partial" if len(mes) < m.ndim else "full",
                                                           ":repeated-index" if any(len(set(x)) < len(x) for x in sets) else ""))
        if ent is not None:
            sm.metadata = copy.deepcopy(sv.metadata) if isinstance(sv.metadata, dict) else {}
        self.flags["slice"] = True
        # the slice joins the live vectors for the duration of this step (compared after every sub-step, like them)
        self.live.append([sv, sm])
        self.views.add(id(sv))
        ts = len(self.live) - 1
        try:
            for sub in step["subs"]:
                sub = dict(sub)
                op = sub["op"]
                if op == "parent_set_cell":
                    if pslot is None:
                        continue
                    sub["slot"] = pslot
                    self.op_set_cell(sub)
                    self.classes.append("slice_mutate:parent-cell-replaced")
                elif op == "copy_set":
                    self._copy_set(sv, self.live[ts][1], sub)  # (a rejected list assignment may have swapped the model)
                else:
                    sub["slot"] = ts
                    r = getattr(self, "op_" + op)(sub)
                    if r is not False:
                        self.classes.append("slice_mutate:" + op)
                self.check_all("after %s on %s" % (op, "the parent of slice #%d" % ts if op == "parent_set_cell" else "slice #%d of v#%s" % (ts, pslot)))
        finally:
            self.live.pop(ts)
            self.views.discard(id(sv))

    def _copy_set(self, sv, sm, sub):
        """c = s.copy(); replace one cell of c: only that cell of c changes (and nothing in s)"""
        c = self.must("s.copy()", sv.copy)
        cm = sm.copy()
        p = vec_problem(c, cm, meta=False)
        if p:
            self.viol("copy() of a slice result: %s" % p)
        idx = [sub["idx"][d] % cm.shape[d] for d in range(cm.ndim)]
        rows = rows_for(sub["seed"], sub["rows"], cm.k)
        arr = as_array(rows, cm.k)
        key = idx[0] if cm.ndim == 1 else tuple(idx)
        self.must("c = s.copy(); c[%r] = array%r" % (key, arr.shape), lambda: c.__setitem__(key, arr))
        cm.set_cell(idx, rows)
        p = vec_problem(c, cm, meta=False)
        if p:
            self.viol("c = s.copy(); c[%r] = array%r: afterwards c has %s" % (key, arr.shape, p))
        self.classes.append("slice_mutate:copy_set")

    def _take_slice(self, step, s, v, m):
        """held = v[expr] with every addressed cell populated first (a Vector right-hand side needs populated
        cells); verified against the model.  -> (index sets, sliced Vector, description)"""
        mes0, ses0 = self._resolve(step, m, assign=True, force_multi=True)
        sets, cells0 = m.addressed(mes0)
        desc0 = ", ".join(_fmt_expr(e) for e in mes0)
        if any(m.cells[c] is None for c in cells0):
            rows0 = [rows_for(step["multi"] + 3 + t, (step["multi"] + t) % 3, m.k) for t in range(len(cells0))]
            arrs0 = [as_array(r, m.k) for r in rows0]
            self.must("v#%d[%s] = <list of %d arrays>" % (s, desc0, len(arrs0)), lambda: v.__setitem__(tuple(ses0), arrs0))
            m.set_many(mes0, rows0)
            self.flags["assign"] = True
        held = self.must("held = v#%d[%s]" % (s, desc0), lambda: v[tuple(ses0)])
        if not isinstance(held, _V()):
            self.viol("v#%d[%s] returned %s, expected a Vector" % (s, desc0, _short(held)))
        p = vec_problem(held, m.select(mes0), meta=False)
        if p:
            self.viol("v#%d[%s] (source shape %r) returned a Vector with %s" % (s, desc0, m.shape, p))
        self.flags["slice"] = True
        return sets, held, desc0

    def op_hold(self, step):
        """s = v[expr] kept for a later `v[...] = s.copy()` (a view: only ever read by the harness)"""
        s, v, m = self.pick(step)
        sets, held, _desc = self._take_slice(step, s, v, m)
        self.held[step["reg"]] = (v, sets, held)

    def _observe_rhs(self, rhs, k):
        """cells of a right-hand-side Vector read through its public API in row-major order
        -> (list of ndarray | None, 'match' | 'mismatch' | 'unset')"""
        cells = [_get_cell(rhs, idx) for idx in itertools.product(*[range(n) for n in rhs.shape])]
        if any(c is None for c in cells):
            return cells, "unset"
        ok = all(isinstance(c, np.ndarray) and c.ndim == 2 and c.shape[1] == k for c in cells)
        return cells, "match" if ok else "mismatch"

    def _assign_rhs(self, s, v, m, mes, key, rhs_vec, status, exp_rows, what, tag):
        """v[key] = rhs_vec; matching column counts: addressed cells must equal exp_rows afterwards;
        mismatching: ValueError and (checked by check_all right after) nothing changed"""
        ok, _ = self.call(what, lambda: v.__setitem__(key, rhs_vec), ValueError if status == "mismatch" else None)
        if status == "mismatch":
            if ok:
                self.viol("%s accepted a Vector whose cells do not have %d columns" % (what, m.k))
            self.classes.append("assign_vector:%s:mismatch-rejected" % tag)
            return
        m.set_many(mes, exp_rows)
        self.flags["assign"] = True
        self.classes.append("assign_vector:%s:match" % tag)

    def op_assign_vector(self, step):
        """v[...] = <Vector>.  The stored arrays are always fresh (copy() of a slice, or a from_data Vector
        that is dropped afterwards), so no two live cells alias."""
        rhs = step.get("rhs", "slice")
        if rhs == "fresh":
            return self._assign_fresh(step)
        if rhs == "held":
            return self._assign_held(step)
        s, v, m = self.pick(step)
        s2 = step["src"] % len(self.live)
        w, wm = self.live[s2]
        mes, ses = self._resolve(step, m, assign=True, force_multi=True)
        if wm.shape != m.shape or any(c is None for c in wm.get_many(mes)):
            s2, w, wm = s, v, m
        if any(c is None for c in wm.get_many(mes)):
            return False  # unset source cells: outside what a Vector right-hand side supports
        key = tuple(ses)
        desc = ", ".join(_fmt_expr(e) for e in mes)
        what = "v#%d[%s] = v#%d[%s].copy()" % (s, desc, s2, desc)
        rhs_vec = self.must("v#%d[%s].copy()" % (s2, desc), lambda: w[key].copy())
        self.flags["slice"] = True
        m.mixed = m.mixed or wm.mixed
        self._assign_rhs(s, v, m, mes, key, rhs_vec, "match" if wm.k == m.k else "mismatch", wm.get_many(mes), what, "slice")

    def _assign_fresh(self, step):
        s, v, m = self.pick(step)
        mes, ses = self._resolve(step, m, assign=True, force_multi=True)
        n = len(m.addressed(mes)[1])
        k2 = m.k + step["delta"]
        if k2 < 1:
            k2 = m.k + 1
        rows_list = [rows_for(step["seed"] + t, (step["seed"] + t) % 4, k2) for t in range(n)]
        data = [as_array(r, k2) if (step["as_array"] or not r) else copy.deepcopy(r) for r in rows_list]
        rhs_vec = self.must("Vector.from_data(<%d cells with %d columns>)" % (n, k2), lambda: _V().from_data(data))
        key = ses[0] if (m.ndim == 1 and step["multi"] % 2) else tuple(ses)
        what = "v#%d[%s] = Vector.from_data(<%d cells with %d columns>) (%d fields)" % (s, ", ".join(_fmt_expr(e) for e in mes), n, k2, m.k)
        self._assign_rhs(s, v, m, mes, key, rhs_vec, "match" if k2 == m.k else "mismatch", rows_list, what, "fresh")

    def _assign_held(self, step):
        """s = v[a] (taken earlier in the history, or now); optionally add/remove a field of v; v[b] = s.copy()
        where b addresses as many cells as a (a's index sets shifted cyclically per dimension)"""
        ent, slot = None, None
        if step["use_reg"]:
            for r in (step["reg"], 1 - step["reg"]):
                e = self.held[r]
                if e is not None:
                    slot = next((i for i, (lv, _lm) in enumerate(self.live) if lv is e[0]), None)
                    if slot is not None:
                        ent = e
                        break
        if slot is None:
            s, v, m = self.pick(step)
            sets, held, desc0 = self._take_slice(step, s, v, m)
            origin = "v#%d[%s]" % (s, desc0)
        else:
            s = slot
            v, m = self.live[s]
            if m.ndim != 2:
                self.flags["non2d"] = True
            _owner, sets, held = ent
            origin = "<slice of v#%d held from an earlier step>" % s
            self.classes.append("assign_vector:held:from-register")
        self.flags["slice"] = True
        if step["between"] == "add" and m.k < MAX_FIELDS:
            name = next(nm for nm in NAME_POOL + ["w%d" % i for i in range(MAX_FIELDS)] if nm not in m.fields)
            self.must("v#%d.add_fields(%r)" % (s, name), lambda: v.add_fields(name))
            m.add_fields([name])
            self.flags["fieldchange"] = True
        elif step["between"] == "remove" and m.k >= 2:
            name = m.fields[step["shift"][0] % m.k]
            self.must("v#%d.remove_fields(%r)" % (s, name), lambda: v.remove_fields(name))
            m.remove_fields([name])
            self.flags["fieldchange"] = True
        # destination: the held index sets shifted cyclically; one-element sets become integers
        mes, ses = [], []
        for d, st_ in enumerate(sets):
            sh = [(i + step["shift"][d]) % m.shape[d] for i in st_]
            if len(sh) == 1:
                mes.append(("i", sh[0]))
                ses.append(sh[0])
            elif (step["seed"] + d) % 2:
                mes.append(("a", sh))
                ses.append(np.array(sh))
            else:
                mes.append(("l", sh))
                ses.append(list(sh))
        if all(e[0] == "i" for e in mes):
            i = mes[0][1]
            mes[0], ses[0] = ("s", (i, i + 1, None)), slice(i, i + 1)
        cells, status = self._observe_rhs(held, m.k)
        if status == "unset":
            self.classes.append("assign_vector:held:unset-source-skipped")
            return False  # unset source cells: outside what a Vector right-hand side supports
        stale = list(held.fields) != m.fields
        if stale:
            self.classes.append("assign_vector:held:stale-fields")
        exp_rows = [c.tolist() for c in cells] if status == "match" else None
        rhs_vec = self.must("%s.copy()" % origin, held.copy)
        what = "v#%d[%s] = %s.copy() (held fields %r, now %r)" % (s, ", ".join(_fmt_expr(e) for e in mes), origin, list(held.fields), m.fields)
        self._assign_rhs(s, v, m, mes, tuple(ses), rhs_vec, status, exp_rows, what, "held-stale" if stale else "held")

    def op_field_op(self, step):
        s, v, m = self.pick(step)
        if m.mixed:
            # in-place arithmetic casts back to each cell's own dtype (integer cells truncate, float32 cells
            # round): not modelled, kept away from vectors that ever received a non-float64 cell
            return False
        f = m.fields[step["f"] % m.k]
        o = step["operator"]
        c = SCALARS[step["scalar"]]
        if o == "/" and c == 0.0:
            c = 4.0
        what = "v#%d[%r] %s= %r" % (s, f, o, c)

        def fn():
            if o == "+":
                v[f] += c
            elif o == "-":
                v[f] -= c
            elif o == "*":
                v[f] *= c
            else:
                v[f] /= c

        self.must(what, fn)
        m.apply_field(f, {"+": lambda x: x + c, "-": lambda x: x - c, "*": lambda x: x * c, "/": lambda x: x / c}[o])

    def op_field_callable(self, step):
        if self.ctx.is_open(KEY_CALLABLE):
            self.ctx.exclude(KEY_CALLABLE)
            return False
        s, v, m = self.pick(step)
        if m.mixed:
            return False  # (see op_field_op)
        f = m.fields[step["f"] % m.k]
        sut_fn, model_fn = FUNCS[step["fn"]]
        what = "v#%d[%r] = <function %s> (callable assignment, class docstring 'Apply a function to a field')" % (s, f, step["fn"])
        try:
            self.must(what, lambda: v.__setitem__(f, sut_fn))
        except core.Violation as e:
            raise core.Violation(e.msg, e.case, key=KEY_CALLABLE)
        m.apply_field(f, model_fn)

    def op_field_set_flat(self, step):
        s, v, m = self.pick(step)
        f = m.fields[step["f"] % m.k]
        n = len(m.field_flat(f))
        nbad = max(0, n + step["bad_len"])
        bad = nbad != n
        # integer-valued for vectors with non-float64 cells (exact in every cell dtype used)
        values = [val(step["seed"], t, 1) * (2 if m.mixed else 1) for t in range(nbad)]
        via = step["via"]
        arg = list(values) if via == "list" else np.array(values, dtype=np.float64)
        if via == "setitem_str":
            what = "v#%d[%r] = <%d values> (field has %d)" % (s, f, nbad, n)
            fn = lambda: v.__setitem__(f, arg)  # noqa: E731
        else:
            what = "v#%d[%r].set_flattened(<%s of %d values>) (field has %d)" % (s, f, type(arg).__name__, nbad, n)
            fn = lambda: v[f].set_flattened(arg)  # noqa: E731
        ok, _ = self.call(what, fn, ValueError if bad else None)
        if bad:
            if ok:
                self.viol("%s accepted a wrong number of values" % what)
            self.classes.append("rejected:flat-length")
            return
        m.set_field_flat(f, values)

    def op_field_roundtrip(self, step):
        s, v, m = self.pick(step)
        f = m.fields[step["f"] % m.k]
        what = "v#%d[%r].set_flattened(v#%d[%r].flatten())" % (s, f, s, f)
        self.must(what, lambda: v[f].set_flattened(v[f].flatten()))
        # model unchanged: writing the flattened view back must restore the same data

    def op_add_fields(self, step):
        s, v, m = self.pick(step)
        names = [NAME_POOL[i] for i in step["names"]]
        if step["form"] == "str":
            names = names[:1]
        if m.k + len(names) > MAX_FIELDS:
            return False
        arg = names[0] if step["form"] == "str" else (tuple(names) if step["form"] == "tuple" else list(names))
        illegal = bool(set(names) & set(m.fields)) or len(set(names)) != len(names)
        what = "v#%d.add_fields(%r) (fields %r)" % (s, arg, m.fields)
        ok, _ = self.call(what, lambda: v.add_fields(arg), ValueError if illegal else None)
        if illegal:
            if ok:
                self.viol("%s accepted existing / duplicate names" % what)
            self.classes.append("rejected:add_fields")
            return
        m.add_fields(names)
        self.flags["fieldchange"] = True

    def op_remove_fields(self, step):
        s, v, m = self.pick(step)
        names = []
        for p in step["picks"]:
            p = p % (m.k + 2)
            names.append(m.fields[p] if p < m.k else "nope_%d" % (p - m.k))
        if step["form"] == "str":
            names = names[:1]
        while len(set(names) & set(m.fields)) >= m.k:  # keep at least one field
            names.pop()
        if not names:
            return False
        arg = names[0] if step["form"] == "str" else (tuple(names) if step["form"] == "tuple" else list(names))
        what = "v#%d.remove_fields(%r) (fields %r)" % (s, arg, m.fields)
        self.must(what, lambda: v.remove_fields(arg))
        if set(names) & set(m.fields):
            self.flags["fieldchange"] = True
            if len(set(names) & set(m.fields)) == m.k - 1:
                self.classes.append("remove:all-but-one")
        if set(names) - set(m.fields):
            self.classes.append("remove:missing-name")
        m.remove_fields(names)

    def op_copy(self, step):
        s, v, m = self.pick(step)
        Vector = _V()
        if step.get("meta_before") is not None:
            # give the source a nested mutable metadata value first ...
            self.op_meta_set({"slot": step["slot"], "key": len(META_KEYS) - 1, "value": step["meta_before"]})
        c = self.must("v#%d.copy()" % s, v.copy)
        if not isinstance(c, Vector) or c is v:
            self.viol("v#%d.copy() returned %s" % (s, _short(c)))
        cm = m.copy()
        md = c.metadata
        # the statement promises independence, not that metadata is carried over: a copy may start with
        # the source's metadata or with none
        if isinstance(md, dict) and md == {} and m.metadata != {}:
            cm.metadata = {}
            self.ctx.count("copy-starts-with-empty-metadata")
        d = self.place(step["dst"], [c, cm], avoid=s)
        self.classes.append("copy->#%d" % d)
        if step.get("poke"):
            # ... and mutate it in place on one side afterwards (skipped when there is no list value)
            self.check_all("after copy")
            self.op_meta_append({"slot": s if step["poke"] == 1 else d, "key": step["dst"], "x": 7})

    def op_create(self, step):
        v, m = self.create(step["spec"])
        self.place(step["dst"], [v, m])

    def op_meta_set(self, step):
        s, v, m = self.pick(step)
        key = META_KEYS[step["key"]]
        value = copy.deepcopy(step["value"])
        self.must("v#%d.metadata[%r] = %r" % (s, key, value), lambda: v.metadata.__setitem__(key, copy.deepcopy(value)))
        m.metadata[key] = value

    def op_meta_append(self, step):
        s, v, m = self.pick(step)
        lists = [k for k in META_KEYS if isinstance(m.metadata.get(k), list)]
        if not lists:
            return False
        key = lists[step["key"] % len(lists)]
        self.must("v#%d.metadata[%r].append(%r)" % (s, key, step["x"]), lambda: v.metadata[key].append(step["x"]))
        m.metadata[key].append(step["x"])


def _short(o):
    r = repr(o)
    return "%s %s" % (type(o).__name__, r if len(r) < 200 else r[:200] + "...")


# ------------------------------------------------------------------------------------------------
def check(ctx, case):
    h = History(ctx, case)
    try:
        _run(ctx, case, h)
    finally:
        # leave nothing behind for the next case even if the vectors of this one shared state with
        # vectors created later (public API only); keeps every reported case self-contained
        for v, _m in h.live + h.dropped:
            try:
                v.metadata.clear()
            except Exception:  # noqa: BLE001
                pass


def _run(ctx, case, h):
    h.live.append(list(h.create(case["init"])))
    if h.live[0][1].ndim != 2:
        h.flags["non2d"] = True
    h.check_all("after creation")
    for step in case["steps"]:
        h.apply(step)
    # end of history: writing every field's flattened view back restores the same data
    for s, (v, m) in enumerate(h.live):
        for f in m.fields:
            h.must("v#%d[%r].set_flattened(v#%d[%r].flatten())" % (s, f, s, f), lambda: v[f].set_flattened(v[f].flatten()))
    h.nstep += 1
    h.check_all("after writing every flattened field back at the end")
    fl = h.flags
    nontrivial = fl["executed"] > 0 and ((fl["fieldchange"] and fl["assign"] and fl["slice"]) or fl["non2d"])
    classes = sorted(set(h.classes))
    classes.append("len:%d" % min(len(case["steps"]), 30))
    if fl["fieldchange"] and fl["assign"] and fl["slice"]:
        classes.append("fieldchange+assign+slice")
    if fl["non2d"]:
        classes.append("touches-non-2d")
    ctx.record(case, nontrivial, classes)


def _minimise(ctx, viol):
    """deterministic post-pass on the case Hypothesis settled on: drop steps (last to first, repeated)
    while the shortened history still violates the property.  Uses a private Ctx so nothing is counted."""
    case = viol.case
    if not isinstance(case, dict) or "steps" not in case:
        return viol
    q = core.Ctx(ctx.prop_id, ctx.tier, ctx.seed, ctx.widx, ctx.nworkers, open_findings=list(ctx.open_findings.values()))
    try:
        changed = True
        while changed:
            changed = False
            for i in reversed(range(len(case["steps"]))):
                if len(case["steps"]) == 1:
                    break
                c2 = dict(case, steps=case["steps"][:i] + case["steps"][i + 1:])
                try:
                    check(q, c2)
                except core.Violation as e:
                    case, viol, changed = c2, core.Violation(e.msg, c2, e.key), True
    finally:
        q.cleanup()
    return viol


def search(ctx):
    try:
        _search(ctx)
    except core.Violation as v:
        raise _minimise(ctx, v)


def _search(ctx):
    core.run_given(ctx, "histories", histories(30 if ctx.thorough else 15), lambda c: check(ctx, c), ctx.n(1000, 4000))

"""C13 — image registration returns the applied shift with a consistent sign convention.

Ground truth: `im = T_s(ref)` built by an independent float64 Fourier translation (np.roll for
integer s).  Expected estimate: -s on the periodic cell, reported in the centred cell.  See
vq/refs/c13_shift.py for the image families and the two domain guards of the sub-pixel clause.
"""

from __future__ import annotations

import math
import os

import numpy as np
from hypothesis import strategies as st

from vq import core
from vq.refs import c13_shift as R

UPS = [1, 2, 3, 4, 8, 16, 32, 64]
ESTIMATORS = ["numpy", "torch", "torch_fourier"]

# sub-pixel clause, domain guards (both are functions of the generated inputs only)
GUARD_PARABOLA = 0.15  # textbook 3-point estimate within 0.15 px of the truth
GUARD_SKEW = 0.06  # per-axis refinement of a skewed peak off by <= 0.06 sampling steps
GUARD_QUANT = 0.02  # integer-dtype images: rounding moves the correlation peak by <= 0.02 px

_MEASURE = bool(os.environ.get("VQ_C13_MEASURE"))


def _q():
    import quantem.core.utils.imaging_utils as iu

    return iu


# ------------------------------------------------------------------------------------------------
# generators
# ------------------------------------------------------------------------------------------------
_FRACS = [0.5, 0.25, 0.75, 0.125, 0.01, 0.99, 1.0 / 3.0, 0.49, 0.51]


@st.composite
def _coord(draw, n, kind):
    i = draw(st.integers(0, n - 1) | st.sampled_from([0, 1, n // 2, n // 2 + 1, n - 1]))
    if kind == "int":
        return int(i)
    f = draw(st.sampled_from(_FRACS) | st.floats(0.0, 1.0, exclude_max=True, allow_nan=False))
    return min(float(i) + float(f), float(np.nextafter(float(n), 0.0)))


@st.composite
def images(draw, allow_noise, dtype):
    kinds = ["sym", "blob", "field"] + (["noise"] if allow_noise else [])
    t = draw(st.sampled_from(kinds))
    spec = {"type": t, "seed": draw(st.integers(0, 2**31 - 1))}
    # float32 correlations lose the peak curvature under a large pedestal: no offset there
    spec["offset"] = 0.0 if dtype == "float32" else draw(st.sampled_from([0.0, 0.0, 0.5, 2.0]))
    if t != "noise":
        cf = st.floats(0.2, 0.6, allow_nan=False)
        spec["cut"] = [draw(cf), draw(cf)]
    if t == "sym":
        wf = st.floats(0.5, 3.0, allow_nan=False)
        spec["width"] = [draw(wf), draw(wf)]
    if t == "blob":
        spec["n"] = draw(st.integers(1, 3))
    return spec


@st.composite
def cases(draw, tight_margins=True):
    h = draw(_side())
    w = draw(st.just(h) | _side())
    est = draw(st.sampled_from(["numpy", "numpy", "torch", "torch_fourier"]))
    # input dtype: None = floating point (`dtype`), else integer-valued counts stored in an integer
    # dtype (all estimator/input combinations accept those on the pinned tree; float16/bfloat16
    # are rejected by torch.fft on CPU and are not in the domain)
    in_dtype = draw(st.sampled_from([None] * 10 + sorted(R.INT_DTYPES)))
    up = draw(_ups(est, in_dtype, max(h, w) > 40))
    sk = draw(st.sampled_from(["int", "real", "real", "zero"]))
    dtype = "float64" if (est == "numpy" or in_dtype) else draw(st.sampled_from(["float64", "float64", "float32"]))
    case = {
        "h": h,
        "w": w,
        "est": est,
        "up": up,
        "dtype": dtype,
        "shift_kind": sk,
        "img": draw(images(allow_noise=(sk != "real"), dtype=dtype)),
    }
    if in_dtype:
        case["in_dtype"] = in_dtype
        case["img"]["offset"] = 0.0  # the pedestal of unsigned data comes from R.INT_DTYPES
    case["shift"] = [0, 0] if sk == "zero" else draw(_shift(h, w, sk))
    case.update(draw(_route(est)))
    if est == "numpy":
        case["fft_input"] = draw(st.booleans())
        case["ret_img"] = draw(st.booleans())
        case["fft_output"] = draw(st.booleans()) if case["ret_img"] else False
        # None, or the true (centred) shift length plus a margin.  For sub-pixel shifts the margin
        # keeps the peak pixel and its parabola neighbours inside the allowed disc (the pixel
        # nearest to a sub-pixel peak may otherwise be excluded, which no estimator can undo); for
        # integer shifts the peak pixel is the shift itself, so any positive margin is in domain.
        case["max_shift_margin"] = draw(st.none() | st.sampled_from(_margins(sk, tight_margins)))
    # HISTORY: for ~40% of the cases the input arrays (real-space images and, for Fourier-space
    # input, their FFTs; numpy arrays and torch tensors sharing memory where the dtype allows) are
    # built once and 1-2 further registrations with independently drawn settings run on the SAME
    # array objects.  The estimate depends only on the two images, so every call is judged alike.
    nh = draw(st.sampled_from([0, 0, 0, 1, 2]))
    if nh:
        kind = "fft" if (est == "numpy" and case["fft_input"]) or est == "torch_fourier" else "real"
        case["history"] = [draw(_step(kind, dtype, sk, tight_margins, in_dtype, h, w)) for _ in range(nh)]
    return case


@st.composite
def _side(draw):
    """Image side: 8..40 with explicit parity (2*m + p) in ~5 of 6 draws, 41..128 otherwise (sides
    above 64 px are needed for shifts whose centred length reaches the 32 px the drift module
    uses as its own search radius)."""
    if draw(st.integers(0, 5)) == 0:
        return draw(st.integers(41, 128) | st.sampled_from([64, 65, 96, 100, 128]))
    return min(2 * draw(st.integers(4, 20)) + draw(st.integers(0, 1)), 40)


@st.composite
def _shift(draw, h, w, sk):
    # one axis may stay integer in a "real" case; at least one is fractional
    ky = sk if sk == "int" else draw(st.sampled_from(["real", "real", "int"]))
    kx = sk if (sk == "int" or ky == "int") else draw(st.sampled_from(["real", "real", "int"]))
    return [draw(_coord(h, ky)), draw(_coord(w, kx))]


# every module path through which the package itself reaches the estimators (plain re-exports and
# the two direct-ptychography helpers that wrap the torch estimator in a loop)
ROUTES = {
    "numpy": {
        "core": ("quantem.core.utils.imaging_utils", "cross_correlation_shift"),
        "drift": ("quantem.imaging.drift", "cross_correlation_shift"),
        "tomography_base": ("quantem.tomography.tomography_base", "cross_correlation_shift"),
        "tomography_utils": ("quantem.tomography.utils", "cross_correlation_shift"),
    },
    "torch": {
        "core": ("quantem.core.utils.imaging_utils", "cross_correlation_shift_torch"),
        "direct_ptycho_utils": ("quantem.diffractive_imaging.direct_ptycho_utils", "cross_correlation_shift_torch"),
        "dp_reference_shifts": ("quantem.diffractive_imaging.direct_ptycho_utils", "_compute_reference_shifts"),
        "dp_pairwise_shifts": ("quantem.diffractive_imaging.direct_ptycho_utils", "_compute_pairwise_shifts"),
    },
    "torch_fourier": {"core": ("quantem.core.utils.imaging_utils", "align_images_fourier_torch")},
}
# documented defaults of upsample_factor per route (used when a call leaves arguments out)
DEFAULT_UP = {"numpy": 1, "torch": 2, "dp_reference_shifts": 4, "dp_pairwise_shifts": 4}


@st.composite
def _route(draw, est):
    """How the estimator is reached: `via` = module path; `explicit` = False leaves every argument
    whose value equals the documented default of the core function out of the call (as the
    package's own callers do: tomography passes neither max_shift nor fft_input)."""
    return {"via": draw(st.sampled_from(sorted(ROUTES[est]))), "explicit": draw(st.booleans())}


def _ups(est, in_dtype, large=False):
    """Upsample factors.  cross_correlation_shift_torch converts integer tensors to float32; with
    the pedestal of unsigned data its float32 correlation loses the peak curvature at high
    upsampling (measured on the pinned tree: 1.2 upsampled px at up=64, 0.07 at 16, 0.023 at 8,
    for exact integer shifts), the same rounding limit as a pedestal on float32 images: up <= 8,
    and up <= 2 (no upsampled stage) for sides above 40 px (the pedestal's share of the float32
    correlation grows with the pixel count: 0.03-0.04 upsampled px already at up=3..8 on 128 px
    images, a third of the head-room)."""
    if est == "torch" and in_dtype and R.INT_DTYPES[in_dtype][1] != 0.0:
        if large:
            return st.sampled_from([1, 2])
        return st.sampled_from([1, 2, 3, 4, 8]) | st.integers(1, 8)
    return st.sampled_from(UPS) | st.sampled_from(UPS) | st.integers(1, 64)


def _margins(sk, tight_margins):
    m = [2.5, 4.0, 16.0, 1000.0]
    return ([0.25, 0.5, 1.0, 1.5] + m) if (tight_margins and sk != "real") else m


@st.composite
def _step(draw, kind, dtype, sk, tight_margins, in_dtype=None, h=None, w=None):
    """Settings of one further call on the already-built inputs of input kind `kind`.  With
    `refresh`, the SAME array objects are first overwritten in place with a new image pair (new
    image, new shift of the same kind): the next estimates must be those of the new content."""
    t_est = "torch" if kind == "real" else "torch_fourier"
    # the numpy estimator is only judged on float64 data (its 1e-6 exactness clause)
    est = t_est if dtype == "float32" else draw(st.sampled_from(["numpy", "numpy", t_est]))
    step = {
        "est": est,
        "up": draw(_ups(est, in_dtype, h is not None and max(h, w) > 40)),
        "swap": draw(st.booleans()),
    }
    step.update(draw(_route(est)))
    if h is not None and draw(st.booleans()):
        sk2 = "real" if sk == "real" else "int"
        img = draw(images(allow_noise=(sk2 != "real"), dtype=dtype))
        if in_dtype:
            img["offset"] = 0.0
        step["refresh"] = {"img": img, "shift": draw(_shift(h, w, sk2))}
    if est == "numpy":
        step["fft_input"] = kind == "fft"
        step["ret_img"] = draw(st.booleans())
        step["fft_output"] = draw(st.booleans()) if step["ret_img"] else False
        step["max_shift_margin"] = draw(st.none() | st.sampled_from(_margins(sk, tight_margins)))
    return step


# ------------------------------------------------------------------------------------------------
# oracle helpers
# ------------------------------------------------------------------------------------------------
def _is_int(v):
    return float(v) == math.floor(float(v))


def shift_tol(case, integer):
    """Per-axis tolerance (px) on the estimated shift.

    integer shifts ("exactly"): float64 numpy 1e-6 (measured <= 6e-11).  The torch estimator builds
    its upsampling kernels in float32 whatever the input dtype, so its parabolic refinement on the
    1/up grid carries rounding noise that grows with up: measured <= 1.3e-3 (float64 input) and
    <= 2.8e-2 (float32 input) upsampled pixels over 24 000 probe cases, <= 0.046 of the asserted
    value over 245 000 generated cases; asserted 0.02 resp. 0.3 upsampled pixels.  For up <= 2 it
    rounds to half pixels and is exact.
    real shifts: one upsampled pixel, 1/up; 0.5 px for up == 1.  Inside the guards the coarse
    stage (pixel peak + parabola, torch: rounded to half pixels) is off by <= 0.15 (+0.25) px by
    construction, and the upsampled stage was measured <= 0.05/up over 245 000 cases."""
    up = case["up"]
    if integer:
        if case["est"] == "numpy" or up <= 2:
            return 1e-6
        return (0.3 if case["dtype"] == "float32" else 0.02) / up
    if up == 1:
        return 0.5 + 1e-6
    return 1.0 / up + 1e-6


def _ratio(ctx, name, value, tol):
    r = value / tol if tol > 0 else float("inf")
    k = "max_ratio:" + name
    if r > ctx.extra.get(k, 0.0):
        ctx.extra[k] = float(r)
    return r


def _fail(msg, case):
    if _MEASURE:
        return
    raise core.Violation(msg, case)


class _Pool:
    """The two images as the array objects handed to the estimators, built once and then reused by
    every call that draws on this pool.  Both images live in one (2, h, w) stack (the layout of a
    virtual-image stack); float64 / integer dtypes: the torch tensors are views of the numpy
    arrays (torch.from_numpy), so numpy and torch calls see the very same memory; float32:
    torch-only tensors, made once.  `refresh` overwrites all of them IN PLACE with a new pair.
    The harness keeps its own pristine copies and never reads these back."""

    def __init__(self, ref, im, dtype):
        self.dtype = dtype
        self.stack = np.stack([ref, im])  # float64, or the case's integer dtype
        self.a, self.b = self.stack[0], self.stack[1]
        self._F = self._ts = self._G = None

    def refresh(self, ref, im):
        import torch

        self.a[...] = ref
        self.b[...] = im
        if self._F is not None:
            self._F[0][...] = np.fft.fft2(self.a)
            self._F[1][...] = np.fft.fft2(self.b)
        if self.dtype == "float32":
            if self._ts is not None:
                self._ts.copy_(torch.tensor(self.stack, dtype=torch.float32))
            if self._G is not None:
                ts = self.stack_t()
                self._G[0].copy_(torch.fft.fft2(ts[0]))
                self._G[1].copy_(torch.fft.fft2(ts[1]))

    def real_np(self):
        return self.a, self.b

    def fft_np(self):
        if self._F is None:
            self._F = (np.fft.fft2(self.a), np.fft.fft2(self.b))
        return self._F

    def stack_t(self):
        import torch

        if self._ts is None:
            if self.dtype == "float32":
                self._ts = torch.tensor(self.stack, dtype=torch.float32)
            else:
                self._ts = torch.from_numpy(self.stack)
        return self._ts

    def real_t(self):
        ts = self.stack_t()
        return ts[0], ts[1]

    def fft_t(self):
        import torch

        if self._G is None:
            if self.dtype == "float32":
                ta, tb = self.real_t()
                self._G = (torch.fft.fft2(ta), torch.fft.fft2(tb))
            else:
                FA, FB = self.fft_np()
                self._G = (torch.from_numpy(FA), torch.from_numpy(FB))
        return self._G


def _resolve(est, via):
    import importlib

    mod, name = ROUTES[est][via]
    return getattr(importlib.import_module(mod), name)


def _estimate(ctx, case, cfg, iu, pool, swap, what, want_img, shift):
    """Run the estimator configured by `cfg` on the pool's arrays, (reference, moving) = (ref, im)
    or (im, ref) when `swap`, through the module path cfg["via"].  `shift` is the translation the
    pool currently holds (only used to place max_shift).  Returns (shift estimate, aligned)."""
    import torch

    est, up = cfg["est"], int(cfg["up"])
    via = cfg.get("via", "core")
    explicit = bool(cfg.get("explicit", True))
    aligned = None

    def order(pair):
        return (pair[1], pair[0]) if swap else pair

    with ctx.sut(case, what):
        fn = _resolve(est, via)
        if est == "numpy":
            ms = None
            if cfg.get("max_shift_margin") is not None:
                d = (R.wrap_centered(-float(shift[0]), case["h"]), R.wrap_centered(-float(shift[1]), case["w"]))
                ms = math.hypot(*d) + float(cfg["max_shift_margin"])
            A, B = order(pool.fft_np() if cfg["fft_input"] else pool.real_np())
            kw = dict(upsample_factor=up, max_shift=ms, fft_input=bool(cfg["fft_input"]))
            if want_img:
                kw.update(return_shifted_image=True, fft_output=bool(cfg["fft_output"]))
            if not explicit:
                # leave out what equals the documented default of the core function
                dflt = dict(upsample_factor=DEFAULT_UP["numpy"], max_shift=None, fft_input=False, fft_output=False)
                kw = {k: v for k, v in kw.items() if not (k in dflt and v == dflt[k] and type(v) is type(dflt[k]))}
            out = fn(A, B, **kw)
            r, aligned = out if want_img else (out, None)
        elif est == "torch":
            ta, tb = order(pool.real_t())
            if via == "dp_reference_shifts":
                ts = pool.stack_t()
                kw = {} if (not explicit and up == DEFAULT_UP[via]) else {"upsample_factor": up}
                r = fn(ts[0:1] if swap else ts[1:2], ta, **kw)[0]
            elif via == "dp_pairwise_shifts":
                kw = {} if (not explicit and up == DEFAULT_UP[via]) else {"upsample_factor": up}
                res = fn(pool.stack_t(), torch.tensor([[1, 0]] if swap else [[0, 1]]), **kw)
                r = res[0][2]
            else:
                kw = {} if (not explicit and up == DEFAULT_UP["torch"]) else {"upsample_factor": up}
                r = fn(ta, tb, **kw)
            r = r.detach().cpu().numpy()
        else:
            G1, G2 = order(pool.fft_t())
            r = fn(G1, G2, up).detach().cpu().numpy()
    try:
        r = np.asarray(r, dtype=np.float64).ravel()
    except (TypeError, ValueError):
        # e.g. a (shifts, image) tuple although no aligned image was requested
        raise core.Violation("%s: result is not a pair of numbers: %s" % (what, repr(r)[:200]), case)
    if r.shape != (2,) or not np.all(np.isfinite(r)):
        raise core.Violation("%s: result is not a finite pair: %r" % (what, r.tolist()[:8]), case)
    if aligned is not None:
        aligned = np.asarray(aligned)
        if aligned.shape != pool.a.shape:
            raise core.Violation("%s: aligned image has shape %s, input %s" % (what, aligned.shape, pool.a.shape), case)
    return r, aligned


def _judge(ctx, case, cfg, iu, pool, T, k, inner_swap):
    """One registration call with settings `cfg` (call number k of the case), judged against the
    ground truth T.  With cfg["swap"] the roles are exchanged: reference = im, moving = ref, and
    the applied translation is -s."""
    h, w, spec = T["h"], T["w"], T["spec"]
    up, est = int(cfg["up"]), cfg["est"]
    integer, identical, guard_ok = T["integer"], T["identical"], T["guard_ok"]
    swap = bool(cfg.get("swap"))
    # ref/im: what the estimator sees (as float64); refX/imX: the exact pair im = T_s(ref) they were
    # rounded from (the same arrays unless the case is a sub-pixel shift of integer-dtype data)
    if swap:
        ref, im, refX, imX, s = T["im"], T["ref"], T["imX"], T["refX"], (-T["s"][0], -T["s"][1])
    else:
        ref, im, refX, imX, s = T["ref"], T["im"], T["refX"], T["imX"], T["s"]
    qsub = T["qsub"]
    exp = (R.wrap_centered(-float(s[0]), h), R.wrap_centered(-float(s[1]), w))
    # working precision of the torch routines: float32 for float32 tensors and for integer tensors
    # handed to cross_correlation_shift_torch (torch.fft promotes them to float32)
    f32 = case["dtype"] == "float32" or (est == "torch" and bool(case.get("in_dtype")))
    tcfg = dict(cfg, dtype="float32" if f32 else "float64")
    tag = "" if k == 0 else "call #%d on the same input arrays%s (%s, up=%d%s): " % (
        k + 1, T.get("note", ""), est, up, ", roles swapped" if swap else "")
    if cfg.get("via", "core") != "core":
        tag += "via %s.%s: " % ROUTES[est][cfg["via"]]

    want_img = est == "numpy" and bool(cfg.get("ret_img"))
    r, aligned = _estimate(ctx, case, cfg, iu, pool, swap, tag + "estimate(ref, im)", want_img, T["s"])
    # + the displacement of the correlation peak caused by rounding the two images to integers
    #   (0 unless qsub; computed by the harness from the pair itself, see R.true_peak)
    tol = shift_tol(tcfg, integer) + T["qdelta"]
    scale = float(np.max(np.abs(im)))

    # -- the aligned image is `im` translated by the *returned* shift (holds whatever the accuracy)
    if aligned is not None:
        al = np.real(np.fft.ifft2(aligned)) if cfg["fft_output"] else aligned
        if np.iscomplexobj(al):
            raise core.Violation(tag + "aligned image (fft_output=False) is complex", case)
        mine = R.fourier_shift(im, (r[0], r[1]))
        e = float(np.max(np.abs(R.drop_nyquist(al - mine)))) if qsub else core.maxerr(al, mine)
        _ratio(ctx, "aligned_vs_T_r(im)", e, 1e-6 * scale)
        if e > 1e-6 * scale:
            _fail(tag + "aligned image is not im translated by the returned shift %r: max|diff| = %.3g (image scale %.3g)" % (r.tolist(), e, scale), case)

    # -- reported in the centred cell (not for the Fourier-level torch routine, which reports a
    #    position on the correlation grid and leaves the wrap to its caller)
    if est != "torch_fourier":
        if not (-h / 2.0 - 1e-9 <= r[0] <= h / 2.0 + 1e-9 and -w / 2.0 - 1e-9 <= r[1] <= w / 2.0 + 1e-9):
            _fail(tag + "returned shift %r is outside the centred cell of a %dx%d image" % (r.tolist(), h, w), case)

    if not guard_ok:
        return

    # -- the returned shift is the applied translation (sign: moving `im` by it gives `ref`)
    ey, ex = R.circ_err(r[0], exp[0], h), R.circ_err(r[1], exp[1], w)
    err = max(ey, ex)
    stage = "" if integer else (":coarse_only" if up == 1 or (up == 2 and est != "numpy") else ":upsampled")
    if case.get("in_dtype"):
        stage += ":unsigned" if R.INT_DTYPES[case["in_dtype"]][1] else ":signed"
    _ratio(ctx, "shift:%s:%s%s" % ("int" if integer else "sub", est, stage), err, tol)
    # No hypothesis.target(): with Hypothesis 6.168 the target optimiser's hill climb was observed
    # (seed 12345) to spin for > 10 min inside cached simulations without executing a single test.
    # The error is steered by construction instead (fractional parts at the rounding boundaries);
    # the worst error/tolerance ratios seen are reported in the evidence under coverage.extra.
    if err > tol:
        _fail(
            tag
            + "%s up=%d on a %dx%d %s image translated by %r: returned %r, expected %r (error %.3g px > %.3g px)"
            % (est, up, h, w, spec["type"], list(s), r.tolist(), list(exp), err, tol),
            case,
        )

    # -- translating im by the returned shift reproduces ref; so does the returned aligned image
    gy, gx = T["grad"]
    itol = 1.05 * tol * (gy + gx) + 1e-6 * scale
    e = core.maxerr(R.fourier_shift(imX, (r[0], r[1])), refX)
    _ratio(ctx, "T_r(im)_vs_ref", e, itol)
    if e > itol:
        _fail(tag + "im translated by the returned shift %r differs from ref by %.3g (> %.3g)" % (r.tolist(), e, itol), case)
    if aligned is not None:
        if qsub:
            # al - ref = [T_r(imX) - refX] + [T_r(n_im) - n_ref] with n the rounding noise of each image
            noise = R.drop_nyquist(R.fourier_shift(im - imX, (r[0], r[1])) - (ref - refX))
            e, atol = float(np.max(np.abs(R.drop_nyquist(al - ref)))), itol + float(np.max(np.abs(noise)))
        else:
            e, atol = core.maxerr(al, ref), itol
        _ratio(ctx, "aligned_vs_ref", e, atol)
        if e > atol:
            _fail(tag + "returned aligned image differs from the reference by %.3g (> %.3g)" % (e, atol), case)

    # -- swapping the two images negates the result (on the periodic cell)
    if inner_swap is not None and not identical:
        if inner_swap is pool:
            tag = tag or "second call on the same input arrays: "
        r2, _ = _estimate(ctx, case, cfg, iu, inner_swap, not swap, tag + "estimate(im, ref)", False, T["s"])
        sy, sx = R.circ_err(r2[0], -r[0], h), R.circ_err(r2[1], -r[1], w)
        _ratio(ctx, "swap", max(sy, sx), 2 * tol)
        if max(sy, sx) > 2 * tol:
            _fail(tag + "swapping the images does not negate the shift: %r vs %r" % (r.tolist(), r2.tolist()), case)


def _truth(case, spec, s):
    """Ground truth for one image pair: builds ref and im = T_s(ref) (in the case's input dtype),
    decides the sub-pixel domain guards, and returns (T, arr_ref, arr_im) with arr_* the arrays to
    hand to the estimators."""
    h, w = int(case["h"]), int(case["w"])
    s = (s[0], s[1])
    integer = _is_int(s[0]) and _is_int(s[1])
    identical = float(s[0]) == 0.0 and float(s[1]) == 0.0
    if spec["type"] == "noise" and not integer:
        raise core.HarnessError("white-noise images are only defined for integer shifts")
    ref = R.make_image(spec, h, w)
    in_dtype = case.get("in_dtype")
    qsub, qdelta = False, 0.0
    if in_dtype:
        ref = ref / float(np.max(np.abs(ref)))
    im = ref.copy() if identical else R.fourier_shift(ref, s)
    refX, imX = ref, im
    arr_ref, arr_im = ref, im  # the arrays handed to the estimators
    if in_dtype:
        A, P = R.INT_DTYPES[in_dtype]
        arr_ref = R.quantise(ref, in_dtype)
        if integer:
            # exact clause: an integer image and its integer circular shift
            arr_im = np.roll(arr_ref, (int(s[0]), int(s[1])), axis=(0, 1))
            ref = refX = arr_ref.astype(np.float64)
            im = imX = arr_im.astype(np.float64)
        else:
            # sub-pixel clause: translate the float field, then round both images
            arr_im = R.quantise(im, in_dtype)
            qsub = True
            refX, imX = A * ref + P, A * im + P
            ref, im = arr_ref.astype(np.float64), arr_im.astype(np.float64)

    # sub-pixel clause only: is this (image, shift) inside the domain of two-stage registration?
    # (both guards are invariant under exchanging the roles of the two images: the correlation is
    # mirrored and the power spectrum is unchanged)
    guard_ok = True
    if not integer:
        perr = R.peak_conditioning(ref, s, im=im)
        skew = R.skew_bound(ref)
        guard_ok = perr <= GUARD_PARABOLA and skew <= GUARD_SKEW
        if qsub:
            # where the correlation peak of the rounded pair really is (float64 Newton iteration)
            dq = R.true_peak(ref, im, (-float(s[0]), -float(s[1])))
            if dq is None:
                guard_ok = False
            else:
                qdelta = max(abs(dq[0] + float(s[0])), abs(dq[1] + float(s[1])))
                guard_ok = guard_ok and qdelta <= GUARD_QUANT
    T = dict(h=h, w=w, spec=spec, ref=ref, im=im, s=(float(s[0]), float(s[1])) if not integer else (s[0], s[1]),
             integer=integer, identical=identical, guard_ok=guard_ok, grad=R.grad_bounds(refX),
             refX=refX, imX=imX, qsub=qsub, qdelta=float(qdelta))
    return T, arr_ref, arr_im


def check(ctx, case):
    iu = _q()
    h, w, up, est = int(case["h"]), int(case["w"]), int(case["up"]), case["est"]
    s = (case["shift"][0], case["shift"][1])
    spec = case["img"]
    in_dtype = case.get("in_dtype")
    T, arr_ref, arr_im = _truth(case, spec, s)
    integer, identical, guard_ok = T["integer"], T["identical"], T["guard_ok"]
    beyond = (float(s[0]) % h) > h / 2.0 or (float(s[1]) % w) > w / 2.0
    history = list(case.get("history") or [])
    d0 = (R.wrap_centered(-float(s[0]), h), R.wrap_centered(-float(s[1]), w))

    classes = [
        "est:" + est,
        "up:%d" % up,
        "img:" + spec["type"],
        "dtype:" + case["dtype"],
        "in_dtype:" + (in_dtype or case["dtype"]),
        "shift:" + ("identical" if identical else "integer" if integer else "subpixel"),
        "parity:%s%s" % ("eo"[h % 2], "eo"[w % 2]),
        "size:" + ("8-40" if max(h, w) <= 40 else "41-128"),
        "via:%s:%s" % (est, case.get("via", "core")),
        "args:" + ("explicit" if case.get("explicit", True) else "defaults_omitted"),
    ]
    if h != w:
        classes.append("nonsquare")
    if beyond:
        classes.append("beyond_half")
    if math.hypot(*d0) >= 32.0:
        classes.append("shift_radius>=32px")
        if est == "numpy" and case.get("max_shift_margin") is None and case.get("via", "core") != "core":
            classes.append("shift_radius>=32px:no_max_shift:via_reexport")
    if not integer:
        classes.append("subpixel_guard:" + ("ok" if guard_ok else "outside_domain"))
    if est == "numpy":
        classes.append("fft_input" if case["fft_input"] else "real_input")
        if case["ret_img"]:
            classes.append("aligned_image:" + ("fourier" if case["fft_output"] else "real"))
        mm = case.get("max_shift_margin")
        classes.append("max_shift:" + ("none" if mm is None else "tight" if mm < 2.5 else "set"))
    if history:
        classes.append("reused_inputs")
        classes.append("reused_inputs:calls=%d" % (1 + len(history)))
        prev = ("torch", "b" if (not identical and guard_ok) else "a") if est == "torch" else None
        for st_ in history:
            classes.append("reused_by:" + st_["est"] + ("+swapped" if st_.get("swap") else ""))
            if st_.get("via", "core") != "core":
                classes.append("via:%s:%s" % (st_["est"], st_["via"]))
            if st_.get("refresh"):
                classes.append("refreshed_in_place")
                # same estimator, same array in the reference role, content replaced in between
                if st_["est"] == "torch" and prev == ("torch", "b" if st_.get("swap") else "a"):
                    classes.append("refreshed_in_place:torch_same_reference_as_previous_call")
            prev = (st_["est"], "b" if st_.get("swap") else "a")
    nontrivial = ((not integer) and up >= 2 and guard_ok) or beyond or (h != w)
    ctx.record(case, bool(nontrivial), classes)

    cfg0 = {k: case[k] for k in ("est", "up", "fft_input", "ret_img", "fft_output", "max_shift_margin", "via", "explicit") if k in case}
    pool = _Pool(arr_ref, arr_im, case["dtype"])
    # without a history every call gets freshly built arrays (the swapped-argument call included);
    # with one, all calls of the case, the swapped-argument call too, share one set of arrays
    _judge(ctx, case, cfg0, iu, pool, T, 0, pool if history else _Pool(arr_ref, arr_im, case["dtype"]))
    for k, cfg in enumerate(history, start=1):
        if cfg.get("refresh"):
            # new content written into the SAME array objects
            T, arr_ref, arr_im = _truth(case, cfg["refresh"]["img"], cfg["refresh"]["shift"])
            T["note"] = " after their content was replaced in place"
            pool.refresh(arr_ref, arr_im)
        _judge(ctx, case, cfg, iu, pool, T, k, None)


# key of the known-finding entry to use if the max_shift refinement defect is recorded rather than
# fixed: the generator then keeps max_shift at least 2.5 px away from the true shift
KEY_MAX_SHIFT = "max-shift-masks-refinement"


def search(ctx):
    tight = not ctx.is_open(KEY_MAX_SHIFT)
    if not tight:
        ctx.exclude(KEY_MAX_SHIFT)
    core.run_given(ctx, "cases", cases(tight_margins=tight), lambda c: check(ctx, c), ctx.n(4000, 48000))

"""C09 — mini-batch scheduling: exact partition, batch invariance, seeded determinism.

Four case kinds, each judged only against what the property states:

batcher      SimpleBatcher(n, b, shuffle, rng, val_ratio, val_mode): train/val are a partition of range(n);
             over two consecutive epochs every training index is yielded exactly once per epoch, every batch
             has <= b items and only the last is short, len() == number yielded; iter_val covers the
             validation set exactly once and val_len() == number yielded; a second batcher built from the
             same seed has the same split and yields the same order; shuffle=False yields ascending order.
split        subdivide_batches / generate_batches: contiguous, disjoint, covering, balanced (sizes differ by
             <= 1), <= max_batch, == num_batches.
invariance   Ptychography.reconstruct on a tiny problem, all optimisers = SGD(lr=0) subclass that records
             .grad at every step (passed through the public `optimizer_params={"type": <class>}` route), one
             epoch per batch size: for every divisor b of the number of training patterns, the recorded
             epoch loss (= mean of the per-batch losses) and the mean over batches of the recorded
             gradients equal those of the single full batch.  A spy on dset.forward records which
             patterns every batch visits (exactly-once / disjoint / cover, at reconstruct level).
determinism  two identically seeded Ptychography instances and one reconstruct(reset=True) re-run, real
             optimisers, drawn (mostly non-dividing) batch size, optional validation split: iter_losses,
             iter_val_losses and the visiting order are bit-identical.

Every case is a pure function of the integers / floats stored in it."""

from __future__ import annotations

import gc

import numpy as np
from hypothesis import strategies as st

from vq import core
from vq.gen import c09_build as B
from vq.refs import c09_ref as ref

LOSS_TYPES = ["l2_amplitude", "l1_amplitude", "l2_intensity", "l1_intensity", "poisson"]

# Tolerances for the invariance kind.  loss: relative to |full-batch loss| (l1/l2 losses are sums of
# non-negative terms, so this is well conditioned; the Poisson loss can in principle cancel, so its
# scale is floored at 0.5 per pattern -- with the generator's normalised data it is 1.8-2.4 per pattern
# and every term is positive).  grad: relative to the largest |component| of the full-batch gradient
# of the same parameter tensor.
# Measured on the clean tree over ~1200 cases: float64 loss <= 3.8e-16, gradients <= 1.5e-14;
# float32 loss <= 2.4e-7, object/probe gradients <= 4.5e-6, dataset (descan / scan position)
# gradients <= 6.1e-5.  The float32 errors are heavy-tailed: different batch shapes take different
# FFT/reduction paths, and 1/sqrt(I+1e-9) resp. 1/(I+1e-6) weights amplify last-bit differences at dark
# pixels (the float32 full-batch gradient itself is only 5e-5 from the float64 one in the worst
# case seen), hence the wide float32 margins; the float64 half of the cases carries the sharp test.
# Batch-fraction scaling errors are O(1) (>= 1/2 for two batches).
TOL = {
    False: {"loss": 1e-4, "grad:object": 1e-3, "grad:probe": 1e-3, "grad:dataset": 1e-2},  # float32 / complex64
    True: {"loss": 1e-10, "grad:object": 1e-8, "grad:probe": 1e-8, "grad:dataset": 1e-8},  # float64 / complex128
}

STATS = {}

_READY = False


def q():
    """quantem handles; on first use freeze the objects allocated by the imports so that the two
    gc.collect() calls at the end of every reconstruct() do not rescan them (0.3 s -> 0.08 s per
    call; no effect on results)."""
    global _READY
    Q = B.q()
    if not _READY:
        gc.collect()
        gc.freeze()
        _READY = True
    return Q


def _fail(case, msg):
    raise core.Violation(msg, case)


def _stat(key, ratio):
    if ratio > STATS.get(key, -1.0):
        STATS[key] = ratio


# ================================================================================================
# part 1: SimpleBatcher
# ================================================================================================
def _check_batcher(ctx, case):
    Q = q()
    n, b = int(case["n"]), case["b"]
    shuffle, seed = bool(case["shuffle"]), int(case["seed"])
    ratio, mode, kind = float(case["val_ratio"]), case["val_mode"], case["rng"]
    bs = n if b is None else int(b)
    classes = ["batcher", "batcher:val_" + (mode if ratio > 0 else "none"), "batcher:rng_" + kind]
    classes.append("batcher:shuffle" if shuffle else "batcher:ordered")
    if b is None:
        classes.append("batcher:b_none")
    elif bs > n:
        classes.append("batcher:b_gt_n")
    elif bs == 1:
        classes.append("batcher:b_1")
    if n % bs:
        classes.append("batcher:b_not_dividing_n")
    if ratio > 0.5:
        classes.append("batcher:val_ratio_gt_half")
    ctx.record(case, bool(n % bs != 0 or ratio > 0), classes)

    def mk():
        r = seed if kind == "int" else np.random.default_rng(seed)
        return Q.SimpleBatcher(n, b, shuffle=shuffle, rng=r, val_ratio=ratio, val_mode=mode)

    with ctx.sut(case, "SimpleBatcher(...)"):
        A, A2 = mk(), mk()
        train, val = np.asarray(A.train_indices).tolist(), np.asarray(A.val_indices).tolist()
        train2, val2 = np.asarray(A2.train_indices).tolist(), np.asarray(A2.val_indices).tolist()
    err = ref.partition_error(train, val, n)
    if err:
        _fail(case, "train/validation split is not a partition of range(%d): %s" % (n, err))
    if train != train2 or val != val2:
        _fail(case, "two batchers built from the same seed have different train/validation splits")
    if not train:
        ctx.count("batcher:train_empty")
    train_sorted, val_sorted = sorted(train), sorted(val)

    for epoch in (0, 1):
        with ctx.sut(case, "iterating SimpleBatcher (epoch %d)" % epoch):
            reported = len(A)
            batches = [np.asarray(x).tolist() for x in A]
            batches2 = [np.asarray(x).tolist() for x in A2]
        if reported != len(batches):
            _fail(case, "epoch %d: len(batcher) == %d but %d batches were yielded" % (epoch, reported, len(batches)))
        err = ref.epoch_error(batches, train_sorted, bs)
        if err:
            _fail(case, "epoch %d: %s" % (epoch, err))
        if batches != batches2:
            _fail(case, "epoch %d: two batchers built from the same seed yield different batches" % epoch)
        if not shuffle and [i for bt in batches for i in bt] != train_sorted:
            _fail(case, "epoch %d: shuffle=False does not yield the training indices in ascending order" % epoch)

    with ctx.sut(case, "SimpleBatcher.iter_val / val_len"):
        vreported = A.val_len()
        vb = [np.asarray(x).tolist() for x in A.iter_val()]
        vb_again = [np.asarray(x).tolist() for x in A.iter_val()]
    if vreported != len(vb):
        _fail(case, "val_len() == %d but iter_val yielded %d batches" % (vreported, len(vb)))
    err = ref.epoch_error(vb, val_sorted, bs)
    if err:
        _fail(case, "validation pass: %s" % err)
    err = ref.epoch_error(vb_again, val_sorted, bs)
    if err:
        _fail(case, "second validation pass: %s" % err)


# ================================================================================================
# part 1: subdivide_batches / generate_batches
# ================================================================================================
def _check_split(ctx, case):
    Q = q()
    n, nb, mb, start = int(case["n"]), case["num_batches"], case["max_batch"], int(case["start"])
    uneven = (n % nb != 0) if nb is not None else (n % mb != 0 and mb < n)
    classes = ["split", "split:num_batches" if nb is not None else "split:max_batch"]
    if mb is not None and mb >= n:
        classes.append("split:max_batch_ge_n")
    ctx.record(case, bool(uneven), classes)
    with ctx.sut(case, "subdivide_batches"):
        sizes = list(Q.utils.subdivide_batches(n, num_batches=nb, max_batch=mb))
    err = ref.sizes_error(sizes, n, nb, mb)
    if err:
        _fail(case, "subdivide_batches: %s" % err)
    with ctx.sut(case, "generate_batches"):
        if start == 0 and (n + (nb or mb)) % 2 == 0:
            # the way every caller inside quantem uses it: start_index left at its default
            ctx.count("split:default_start_index")
            ranges = [(s, e) for s, e in Q.utils.generate_batches(n, num_batches=nb, max_batch=mb)]
        else:
            ranges = [(s, e) for s, e in Q.utils.generate_batches(n, num_batches=nb, max_batch=mb, start_index=start)]
    err = ref.ranges_error(ranges, n, start, nb, mb)
    if err:
        _fail(case, "generate_batches: %s" % err)


# ================================================================================================
# part 2 helpers
# ================================================================================================
_REC = None


def _recording_sgd():
    """torch.optim.SGD subclass that appends a copy of every parameter's .grad to `sink` before each
    step.  Reaches the models through the public optimizer_params={"type": <Optimizer class>} route."""
    global _REC
    if _REC is None:
        torch = q().torch

        class RecordingSGD(torch.optim.SGD):
            def __init__(self, params, sink=None, **kw):
                super().__init__(params, **kw)
                self._sink = sink

            def step(self, closure=None):
                self._sink.append(
                    [None if p.grad is None else p.grad.detach().clone().cpu().numpy() for g in self.param_groups for p in g["params"]]
                )
                return super().step(closure)

        _REC = RecordingSGD
    return _REC


class _Spy:
    """Observation only: records the pattern indices of every dset.forward call of one instance
    ("t" = training pass, "v" = validation pass under no_grad) and an ("end",) marker whenever
    step_schedulers is called (reconstruct calls it once at the end of every epoch).  Both wrappers
    delegate to the original bound methods unchanged."""

    def __init__(self, pt):
        self.log = []
        self.calls = 0
        self.abort_at = None  # when set: the abort_at-th dset.forward call raises _Abort (an interrupted run)
        torch = q().torch
        fwd = pt.dset.forward
        sched = pt.step_schedulers

        def forward(batch_indices, obj_padding_px):
            self.calls += 1
            if self.abort_at is not None and self.calls >= self.abort_at:
                self.abort_at = None
                raise _Abort()
            tag = "t" if torch.is_grad_enabled() else "v"
            self.log.append((tag, np.asarray(batch_indices).astype(np.int64).tolist()))
            return fwd(batch_indices, obj_padding_px)

        def step_schedulers(*a, **k):
            self.log.append(("end",))
            return sched(*a, **k)

        pt.dset.forward = forward
        pt.step_schedulers = step_schedulers

    def take(self):
        out, self.log = self.log, []
        self.calls = 0
        return out


class _Abort(Exception):
    """Raised by the harness inside a mini-batch to model an interrupted reconstruct() call."""


def _epochs(case, log, J, num_iters, bs):
    """Split a visit log into epochs and judge each against the partition / exactly-once definitions.
    Returns [(training batches, validation batches)] per epoch."""
    epochs = []
    cur = ([], [])
    for ent in log:
        if ent[0] == "end":
            epochs.append(cur)
            cur = ([], [])
        elif ent[0] == "t":
            if cur[1]:
                _fail(case, "reconstruct ran a training batch after the validation pass of the same epoch")
            cur[0].append(ent[1])
        else:
            cur[1].append(ent[1])
    if cur[0] or cur[1]:
        _fail(case, "reconstruct ran batches after the last completed epoch")
    if len(epochs) != num_iters:
        _fail(case, "reconstruct(num_iters=%d) ran %d epochs" % (num_iters, len(epochs)))
    for e, (tb, vb) in enumerate(epochs):
        train = sorted(i for bt in tb for i in bt)
        val = sorted(i for bt in vb for i in bt)
        err = ref.epoch_error(tb, sorted(set(train)), bs)
        if err:
            _fail(case, "reconstruct epoch %d, training pass: %s" % (e, err))
        err = ref.epoch_error(vb, sorted(set(val)), bs)
        if err:
            _fail(case, "reconstruct epoch %d, validation pass: %s" % (e, err))
        err = ref.partition_error(train, val, J)
        if err:
            _fail(case, "reconstruct epoch %d, patterns visited by the training and validation passes: %s" % (e, err))
    return epochs


def _geom_classes(prefix, case):
    cl = [
        prefix,
        "%s:%s" % (prefix, case["loss_type"]),
        "%s:%s" % (prefix, case["obj_type"]),
        "%s:S%d_M%d" % (prefix, case["S"], case["M"]),
        "%s:%s" % (prefix, "float64" if case["hi"] else "float32"),
        "%s:val_%s" % (prefix, case["val_mode"] if case["val_ratio"] > 0 else "none"),
    ]
    return cl


# ================================================================================================
# part 2: batch invariance
# ================================================================================================
def _check_invariance(ctx, case):
    q()
    J = int(case["gpts"][0]) * int(case["gpts"][1])
    hi = bool(case["hi"])
    learn = list(case["learn"])
    # non-trivial when at least two training patterns are certain (so that batch size 1 gives >= 2
    # batches against the one full batch): J - round(J * val_ratio) >= 2
    soft = case.get("soft") or {}
    classes = _geom_classes("inv", case) + ["inv:learn_" + "+".join(learn)]
    classes.append("inv:soft_constraints_active" if soft else "inv:default_constraints")
    classes += ["inv:soft_%s_%s" % (m, k) for m in sorted(soft) for k in sorted(soft[m])]
    ctx.record(case, J - int(round(J * float(case["val_ratio"]))) >= 2, classes)
    Rec = _recording_sgd()
    tol = TOL[hi]

    with B.Precision(hi):
        with ctx.sut(case, "building the problem through the public constructors"):
            pt = B.build(case)
        spy = _Spy(pt)

        def run(b):
            sinks = {k: [] for k in learn}
            opt = {k: {"type": Rec, "lr": 0.0, "sink": sinks[k]} for k in learn}
            with ctx.sut(case, "reconstruct(num_iters=1, reset=True, batch_size=%r)" % (b,)):
                # soft constraints: reconstruct adds the (parameter-only) soft-constraint loss to every batch
                # loss, so with frozen parameters the reported epoch loss is mean(consistency) + C for
                # every batch size -- the same relation, applied to the loss reconstruct reports
                pt.reconstruct(
                    num_iters=1,
                    reset=True,
                    optimizer_params=opt,
                    constraints={m: dict(v) for m, v in soft.items()},
                    batch_size=b,
                    loss_type=case["loss_type"],
                )
                losses = np.asarray(pt.iter_losses, dtype=np.float64)
            if losses.shape != (1,):
                _fail(case, "one epoch after reset recorded %d iteration losses" % losses.size)
            (tb, _vb), = _epochs(case, spy.take(), J, 1, b)
            nb = len(tb)
            grads = {}
            for k in learn:
                if len(sinks[k]) != nb:
                    _fail(case, "%d batches were run but the %s optimiser was stepped %d times" % (nb, k, len(sinks[k])))
                npar = len(sinks[k][0])
                for j in range(npar):
                    gs = [s[j] for s in sinks[k]]
                    if any(g is None for g in gs):
                        raise core.HarnessError("parameter %s[%d] received no gradient" % (k, j))
                    if not all(np.all(np.isfinite(g)) for g in gs):
                        raise core.HarnessError("non-finite gradient for %s[%d]" % (k, j))
                    grads["%s[%d]" % (k, j)] = np.mean(np.stack(gs).astype(np.complex128), axis=0)
            return float(losses[0]), grads, tb

        # the full batch: batch_size = J (>= the number of training patterns).  Run twice: every run below
        # starts from reset=True, so the comparison presupposes the property's own reset claim
        L0, G0, tb0 = run(J)
        L0b, G0b, tb0b = run(J)
        if len(tb0) != 1:
            _fail(case, "batch_size=%d (all patterns) ran %d training batches instead of one" % (J, len(tb0)))
        if tb0 != tb0b:
            _fail(
                case,
                "two consecutive reconstruct(num_iters=1, reset=True, batch_size=%d) runs of the same seeded instance visit "
                "the patterns in different orders (%s vs %s): reset does not restore the seeded state" % (J, tb0[0], tb0b[0]),
            )
        if float(L0).hex() != float(L0b).hex() or any(not np.array_equal(G0[k], G0b[k]) for k in G0):
            _fail(
                case,
                "two consecutive reconstruct(num_iters=1, reset=True, batch_size=%d) runs of the same seeded instance give "
                "different losses or gradients (losses %.9g vs %.9g): reset does not restore the initial state" % (J, L0, L0b),
            )
        n_train = len(tb0[0])
        if n_train < 1:
            raise core.HarnessError("empty training set")
        if not np.isfinite(L0) or L0 == 0.0:
            raise core.HarnessError("degenerate full-batch loss %r" % L0)
        for k, g in G0.items():
            if not np.all(np.isfinite(g)):
                raise core.HarnessError("non-finite full-batch gradient for %s" % k)
        gmax = {k: float(np.max(np.abs(g))) for k, g in G0.items()}
        if not any(v > 0 for v in gmax.values()):
            raise core.HarnessError("all full-batch gradients vanish: comparison would be vacuous")
        pre = "f64 " if hi else "f32 "
        scaleL = max(abs(L0), 0.5 * n_train) if case["loss_type"] == "poisson" else abs(L0)
        for b in ref.divisors(n_train):
            L, G, tb = run(b)
            if len(tb) != n_train // b:
                _fail(case, "batch_size=%d over %d training patterns ran %d batches" % (b, n_train, len(tb)))
            ctx.count("inv:batch_sizes_compared")
            errL = abs(L - L0) / scaleL
            _stat(pre + "loss", errL / tol["loss"])
            if not errL <= tol["loss"]:
                _fail(
                    case,
                    "loss_type=%s: mean of the %d per-batch losses at batch_size=%d is %.9g, full-batch loss is %.9g "
                    "(difference %.3e of the loss scale %.3g > %.1e)" % (case["loss_type"], len(tb), b, L, L0, errL, scaleL, tol["loss"]),
                )
            for k in G0:
                if G[k].shape != G0[k].shape:
                    _fail(case, "gradient of %s changes shape with the batch size" % k)
                if gmax[k] == 0.0:  # no scale to compare against
                    ctx.count("inv:zero_full_batch_gradient_skipped")
                    continue
                errG = float(np.max(np.abs(G[k] - G0[k]))) / gmax[k]
                tolG = tol["grad:" + k.split("[")[0]]
                _stat(pre + "grad " + k, errG / tolG)
                if not errG <= tolG:
                    _fail(
                        case,
                        "loss_type=%s: mean over %d batches (batch_size=%d) of the gradient of %s differs from the "
                        "full-batch gradient by %.3e of its largest component (> %.1e)" % (case["loss_type"], len(tb), b, k, errG, tolG),
                    )


# ================================================================================================
# part 2: seeded determinism
# ================================================================================================
SCHEDULERS = {
    "none": None,
    "exp_factor": {"type": "exp", "factor": 0.1},  # gamma derived from the run length
    "exp_gamma": {"type": "exp", "gamma": 0.7},
    "linear": {"type": "linear"},  # total_iters derived from the run length; rescales lr on construction
    "cyclic": {"type": "cyclic", "step_size_up": 2},  # base/max lr derived from the optimiser lr
    "plateau": {"type": "plateau", "patience": 0, "cooldown": 0},
}
SCHEDULERS["exp"] = SCHEDULERS["exp_factor"]  # older replay files

KEY_SCHED_COMPOUND = "c09-reset-scheduler-lr-compounding"


def _check_determinism(ctx, case):
    Q = q()
    J = int(case["gpts"][0]) * int(case["gpts"][1])
    hi = bool(case["hi"])
    b = case["b"]
    bs = J if b is None else int(b)
    iters = int(case["iters"])
    lr = float(case["lr"])
    learn = list(case["learn"])
    opt = {k: {"type": case["opt"], "lr": lr} for k in learn}
    sp = SCHEDULERS[case["sched"]]
    sched = {k: dict(sp) for k in learn} if sp else None
    repass = case.get("repass") or ("both" if case.get("repass_opt", True) else "sched")
    prelude = case.get("prelude", "none")
    if b is None and case.get("prelude_b") is not None:
        raise core.HarnessError("batch_size=None keeps the prelude's batch size: not the same run")
    base = dict(num_iters=iters, batch_size=b, loss_type=case["loss_type"])

    def full_kw():
        k2 = dict(base)
        k2["optimizer_params"] = {k: dict(v) for k, v in opt.items()}
        if sched:
            k2["scheduler_params"] = {k: dict(v) for k, v in sched.items()}
        return k2

    with B.Precision(hi):
        with ctx.sut(case, "building two identically seeded problems"):
            A = B.build(case)
            C = B.build(case)
        spyA = _Spy(A)

        def run(pt, spy, what, **k2):
            with ctx.sut(case, what):
                pt.reconstruct(**k2)
                losses = ref.hexes(pt.iter_losses)
                vlosses = ref.hexes(pt.val_iter_losses)
            return losses, vlosses, spy.take()

        # history 1: a fresh instance, first call WITHOUT reset (uses the generators exactly as the
        # constructors seeded them)
        classes = _geom_classes("det", case) + ["det:opt_" + case["opt"], "det:rng_" + case.get("rng_form", "int")]
        classes.append("det:seed_ge_2^32" if int(case["seed"]) >= 2**32 else "det:seed_lt_2^32")
        classes += ["det:sched_" + case["sched"], "det:rerun_repasses_" + repass, "det:prelude_" + prelude]
        try:
            la, va, logA = run(A, spyA, "reconstruct (fresh instance, no reset)", reset=False, **full_kw())
            epochs = _epochs(case, logA, J, iters, bs)
        except core.Violation:
            ctx.record(case, True, classes)
            raise
        # non-triviality is judged on what was observed: with >= 2 training batches per epoch the
        # shuffle order (hence the seeded rng) influences the optimisation path
        nb = len(epochs[0][0])
        n_train = sum(len(x) for x in epochs[0][0])
        classes.append("det:batches_%s" % ("1" if nb == 1 else "2+"))
        if n_train % bs:
            classes.append("det:b_not_dividing")
        if bs > n_train:
            classes.append("det:b_gt_n")
        ctx.record(case, nb >= 2, classes)
        if len(la) != iters:
            _fail(case, "reconstruct(num_iters=%d) recorded %d iteration losses" % (iters, len(la)))

        # history 2: a second instance built from the same seeds, optionally with a PRELUDE -- something
        # that happened to the object before the run that is compared -- followed by the same run with
        # reset=True ("the same run after a reset"); without a prelude the first call is made with or
        # without reset=True (drawn): either way "a run started from the same seed"
        reset_c = True
        how = prelude
        if prelude == "none":
            reset_c = bool(case["first_reset"])
            how = "fresh, first call with reset=True" if reset_c else "fresh, no reset"
            spyC = _Spy(C)
        elif prelude in ("clone", "from_ptychography"):
            # copying a never-run object (done before the observers are attached: the copy goes through
            # deepcopy or save/load)
            with ctx.sut(case, "%s of a never-run instance" % prelude):
                if prelude == "clone":
                    C.clone()
                else:
                    Q.Ptychography.from_ptychography(C)
            spyC = _Spy(C)
        else:
            spyC = _Spy(C)
            if prelude == "zero_iter":
                # configuration-only call (num_iters=0 is the default of reconstruct)
                k0 = dict(num_iters=0, optimizer_params={k: dict(v) for k, v in opt.items()}, loss_type=case["loss_type"])
                k0["batch_size"] = case.get("prelude_b")
                run(C, spyC, "reconstruct(num_iters=0) configuration-only call", **k0)
            elif prelude == "other_run":
                # a completed run of another length / batch size
                k0 = full_kw()
                k0.update(num_iters=int(case.get("prelude_iters", 1)), batch_size=case.get("prelude_b"))
                run(C, spyC, "a previous completed run", **k0)
            elif prelude == "abort":
                # a run interrupted inside its abort_at-th mini-batch (1 = the very first one)
                spyC.abort_at = int(case["abort_at"])
                with ctx.sut(case, "interrupted reconstruct"):
                    try:
                        C.reconstruct(reset=False, **full_kw())
                        ctx.count("det:abort_not_reached")
                    except _Abort:
                        ctx.count("det:aborted_before_first_recorded_epoch" if len(C.iter_losses) == 0 else "det:aborted_after_recorded_epochs")
                spyC.abort_at = None
                spyC.take()
            else:
                raise core.HarnessError("unknown prelude %r" % prelude)
        lc, vc, logC = run(C, spyC, "reconstruct (second instance, same seeds, %s)" % how, reset=reset_c, **full_kw())
        what = "a second instance built from the same seeds (%s%s)" % (how, "" if prelude == "none" else ", then the same run with reset=True")
        if logA != logC:
            _fail(case, "%s visits the patterns in a different order than the fresh seeded run" % what)
        if la != lc:
            _fail(case, "%s gives different iter_losses than the fresh seeded run: %s vs %s" % (what, _show(lc), _show(la)))
        if va != vc:
            _fail(case, "%s gives different val_iter_losses than the fresh seeded run: %s vs %s" % (what, _show(vc), _show(va)))

        # history 3: the first instance again after reconstruct(reset=True), re-passing both / only the
        # optimiser / only the scheduler / neither parameter dict (both are sticky on the models)
        k3 = dict(base)
        if repass in ("both", "opt"):
            k3["optimizer_params"] = {k: dict(v) for k, v in opt.items()}
        if repass in ("both", "sched") and sched:
            k3["scheduler_params"] = {k: dict(v) for k, v in sched.items()}
        la2, va2, logA2 = run(A, spyA, "reconstruct(reset=True) re-run", reset=True, **k3)
        tail = " (scheduler %s, re-run re-passes %s)" % (case["sched"], repass)
        if logA2 != logA:
            _fail(case, "after reconstruct(reset=True) the patterns are visited in a different order than in the fresh run made without reset" + tail)
        if la2 != la:
            _fail(case, "reconstruct(reset=True) does not reproduce the iter_losses of the fresh run made without reset: %s vs %s%s" % (_show(la), _show(la2), tail))
        if va2 != va:
            _fail(case, "reconstruct(reset=True) does not reproduce the val_iter_losses of the fresh run made without reset: %s vs %s%s" % (_show(va), _show(va2), tail))


def _show(hx):
    return "[" + ", ".join("%.9g" % float.fromhex(h) for h in hx) + "]"


# ================================================================================================
CHECKS = {
    "batcher": _check_batcher,
    "split": _check_split,
    "invariance": _check_invariance,
    "determinism": _check_determinism,
}


def check(ctx, case):
    return CHECKS[case["kind"]](ctx, case)


# ================================================================================================
# generators
# ================================================================================================
SEEDS = st.integers(0, 2**31 - 1)
# seed forms the public API accepts (checked on the clean tree): any non-negative Python int -- numpy's
# default_rng takes arbitrarily large ones, the torch generator is seeded with seed % 2**32 -- or a
# fresh np.random.default_rng(seed) object (rng_form "gen").  Timestamp- and hash-style seeds are
# >= 2**32.
BIG_SEEDS = st.one_of(
    st.integers(0, 2**31 - 1),
    st.sampled_from([0, 1, 2**31 - 1, 2**32 - 1, 2**32, 2**32 + 17, 2**63 - 1, 2**64 - 1, 20260926093000]),
    st.integers(10**13, 10**14 - 1),  # 14-digit timestamps
    st.integers(2**32, 2**64 - 1),
)


@st.composite
def batcher_cases(draw):
    n = draw(st.one_of(st.integers(1, 5000), st.integers(1, 120), st.integers(41, 400)))
    b = draw(
        st.one_of(
            st.none(),
            st.integers(1, n + 2),
            st.integers(1, min(n + 2, 12)),
            st.sampled_from(ref.divisors(n) if n <= 400 else [1, n]),
            st.sampled_from([n - 1, n, n + 1, n + 2, (n + 1) // 2, n // 2 + 1]).filter(lambda v: v >= 1),
        )
    )
    ratio = draw(
        st.one_of(
            st.just(0.0),
            st.floats(0.0, 1.0, exclude_max=True, allow_nan=False),
            st.integers(1, max(1, n - 1)).map(lambda k: k / n).filter(lambda v: v < 1.0),
            st.integers(2, 50).map(lambda k: 1.0 / k),
            st.integers(2, 50).map(lambda k: 1.0 - 1.0 / k),
            st.sampled_from([0.5, 0.05, 0.1, 0.2, 0.25, 0.3, 0.4, 0.45, 0.55, 0.6, 0.7, 0.75, 0.8, 0.9, 0.95, 0.99, 0.01, 0.001, 0.999]),
        )
    )
    return {
        "kind": "batcher",
        "n": n,
        "b": b,
        "val_ratio": ratio,
        "val_mode": draw(st.sampled_from(["grid", "random"])),
        "shuffle": draw(st.booleans()),
        "seed": draw(BIG_SEEDS),
        "rng": draw(st.sampled_from(["int", "gen"])),
    }


@st.composite
def split_cases(draw):
    n = draw(st.one_of(st.integers(1, 100000), st.integers(65, 2000)))
    by_count = draw(st.booleans())
    if by_count:
        nb = draw(st.one_of(st.integers(1, n), st.integers(1, min(n, 64)), st.sampled_from([n, max(1, n - 1), max(1, n // 2)])))
        mb = None
    else:
        nb = None
        mb = draw(st.one_of(st.integers(1, n + 2), st.integers(1, min(n + 2, 64)), st.sampled_from([n, n + 1, max(1, n - 1)])))
    return {"kind": "split", "n": n, "num_batches": nb, "max_batch": mb, "start": draw(st.one_of(st.just(0), st.integers(0, 10**6)))}


VAL_RATIOS = [0.1, 0.2, 0.25, 0.3, 1.0 / 3.0, 0.4, 0.5, 0.6, 0.7, 0.75]


SOFT_W = [0.5, 2.0, 5.0]


@st.composite
def _soft(draw, S):
    """Active soft constraints: every soft term the object / probe / dataset models offer (object TV in
    the plane and along z, surface-zero; probe TV; descan TV).  tv_weight_z needs >= 2 slices and
    surface_zero_weight >= 3 slices to be non-zero."""
    obj = {}
    if draw(st.booleans()):
        obj["tv_weight_xy"] = draw(st.sampled_from(SOFT_W))
    if S >= 2 and draw(st.booleans()):
        obj["tv_weight_z"] = draw(st.sampled_from(SOFT_W))
    if S >= 3 and draw(st.booleans()):
        obj["surface_zero_weight"] = draw(st.sampled_from(SOFT_W))
    soft = {}
    if obj:
        soft["object"] = obj
    if draw(st.sampled_from([False, False, True])):
        soft["probe"] = {"tv_weight": draw(st.sampled_from(SOFT_W))}
    if draw(st.sampled_from([False, False, True])):
        soft["dataset"] = {"descan_tv_weight": draw(st.sampled_from(SOFT_W))}
    if not soft:
        soft["object"] = {"tv_weight_xy": draw(st.sampled_from(SOFT_W))}
    return soft


@st.composite
def _problem(draw, loss_type=None, seeds=SEEDS, soft=False):
    val = draw(st.sampled_from([False, False, True]))
    S = draw(st.sampled_from([1, 2, 3] if soft else [1, 1, 2]))
    c = {
        "R": draw(st.integers(3, 7)),
        "C": draw(st.integers(3, 7)),
        "gpts": [draw(st.integers(2, 5)), draw(st.integers(2, 5))],
        "S": S,
        "M": draw(st.sampled_from([1, 1, 2])),
        "obj_type": draw(st.sampled_from(["complex", "pure_phase", "potential"])),
        "pad": [draw(st.integers(0, 3)), draw(st.integers(0, 3))],
        "hi": draw(st.booleans()),
        "loss_type": loss_type if loss_type is not None else draw(st.sampled_from(LOSS_TYPES)),
        "val_ratio": draw(st.sampled_from(VAL_RATIOS)) if val else 0.0,
        "val_mode": draw(st.sampled_from(["grid", "random"])),
        "seed": draw(seeds),
    }
    if soft:
        c["soft"] = draw(_soft(S))
        if "dataset" in c["soft"]:
            c["descan_jitter"] = True  # constant descan shifts would make the descan TV term vanish
    return c


LEARN = [["object"], ["object", "probe"], ["object", "probe", "dataset"], ["object", "probe", "dataset"], ["probe"]]


@st.composite
def invariance_cases(draw, loss_type=None, soft=None):
    if soft is None:
        soft = draw(st.booleans())
    c = draw(_problem(loss_type, soft=soft))
    c["kind"] = "invariance"
    c["learn"] = draw(st.sampled_from(LEARN))
    if "dataset" in c.get("soft", {}):
        c["learn"] = ["object", "probe", "dataset"]  # the descan TV term is only active with a dataset optimiser
    return c


@st.composite
def determinism_cases(draw, avoid_sched_compound=False, preludes=None):
    c = draw(_problem(seeds=BIG_SEEDS))
    c["rng_form"] = draw(st.sampled_from(["int", "int", "gen"]))
    if draw(st.booleans()) and c["val_ratio"] == 0.0:
        c["val_ratio"] = draw(st.sampled_from(VAL_RATIOS))
    J = c["gpts"][0] * c["gpts"][1]
    c["kind"] = "determinism"
    c["learn"] = draw(st.sampled_from(LEARN))
    c["opt"] = draw(st.sampled_from(["adam", "adamw", "sgd"]))
    c["lr"] = draw(st.sampled_from([1e-2, 1e-3])) if c["opt"] != "sgd" else draw(st.sampled_from([1e-3, 1e-4]))
    c["sched"] = draw(st.sampled_from(["none", "exp_factor", "exp_factor", "exp_gamma", "linear", "cyclic", "plateau"]))
    # mostly several batches per epoch and a short last batch
    bsz = st.one_of(st.integers(1, max(1, J // 2)), st.integers(1, J + 2), st.none())
    c["b"] = draw(bsz)
    c["iters"] = draw(st.integers(2, 3))
    # calling convention of the re-run after reset: which of the (sticky) parameter dicts are passed again
    c["repass"] = draw(st.sampled_from(["both", "opt", "sched", "neither", "neither"]))
    if avoid_sched_compound and c["sched"] in ("linear", "cyclic") and c["repass"] in ("sched", "neither"):
        c["repass"] = "both"
    # what happened to the second instance before the compared run
    c["prelude"] = draw(st.sampled_from(preludes or ["none", "none", "zero_iter", "zero_iter", "abort", "abort", "other_run", "clone", "from_ptychography"]))
    c["first_reset"] = draw(st.booleans())
    if c["prelude"] in ("zero_iter", "other_run"):
        # batch_size=None means "keep the current batch size": if the compared run passes None the
        # prelude must not have changed it
        c["prelude_b"] = draw(st.one_of(st.integers(1, J + 2), st.none())) if c["b"] is not None else None
    if c["prelude"] == "other_run":
        c["prelude_iters"] = draw(st.integers(1, 2))
    if c["prelude"] == "abort":
        c["abort_at"] = draw(st.sampled_from([1, 1, 1, 2, 3, 5, 8]))
    return c


# ================================================================================================
def _enumerate(ctx, space):
    n = 0
    for i, case in enumerate(space):
        if i % ctx.nworkers == ctx.widx:
            check(ctx, case)
            n += 1
    return n


def search(ctx):
    run = lambda label, strat, nq, nt, **kw: core.run_given(ctx, label, strat, lambda c: check(ctx, c), ctx.n(nq, nt), **kw)  # noqa: E731
    # part 1, bounded-exhaustive: configuration i of the fixed enumeration order goes to worker
    # i mod nworkers, so the union over the workers is the whole space
    done = _enumerate(ctx, ref.batcher_space())
    done += _enumerate(ctx, ref.split_space())
    ctx.extra["exhaustive"] = True
    ctx.extra["exhaustive_space_configurations"] = ref.batcher_space_size() + ref.split_space_size()
    ctx.count("_exhaustive_configurations_this_run", done)
    # part 1, random larger sizes
    run("batcher", batcher_cases(), 1200, 12000)
    run("split", split_cases(), 400, 4000)
    # part 2 (the invariance budget is stratified over the loss types: each has its own scaling branch)
    for lt in LOSS_TYPES:
        run("invariance:" + lt, invariance_cases(lt), 7, 30)
    avoid = ctx.is_open(KEY_SCHED_COMPOUND)
    if avoid:
        ctx.exclude(KEY_SCHED_COMPOUND)
    # the determinism budget is stratified over the history before the compared run
    run("determinism", determinism_cases(avoid, ["none"]), 14, 70)
    run("determinism:zero_iter", determinism_cases(avoid, ["zero_iter"]), 7, 35)
    run("determinism:abort", determinism_cases(avoid, ["abort"]), 8, 40)
    run("determinism:other_run", determinism_cases(avoid, ["other_run"]), 4, 20)
    run("determinism:copy", determinism_cases(avoid, ["clone", "from_ptychography"]), 7, 35)
    for k, v in STATS.items():
        ctx.extra["max_err_over_tol: " + k] = float("%.3g" % v)

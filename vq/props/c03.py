"""C03 — Dataset containers stay coherent under any history of operations.

One executor (`Harness.apply(step)`) interprets JSON-able steps against the real Dataset objects and
against a reference model (numpy array + origin/sampling/units lists, value semantics).  It is driven
(a) by a Hypothesis RuleBasedStateMachine whose rules draw state-dependent arguments, (b) by a
bounded-exhaustive enumeration of a fixed operation alphabet, (c) by replay files.
After EVERY step EVERY dataset ever created in the history is compared with its model, so a source
mutated by an operation on itself or on a descendant shows up immediately."""

from __future__ import annotations

import itertools

import numpy as np
from hypothesis import strategies as st
from hypothesis.stateful import RuleBasedStateMachine, initialize, rule

from vq import core
from vq.refs import dataset_ref as ref

DTYPES = ["int8", "uint16", "int64", "float32", "float64", "complex64"]
CLS_FOR_NDIM = {1: ["Dataset"], 2: ["Dataset", "Dataset2d"], 3: ["Dataset", "Dataset3d"], 4: ["Dataset", "Dataset4d", "Dataset4dstem"], 5: ["Dataset"]}
SPECIAL_NDIM = {"Dataset2d": 2, "Dataset3d": 3, "Dataset4d": 4, "Dataset4dstem": 4}
PAD_MODES = ["constant", "edge", "reflect", "symmetric", "wrap"]


def make_array(shape, dtype, seed):
    rng = np.random.default_rng(seed)
    dt = np.dtype(dtype)
    if dt.kind in "iu":
        lo = 0 if dt.kind == "u" else -100
        return rng.integers(lo, 100, size=shape, endpoint=True).astype(dt)
    if dt.kind == "f":
        return (rng.standard_normal(shape) * 3).astype(dt)
    return (rng.standard_normal(shape) + 1j * rng.standard_normal(shape)).astype(dt)


def _variants_equal(a, b):
    """In-place and copying variants run on arrays with possibly different memory layouts (the twin
    is a contiguous copy), so floating-point reductions may associate differently: integers must be
    identical, floats agree to a few ulp of the largest magnitude."""
    if a.dtype.kind not in "fc":
        return bool(np.array_equal(a, b))
    if a.size == 0:
        return True
    eps = float(np.finfo(a.real.dtype).eps)
    scale = max(float(np.max(np.abs(a))), float(np.max(np.abs(b))), 1e-300)
    return bool(np.max(np.abs(a - b)) <= 64 * eps * scale)


class Entry:
    """A live dataset + its reference model."""

    def __init__(self, ds, arr, origin, sampling, units, exact_dtype=True):
        self.ds = ds
        self.arr = arr  # model data (int64 for integers, float64/complex128 otherwise)
        self.origin = [float(v) for v in origin]
        self.sampling = [float(v) for v in sampling]
        self.units = [str(u) for u in units]
        self.dtype = ds.array.dtype if exact_dtype else None  # asserted only while it is determined
        self.single = ds.array.dtype in (np.dtype("float32"), np.dtype("complex64"))


def _wide(a):
    a = np.asarray(a)
    if a.dtype.kind in "iub":
        return a.astype(np.int64)
    if a.dtype.kind == "c":
        return a.astype(np.complex128)
    return a.astype(np.float64)


def decode_index(tokens, single):
    out = []
    for t in tokens:
        if t == "...":
            out.append(Ellipsis)
        elif "i" in t:
            out.append(getattr(np, t["np"])(t["i"]) if t.get("np") else int(t["i"]))
        elif "s" in t:
            out.append(slice(*t["s"]))
        else:
            out.append(list(t["l"]))
    if single and len(out) == 1:
        return out[0]
    return tuple(out)


class Harness:
    def __init__(self, ctx, case_ref):
        self.ctx = ctx
        self.case_ref = case_ref  # dict that always holds the steps so far (shared with the machine)
        self.entries = []
        self.flags = {"kinds": set(), "index_special": False, "data_ops": []}

    # -- helpers ------------------------------------------------------------------------------
    def _case(self):
        return {"kind": "history", "steps": list(self.case_ref["steps"])}

    def viol(self, msg):
        raise core.Violation(msg, self._case())

    def sut(self, what):
        return self.ctx.sut(self._case(), what)

    def _qd(self):
        import quantem.core.datastructures as qd

        return qd

    # -- the step interpreter -----------------------------------------------------------------
    def apply(self, step):
        self.case_ref["steps"].append(step)
        op = step["op"]
        getattr(self, "_op_" + op)(step)
        self.flags["kinds"].add(op)
        self.compare_all("after step %d (%s)" % (len(self.case_ref["steps"]), op))

    def _src(self, step):
        return self.entries[step["src"] % len(self.entries)]

    def _op_create(self, step):
        arr = make_array(step["shape"], step["dtype"], step["seed"])
        origin, sampling = step["origin"], step["sampling"]
        if step.get("shared_calibration_array"):
            # the caller passes ONE float64 ndarray object for both fields (and keeps it): the dataset must not
            # alias it between its fields
            origin = sampling = np.array(step["sampling"] if isinstance(step["sampling"], list) else [step["sampling"]] * arr.ndim, dtype=np.float64)
            step = dict(step, origin=[float(v) for v in origin], sampling=[float(v) for v in origin])
        with self.sut("%s.from_array" % step["cls"]):
            ds = getattr(self._qd(), step["cls"]).from_array(arr.copy(), origin=origin, sampling=sampling, units=step["units"])
        nd = arr.ndim
        o = step["origin"] if isinstance(step["origin"], list) else [step["origin"]] * nd
        s = step["sampling"] if isinstance(step["sampling"], list) else [step["sampling"]] * nd
        u = step["units"] if isinstance(step["units"], list) else [step["units"]] * nd
        self.entries.append(Entry(ds, _wide(arr), o, s, u))

    def _op_copy(self, step):
        e = self._src(step)
        with self.sut("copy"):
            c = e.ds.copy()
        if c is e.ds:
            self.viol("copy() returned the same object")
        ne = Entry(c, e.arr.copy(), e.origin, e.sampling, e.units, exact_dtype=e.dtype is not None)
        ne.single = e.single
        self.entries.append(ne)

    def _op_set(self, step):
        e = self._src(step)
        attr, val = step["attr"], step["value"]
        nd = e.ds.ndim
        if attr in ("origin", "sampling") and isinstance(val, dict) and "from" in val:
            other = self.entries[val["from"] % len(self.entries)]
            if other.ds.ndim != nd:
                self.ctx.count("set_from_other_skipped_ndim_mismatch")
                return
            with self.sut("%s = <the %s array object of another dataset>" % (attr, val["field"])):
                setattr(e.ds, attr, getattr(other.ds, val["field"]))
            setattr(e, attr, list(getattr(other, val["field"])))
            self.flags["kinds"].add("set_from_other_dataset")
            return
        if attr in ("origin", "sampling") and isinstance(val, dict) and "col" in val:
            # calibration given as an (n, k) nested list / array: flattened it has n*k entries, so it is legal
            # exactly when n*k == ndim (e.g. an (ndim, 1) column such as M[:, [0]])
            block = [[float(x)] * val["k"] for x in val["col"]]
            arg = np.array(block) if val.get("as_array") else block
            total = len(val["col"]) * val["k"]
            try:
                setattr(e.ds, attr, arg)
                ok = True
            except (ValueError, TypeError):
                ok = False
            if ok != (total == nd):
                self.viol("setting %s of a %d-d dataset to a %dx%d block was %s" % (attr, nd, len(val["col"]), val["k"], "accepted" if ok else "rejected"))
            if ok:
                setattr(e, attr, [float(x) for row in block for x in row])
            self.flags["kinds"].add("set_2d_block")
            return
        if attr in ("origin", "sampling"):
            v = np.array(val["a"]) if isinstance(val, dict) else val
            n = nd if np.isscalar(v) else len(v)
            try:
                setattr(e.ds, attr, v)
                ok = True
            except (ValueError, TypeError):
                ok = False
            if ok != (n == nd):
                self.viol("setting %s of a %d-d dataset to %r was %s" % (attr, nd, val, "accepted" if ok else "rejected"))
            if ok:
                setattr(e, attr, [float(v)] * nd if np.isscalar(v) else [float(x) for x in v])
        elif attr == "units":
            n = nd if isinstance(val, str) else len(val)
            try:
                e.ds.units = tuple(val) if step.get("as_tuple") and not isinstance(val, str) else val
                ok = True
            except (ValueError, TypeError):
                ok = False
            if ok != (n == nd):
                self.viol("setting units of a %d-d dataset to %r was %s" % (nd, val, "accepted" if ok else "rejected"))
            if ok:
                e.units = [val] * nd if isinstance(val, str) else [str(x) for x in val]
        else:
            with self.sut("set " + attr):
                setattr(e.ds, attr, val)
            if getattr(e.ds, attr) != str(val):
                self.viol("%s setter stored %r for %r" % (attr, getattr(e.ds, attr), val))

    def _both_variants(self, e, name, in_place, kw):
        """Run the op in the requested variant on e.ds and in the other variant on a copy; the two
        results must agree exactly (array, dtype, calibration).  Returns the dataset carrying the
        result of the requested variant."""
        with self.sut("copy (twin for the in-place/copying differential)"):
            twin = e.ds.copy()
        with self.sut("%s(modify_in_place=%s)" % (name, in_place)):
            r = getattr(e.ds, name)(modify_in_place=in_place, **kw)
        with self.sut("%s(modify_in_place=%s) on a copy" % (name, not in_place)):
            r2 = getattr(twin, name)(modify_in_place=not in_place, **kw)
        if in_place:
            if r is not None:
                self.viol("%s(modify_in_place=True) returned %s" % (name, type(r).__name__))
            a, b = e.ds, r2
        else:
            if r2 is not None:
                self.viol("%s(modify_in_place=True) returned %s" % (name, type(r2).__name__))
            a, b = r, twin
        if a is None or b is None:
            self.viol("%s(modify_in_place=False) returned None" % name)
        if a.array.shape != b.array.shape or a.array.dtype != b.array.dtype or not _variants_equal(a.array, b.array):
            self.viol("%s: in-place and copying variants differ in data (shape %s/%s dtype %s/%s)" % (name, a.array.shape, b.array.shape, a.array.dtype, b.array.dtype))
        if not (np.array_equal(np.asarray(a.origin, float), np.asarray(b.origin, float)) and np.array_equal(np.asarray(a.sampling, float), np.asarray(b.sampling, float)) and list(a.units) == list(b.units)):
            self.viol("%s: in-place and copying variants differ in calibration: %s %s %s vs %s %s %s" % (name, a.origin, a.sampling, a.units, b.origin, b.sampling, b.units))
        return a

    def _finish(self, e, res_ds, in_place, arr, origin, sampling, units, exact_dtype):
        if in_place:
            if res_ds is not e.ds:
                raise core.HarnessError("in-place result bookkeeping")
            e.arr, e.origin, e.sampling, e.units = arr, list(origin), list(sampling), list(units)
            if not exact_dtype:
                e.dtype = None
            e.single = e.single or res_ds.array.dtype in (np.dtype("float32"), np.dtype("complex64"))
        else:
            if res_ds is e.ds:
                self.viol("a copying operation returned its source object")
            ne = Entry(res_ds, arr, origin, sampling, units, exact_dtype=exact_dtype and e.dtype is not None)
            ne.single = e.single
            self.entries.append(ne)

    def _op_pad(self, step):
        e = self._src(step)
        kw = {"mode": step["mode"]}
        if "pad_width" in step:
            pw = step["pad_width"]
            kw["pad_width"] = pw if isinstance(pw, int) else (tuple(pw) if isinstance(pw[0], int) else tuple(tuple(p) for p in pw))
            model = np.pad(e.arr, kw["pad_width"], mode=step["mode"])
        else:
            kw["output_shape"] = tuple(step["output_shape"])
            model = np.pad(e.arr, ref.pad_widths_for(e.arr.shape, step["output_shape"]), mode=step["mode"])
        r = self._both_variants(e, "pad", step["in_place"], kw)
        self._finish(e, r, step["in_place"], model, e.origin, e.sampling, e.units, True)
        self.flags["data_ops"].append("pad")

    def _op_crop(self, step):
        e = self._src(step)
        cw = tuple(tuple(c) for c in step["crop_widths"])
        axes = step["axes"]
        kw = {"crop_widths": cw}
        if axes is not None:
            kw["axes"] = axes if isinstance(axes, int) else tuple(axes)
        ax_list = list(range(e.arr.ndim)) if axes is None else ([axes] if isinstance(axes, int) else list(axes))
        sl = [slice(None)] * e.arr.ndim
        for a, (s0, s1) in zip(ax_list, cw):
            sl[a] = slice(s0, s1 if s1 != 0 else None)
        model = e.arr[tuple(sl)]
        r = self._both_variants(e, "crop", step["in_place"], kw)
        self._finish(e, r, step["in_place"], model, e.origin, e.sampling, e.units, True)
        self.flags["data_ops"].append("crop")

    def _op_bin(self, step):
        e = self._src(step)
        axes = step["axes"]
        ax_list = list(range(e.arr.ndim)) if axes is None else ([axes] if isinstance(axes, int) else list(axes))
        f = step["factors"]
        facs = [f] * len(ax_list) if isinstance(f, int) else list(f)
        fba = dict(zip(ax_list, facs))
        kw = {"bin_factors": f if isinstance(f, int) else tuple(f), "reducer": step["reducer"]}
        if axes is not None:
            kw["axes"] = axes if isinstance(axes, int) else tuple(axes)
        red = step["reducer"].lower()
        m = ref.bin_ref(e.arr, fba, red)
        model = _wide(m.astype(np.int64)) if m.dtype == object else _wide(m)
        o, s = ref.bin_meta_ref(e.origin, e.sampling, fba)
        r = self._both_variants(e, "bin", step["in_place"], kw)
        self._finish(e, r, step["in_place"], model, o, s, e.units, False)
        self.flags["data_ops"].append("bin")

    def _op_resample(self, step):
        e = self._src(step)
        axes = step["axes"]
        ax_list = list(range(e.arr.ndim)) if axes is None else list(axes)
        kw = {}
        if axes is not None:
            kw["axes"] = tuple(axes)
        if "out_shape" in step:
            out = list(step["out_shape"])
            kw["out_shape"] = tuple(out)
        else:
            fs = step["factors"]
            fl = [fs] * len(ax_list) if isinstance(fs, (int, float)) else list(fs)
            out = [max(1, int(round(e.arr.shape[a] * f))) for a, f in zip(ax_list, fl)]
            kw["factors"] = fs if isinstance(fs, (int, float)) else tuple(fs)
        oba = dict(zip(ax_list, out))
        model = ref.resample_ref(e.arr, oba)
        o, s = ref.resample_meta_ref(e.origin, e.sampling, e.arr.shape, oba)
        r = self._both_variants(e, "fourier_resample", step["in_place"], kw)
        self._finish(e, r, step["in_place"], model, o, s, e.units, False)
        self.flags["data_ops"].append("resample")

    def _op_index(self, step):
        e = self._src(step)
        idx = decode_index(step["index"], step.get("single", False))
        model = e.arr[idx]
        # kept axes, in order, by an independent walk over the tokens
        toks = list(step["index"])
        nd = e.arr.ndim
        if "..." in toks:
            p = toks.index("...")
            toks = toks[:p] + [{"s": [None, None, None]}] * (nd - (len(toks) - 1)) + toks[p + 1 :]
        toks = toks + [{"s": [None, None, None]}] * (nd - len(toks))
        o, s, u = [], [], []
        for ax, t in enumerate(toks):
            if "i" in t:
                continue
            o.append(e.origin[ax])
            u.append(e.units[ax])
            step_ = t["s"][2] if "s" in t and t["s"][2] is not None else 1
            s.append(e.sampling[ax] * step_)
        with self.sut("__getitem__[%r]" % (idx,)):
            r = e.ds[idx]
        if r is e.ds:
            self.viol("indexing returned the source object itself")
        ne = Entry(r, np.asarray(model), o, s, u, exact_dtype=e.dtype is not None)
        ne.single = e.single
        self.entries.append(ne)
        if any(t == "..." or "l" in t or ("s" in t and t["s"][2] not in (None, 1)) for t in step["index"]):
            self.flags["index_special"] = True

    # -- invariant ------------------------------------------------------------------------------
    def compare_all(self, when):
        for i, e in enumerate(self.entries):
            self.compare(e, "%s: dataset #%d" % (when, i))

    def compare(self, e, when):
        ds = e.ds
        try:
            arr, nd = ds.array, ds.ndim
            origin, sampling, units = ds.origin, ds.sampling, ds.units
        except Exception as ex:  # noqa: BLE001
            self.viol("%s: reading public attributes raised %r" % (when, ex))
        if not isinstance(arr, np.ndarray):
            self.viol("%s: array is a %s" % (when, type(arr).__name__))
        if not (len(origin) == nd and len(sampling) == nd and len(units) == nd):
            self.viol("%s: ndim=%d but len(origin)=%d len(sampling)=%d len(units)=%d" % (when, nd, len(origin), len(sampling), len(units)))
        cname = type(ds).__name__
        if cname in SPECIAL_NDIM and SPECIAL_NDIM[cname] != nd:
            self.viol("%s: a %s with ndim=%d" % (when, cname, nd))
        if cname not in SPECIAL_NDIM and cname != "Dataset":
            self.viol("%s: unexpected class %s" % (when, cname))
        if tuple(ds.shape) != tuple(arr.shape) or tuple(arr.shape) != tuple(e.arr.shape):
            self.viol("%s: shape %s, model %s" % (when, tuple(arr.shape), tuple(e.arr.shape)))
        if e.dtype is not None and arr.dtype != e.dtype:
            self.viol("%s: dtype %s, expected %s" % (when, arr.dtype, e.dtype))
        if arr.size:
            if arr.dtype.kind in "iub" and e.arr.dtype.kind in "iub":
                if not np.array_equal(arr.astype(np.int64), e.arr):
                    self.viol("%s: integer data differ from the model" % when)
            else:
                tol = 5e-5 if e.single else 1e-9
                err = float(np.max(np.abs(arr.astype(np.complex128) - e.arr.astype(np.complex128))))
                scale = max(1.0, float(np.max(np.abs(e.arr))))
                if not err <= tol * scale:
                    self.viol("%s: data differ from the model by %.3g (scale %.3g)" % (when, err, scale))
        for name, got, exp in (("origin", origin, e.origin), ("sampling", sampling, e.sampling)):
            g = np.asarray(got, dtype=float)
            x = np.asarray(exp, dtype=float)
            if g.shape != x.shape or (g.size and float(np.max(np.abs(g - x))) > 1e-9 * max(1.0, float(np.max(np.abs(x))))):
                self.viol("%s: %s = %s, model %s" % (when, name, g.tolist(), x.tolist()))
        if [str(u) for u in units] != e.units:
            self.viol("%s: units = %r, model %r" % (when, list(units), e.units))

    def finish(self):
        ops = self.flags["data_ops"]
        nontrivial = len(set(ops)) >= 2 or self.flags["index_special"]
        classes = ["op:" + k for k in sorted(self.flags["kinds"])]
        classes.append("steps:%d" % min(len(self.case_ref["steps"]), 13))
        if self.flags["index_special"]:
            classes.append("index_with_step/ellipsis/list")
        for e in self.entries:
            classes.append("final_ndim:%d" % e.ds.ndim)
        self.ctx.record(self._case(), nontrivial, classes)


# ------------------------------------------------------------------------------------------------
# state-dependent argument generators (used by the machine's rules)
# ------------------------------------------------------------------------------------------------
def draw_create(draw):
    nd = draw(st.integers(1, 5))
    cap = {1: 9, 2: 6, 3: 5, 4: 4, 5: 3}[nd]
    shape = [draw(st.integers(1, cap)) for _ in range(nd)]
    scal = draw(st.booleans())
    shared = draw(st.integers(0, 4)) == 0
    return {
        **({"shared_calibration_array": True} if shared else {}),
        "op": "create",
        "cls": draw(st.sampled_from(CLS_FOR_NDIM[nd])),
        "shape": shape,
        "dtype": draw(st.sampled_from(DTYPES)),
        "seed": draw(st.integers(0, 10**6)),
        "origin": draw(st.sampled_from([0.0, 2.5, -1.0])) if scal else [draw(st.sampled_from([0.0, 1.5, -3.0, 10.25])) for _ in range(nd)],
        "sampling": draw(st.sampled_from([1.0, 0.5])) if scal else [draw(st.sampled_from([1.0, 0.5, 2.0, 0.125, 3.0])) for _ in range(nd)],
        "units": draw(st.sampled_from(["nm", "A"])) if scal else ["u%d%s" % (i, draw(st.sampled_from(["", "x"]))) for i in range(nd)],
    }


def draw_axes(draw, nd, allow_int=True):
    r = draw(st.integers(0, 3))
    if r == 0:
        return None
    k = draw(st.integers(1, nd))
    ax = sorted(draw(st.lists(st.integers(0, nd - 1), min_size=k, max_size=k, unique=True)))
    if allow_int and len(ax) == 1 and draw(st.booleans()):
        return ax[0]
    return ax


def draw_index(draw, shape):
    nd = len(shape)
    n_tok = draw(st.integers(1, nd))
    use_ellipsis = draw(st.integers(0, 3)) == 0
    use_list = draw(st.integers(0, 4)) == 0
    toks = []
    axes_for = list(range(n_tok))
    if use_ellipsis:
        # tokens before / after the ellipsis address leading / trailing axes
        n_before = draw(st.integers(0, n_tok - 1)) if n_tok > 1 else 0
        n_after = (n_tok - 1) - n_before
        axes_for = list(range(n_before)) + [None] + list(range(nd - n_after, nd))
    list_pos = draw(st.integers(0, len(axes_for) - 1)) if use_list else -1
    kept = 0
    for j, ax in enumerate(axes_for):
        if ax is None:
            toks.append("...")
            continue
        n = shape[ax]
        kind = draw(st.sampled_from(["i", "s", "s", "s"]))
        if j == list_pos:
            k = draw(st.integers(1, 3))
            toks.append({"l": [draw(st.integers(-n, n - 1)) for _ in range(k)]})
            kept += 1
            continue
        if kind == "i":
            tok = {"i": draw(st.integers(-n, n - 1))}
            npk = draw(st.sampled_from([None, None, "int64", "int32", "intp", "uint8"]))
            if npk and not (npk == "uint8" and tok["i"] < 0):
                tok["np"] = npk  # a NumPy integer scalar (np.argmax, np.unravel_index, iterating np.arange, ...)
            toks.append(tok)
        else:
            stepv = draw(st.sampled_from([None, None, 1, 2, 3, -1, -2]))
            if stepv is not None and stepv < 0:
                start = draw(st.sampled_from([None, n - 1, -1]))
                stop = draw(st.sampled_from([None, None, 0])) if n > 1 else None
            else:
                start = draw(st.sampled_from([None, 0, 1, -2])) if n > 2 else draw(st.sampled_from([None, 0]))
                stop = draw(st.sampled_from([None, n, -1])) if n > 3 else None
            toks.append({"s": [start, stop, stepv]})
            kept += 1
    # at least one axis must survive (an all-integer full index gives a 0-d result: not a Dataset)
    n_int = sum(1 for t in toks if t != "..." and "i" in t)
    if n_int == nd:
        for j, t in enumerate(toks):
            if t != "..." and "i" in t:
                toks[j] = {"s": [None, None, None]}
                break
    # a list mixed with integers that are separated from it by a slice transposes axes in NumPy:
    # keep advanced indices (ints + the list) contiguous by turning stray ints into slices
    if any(t != "..." and "l" in t for t in toks):
        lp = [j for j, t in enumerate(toks) if t != "..." and "l" in t][0]
        for j, t in enumerate(toks):
            if t != "..." and "i" in t:
                lo, hi = min(j, lp), max(j, lp)
                between = toks[lo + 1 : hi]
                if any(b == "..." or "s" in b for b in between):
                    toks[j] = {"s": [None, None, None]}
    single = len(toks) == 1 and draw(st.booleans())
    return toks, single


def _nonempty(shape, toks, single):
    idx = decode_index(toks, single)
    try:
        r = np.empty(shape, dtype=np.int8)[idx]
    except IndexError:
        return False
    return r.ndim >= 1 and r.size >= 1


class DatasetMachine(RuleBasedStateMachine):
    ctx = None  # injected

    def __init__(self):
        super().__init__()
        self.case_ref = {"steps": []}
        self.h = Harness(self.ctx, self.case_ref)

    @initialize(data=st.data())
    def init(self, data):
        self.h.apply(draw_create(data.draw))

    def _pick(self, data):
        return data.draw(st.integers(0, len(self.h.entries) - 1))

    @rule(data=st.data())
    def create(self, data):
        if len(self.h.entries) < 4:
            self.h.apply(draw_create(data.draw))

    @rule(data=st.data())
    def copy(self, data):
        self.h.apply({"op": "copy", "src": self._pick(data)})

    @rule(data=st.data())
    def setter(self, data):
        i = self._pick(data)
        nd = self.h.entries[i].ds.ndim
        attr = data.draw(st.sampled_from(["origin", "sampling", "units", "name", "signal_units"]))
        wrong = data.draw(st.integers(0, 4)) == 0
        n = nd + data.draw(st.sampled_from([-1, 1])) if wrong and nd > 1 else (nd + 1 if wrong else nd)
        if attr in ("origin", "sampling") and data.draw(st.integers(0, 3)) == 0:
            step = {"op": "set", "src": i, "attr": attr, "value": {"from": self._pick(data), "field": data.draw(st.sampled_from(["origin", "sampling"]))}}
            self.h.apply(step)
            return
        if attr in ("origin", "sampling") and data.draw(st.integers(0, 4)) == 0:
            k = data.draw(st.sampled_from([1, 1, 1, 2]))
            rows = nd if data.draw(st.integers(0, 3)) else max(1, nd - 1)
            vals = [data.draw(st.sampled_from([0.25, 1.0, 2.0, -1.5, 4.0])) for _ in range(rows)]
            self.h.apply({"op": "set", "src": i, "attr": attr, "value": {"col": vals, "k": k, "as_array": data.draw(st.booleans())}})
            return
        if attr in ("origin", "sampling"):
            form = data.draw(st.sampled_from(["scalar", "list", "array"]))
            vals = [data.draw(st.sampled_from([0.25, 1.0, 2.0, -1.5, 4.0])) for _ in range(n)]
            val = vals[0] if form == "scalar" else (vals if form == "list" else {"a": vals})
            step = {"op": "set", "src": i, "attr": attr, "value": val}
        elif attr == "units":
            form = data.draw(st.sampled_from(["str", "list", "tuple"]))
            val = "px" if form == "str" else ["v%d" % k for k in range(n)]
            step = {"op": "set", "src": i, "attr": attr, "value": val, "as_tuple": form == "tuple"}
        else:
            step = {"op": "set", "src": i, "attr": attr, "value": data.draw(st.sampled_from(["x", "a b", ""]))}
        self.h.apply(step)

    @rule(data=st.data())
    def pad(self, data):
        i = self._pick(data)
        shape = self.h.entries[i].arr.shape
        nd = len(shape)
        mode = data.draw(st.sampled_from(PAD_MODES))
        step = {"op": "pad", "src": i, "in_place": data.draw(st.booleans()), "mode": mode}
        form = data.draw(st.sampled_from(["int", "pair", "per_axis", "output_shape"]))
        if mode == "reflect" and min(shape) == 1:
            mode = step["mode"] = "edge"
        if form == "int":
            step["pad_width"] = data.draw(st.integers(0, 2))
        elif form == "pair":
            step["pad_width"] = [data.draw(st.integers(0, 2)), data.draw(st.integers(0, 2))]
        elif form == "per_axis":
            step["pad_width"] = [[data.draw(st.integers(0, 2)), data.draw(st.integers(0, 2))] for _ in range(nd)]
        else:
            step["output_shape"] = [n + data.draw(st.integers(0, 3)) for n in shape]
        if int(np.prod([n + 4 for n in shape])) > 20000:
            return
        self.h.apply(step)

    @rule(data=st.data())
    def crop(self, data):
        i = self._pick(data)
        shape = self.h.entries[i].arr.shape
        axes = draw_axes(data.draw, len(shape))
        ax_list = list(range(len(shape))) if axes is None else ([axes] if isinstance(axes, int) else axes)
        cw = []
        for a in ax_list:
            n = shape[a]
            s0 = data.draw(st.integers(0, n - 1))
            s1 = data.draw(st.integers(s0 + 1, n))
            form = data.draw(st.sampled_from(["index", "zero", "neg"]))
            if form == "zero" and s1 == n:
                s1 = 0
            elif form == "neg" and s1 < n:
                s1 = s1 - n
            cw.append([s0, s1])
        self.h.apply({"op": "crop", "src": i, "in_place": data.draw(st.booleans()), "crop_widths": cw, "axes": axes})

    @rule(data=st.data())
    def bin(self, data):
        i = self._pick(data)
        shape = self.h.entries[i].arr.shape
        axes = draw_axes(data.draw, len(shape))
        ax_list = list(range(len(shape))) if axes is None else ([axes] if isinstance(axes, int) else axes)
        facs = [data.draw(st.integers(1, min(3, shape[a]))) for a in ax_list]
        f = facs[0] if (len(set(facs)) == 1 and data.draw(st.booleans())) else facs
        self.h.apply({"op": "bin", "src": i, "in_place": data.draw(st.booleans()), "factors": f, "axes": axes, "reducer": data.draw(st.sampled_from(["sum", "mean", "Mean"]))})

    @rule(data=st.data())
    def resample(self, data):
        i = self._pick(data)
        shape = self.h.entries[i].arr.shape
        axes = draw_axes(data.draw, len(shape), allow_int=False)
        ax_list = list(range(len(shape))) if axes is None else axes
        step = {"op": "resample", "src": i, "in_place": data.draw(st.booleans()), "axes": axes}
        if data.draw(st.booleans()):
            step["out_shape"] = [data.draw(st.integers(1, min(9, 2 * shape[a] + 1))) for a in ax_list]
        else:
            fs = []
            for a in ax_list:
                f = data.draw(st.sampled_from([0.5, 0.75, 1.0, 1.3, 1.5, 2.0]))
                if abs(shape[a] * f - int(shape[a] * f) - 0.5) < 0.05:
                    f = 1.0
                fs.append(f)
            step["factors"] = fs[0] if (len(set(fs)) == 1 and data.draw(st.booleans())) else fs
        self.h.apply(step)

    @rule(data=st.data())
    def index(self, data):
        i = self._pick(data)
        shape = self.h.entries[i].arr.shape
        toks, single = draw_index(data.draw, shape)
        if not _nonempty(shape, toks, single):
            self.ctx.count("index_rejected_empty_result")
            return
        self.h.apply({"op": "index", "src": i, "index": toks, "single": single})

    def teardown(self):
        if self.case_ref["steps"]:
            self.h.finish()


# ------------------------------------------------------------------------------------------------
# bounded-exhaustive enumeration over a fixed alphabet (applied to the most recent dataset)
# ------------------------------------------------------------------------------------------------
def alphabet():
    """name -> function(shape) -> step or None (inapplicable).  `src` is filled in by the caller."""
    A = {}

    def ip(name, f):
        A[name] = lambda shape, f=f: f(shape, False)
        A[name + "!"] = lambda shape, f=f: f(shape, True)

    A["copy"] = lambda shape: {"op": "copy"}
    A["set_origin"] = lambda shape: {"op": "set", "attr": "origin", "value": 2.5}
    A["set_sampling"] = lambda shape: {"op": "set", "attr": "sampling", "value": [0.5 + k for k in range(len(shape))]}
    A["set_origin_from_own_sampling"] = lambda shape: {"op": "set", "attr": "origin", "value": {"from": "self", "field": "sampling"}}
    A["set_sampling_from_root_origin"] = lambda shape: {"op": "set", "attr": "sampling", "value": {"from": 0, "field": "origin"}}
    ip("pad1", lambda s, p: {"op": "pad", "in_place": p, "mode": "edge", "pad_width": 1})
    ip("pad_out", lambda s, p: {"op": "pad", "in_place": p, "mode": "constant", "output_shape": [n + 1 + (k % 2) for k, n in enumerate(s)]})
    ip("crop0", lambda s, p: {"op": "crop", "in_place": p, "crop_widths": [[1, 0]], "axes": 0} if s[0] >= 2 else None)
    ip("crop_all", lambda s, p: {"op": "crop", "in_place": p, "crop_widths": [[0, -1]] * len(s), "axes": None} if min(s) >= 2 else None)
    ip("bin0", lambda s, p: {"op": "bin", "in_place": p, "factors": 2, "axes": 0, "reducer": "sum"} if s[0] >= 2 else None)
    ip("bin_mean", lambda s, p: {"op": "bin", "in_place": p, "factors": [2 if n >= 2 else 1 for n in s], "axes": None, "reducer": "mean"})
    ip("res_last", lambda s, p: {"op": "resample", "in_place": p, "factors": [1.5], "axes": [len(s) - 1]} if abs(s[-1] * 1.5 - int(s[-1] * 1.5) - 0.5) > 0.05 else {"op": "resample", "in_place": p, "out_shape": [s[-1] + 1], "axes": [len(s) - 1]})
    ip("res_down", lambda s, p: {"op": "resample", "in_place": p, "out_shape": [max(1, n - 1) for n in s], "axes": None})
    A["idx0"] = lambda s: {"op": "index", "index": [{"i": 0}], "single": True} if len(s) >= 2 else None
    A["idx_np_int"] = lambda s: {"op": "index", "index": [{"s": [None, None, None]}, {"i": 0, "np": "int64"}], "single": False} if len(s) >= 2 else None
    A["set_origin_column"] = lambda shape: {"op": "set", "attr": "origin", "value": {"col": [1.0 + k for k in range(len(shape))], "k": 1, "as_array": True}}
    A["idx_ell_step"] = lambda s: {"op": "index", "index": ["...", {"s": [None, None, 2]}], "single": False}
    A["idx_tail"] = lambda s: {"op": "index", "index": [{"s": [1, None, None]}], "single": True} if s[0] >= 2 else None
    A["idx_rev"] = lambda s: {"op": "index", "index": [{"s": [None, None, -1]}, "..."], "single": False}
    A["idx_mid_int"] = lambda s: {"op": "index", "index": ["...", {"i": -1}], "single": False} if len(s) >= 2 else None
    A["idx_list"] = lambda s: {"op": "index", "index": [{"l": [0, s[0] - 1]}], "single": True}
    return A


STARTS = [
    {"op": "create", "shared_calibration_array": True, "cls": "Dataset3d", "shape": [4, 2, 5], "dtype": "float64", "seed": 6, "origin": [1.5, 1.5, 1.5], "sampling": [1.5, 2.0, 0.5], "units": ["a", "b", "c"]},
    {"op": "create", "cls": "Dataset3d", "shape": [4, 3, 5], "dtype": "int8", "seed": 1, "origin": [0.0, 1.5, -3.0], "sampling": [1.0, 0.5, 2.0], "units": ["a", "b", "c"]},
    {"op": "create", "cls": "Dataset2d", "shape": [5, 4], "dtype": "float64", "seed": 2, "origin": [10.25, 0.0], "sampling": [0.125, 3.0], "units": ["x", "y"]},
    {"op": "create", "cls": "Dataset4dstem", "shape": [2, 3, 4, 2], "dtype": "uint16", "seed": 3, "origin": 0.0, "sampling": 1.0, "units": "px"},
    {"op": "create", "cls": "Dataset", "shape": [7], "dtype": "complex64", "seed": 4, "origin": [2.0], "sampling": [0.5], "units": ["t"]},
    {"op": "create", "cls": "Dataset", "shape": [2, 2, 3, 2, 2], "dtype": "float32", "seed": 5, "origin": [0.0, 1.0, 2.0, 3.0, 4.0], "sampling": [1.0, 2.0, 0.5, 1.0, 3.0], "units": ["a", "b", "c", "d", "e"]},
]


def check(ctx, case):
    case_ref = {"steps": []}
    h = Harness(ctx, case_ref)
    for s in case["steps"]:
        h.apply(s)
    h.finish()


def search(ctx):
    alpha = alphabet()
    base_names = sorted(alpha)
    # "^" variants: a copying operation whose RESULT is kept but the walk STAYS on the source dataset, so that
    # sequences like  resample(copy) on A -> in-place op on A -> resample(copy) on A  are enumerated too
    copying = [n for n in base_names if not n.endswith("!") and not n.startswith("set_")]
    for n in copying:
        alpha[n + "^"] = alpha[n]
    names = sorted(alpha)
    inplace = [n for n in base_names if n.endswith("!")]
    depth = 3 if ctx.thorough else 2
    starts = STARTS if ctx.thorough else STARTS[:4]
    seqs = list(itertools.product(names, repeat=depth))
    if not ctx.thorough:
        # quick tier: all pairs + the depth-3 family (copy-and-stay, in-place, copying) that stale per-object
        # caches need
        seqs += [(a + "^", b, c) for a in copying for b in inplace for c in copying]
    done = 0
    for si, start in enumerate(starts):
        for qi, seq in enumerate(seqs):
            if (qi + si) % ctx.nworkers != ctx.widx:
                continue
            case_ref_holder = {}
            h0 = None
            try:
                # inline version of run_sequence that tracks the dataset an in-place op acted on
                case_ref = {"steps": []}
                h = Harness(ctx, case_ref)
                h.apply(dict(start))
                cur = 0
                ok = True
                for nm in seq:
                    step = alpha[nm](h.entries[cur].arr.shape)
                    if step is None:
                        ok = False
                        break
                    step = dict(step, src=cur)
                    if step["op"] == "set" and isinstance(step.get("value"), dict) and step["value"].get("from") == "self":
                        step = dict(step, value=dict(step["value"], **{"from": cur}))
                    h.apply(step)
                    if nm.endswith("^"):
                        pass  # stay on the source
                    elif step["op"] in ("copy", "index") or (step["op"] in ("pad", "crop", "bin", "resample") and not step["in_place"]):
                        cur = len(h.entries) - 1
                if ok:
                    h.finish()
                    done += 1
                else:
                    ctx.count("enumerated_sequence_inapplicable")
            finally:
                del case_ref_holder, h0
    ctx.extra["exhaustive"] = True
    ctx.extra["exhaustive_subspace"] = "all %d^%d sequences over the %d-operation alphabet (%d base operations + %d 'apply and stay on the source' variants) from %d start datasets (depth %d)%s" % (
        len(names), depth, len(names), len(base_names), len(copying), len(starts), depth, "" if ctx.thorough else " + the depth-3 family (copy-and-stay, in-place, copying)")
    ctx.extra["enumerated_sequences_applicable"] = done

    DatasetMachine.ctx = ctx
    M = type("DatasetMachineRun", (DatasetMachine,), {})
    M.ctx = ctx
    core.run_machine(ctx, "histories", M, ctx.n(600, 1500), 12)

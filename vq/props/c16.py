"""C16 — forward-model operators obey energy, adjoint and projection identities.

Five case kinds, each judged against the algebraic identities named in the property (nothing else):

shift    fourier_shift_expand / fourier_translation_operator on complex arrays and probe stacks:
         energy preserved, T_b T_a == T_{a+b}, integer shifts == np.roll, and the two combined
         (T_{s-a} T_a == roll by the integer s, which ties sub-pixel shifts to exact rolls).
prop     ProbeBase._compute_propagator_arrays + both _propagate_array implementations: unit modulus,
         P_{-z} P_z == 1, P_a P_b == P_{a+b}, energy preserved, same identities on propagated waves.
adjoint  sum_patches against the definition of the adjoint of an index gather (numpy bincount reference)
         and <gather(o), y> == <o, sum_patches(y)> with quantem's own gather, real and complex paths.
chain    the public forward chain used by Ptychography.reconstruct (dset.forward -> probe_model.forward
         -> obj_model.forward -> forward_operator -> detector_model.forward) on a pure-phase object:
         every pattern sums to the probe's total intensity; adjointness on the real patch indices.
proj     Ptychography.fourier_projection / gradient_step: resulting Fourier magnitudes (incoherent
         sum over probe modes, detector-centred like DetectorPixelated.forward) == measured amplitudes,
         and P(P(x)) == P(x).

All arrays are pure functions of integer seeds stored in the case."""

from __future__ import annotations

import math

import numpy as np
from hypothesis import strategies as st
from hypothesis import target

from vq import core
from vq.refs import c16_ref as ref

KEY_ODD_PROJ = "c16-fourier-projection-odd-roi"

EPS32 = float(np.finfo(np.float32).eps)  # 1.19e-7
EPS64 = float(np.finfo(np.float64).eps)
LIB_EPS = 1e-9  # regulariser added to every Fourier coefficient in PtychographyBase.estimate_amplitudes


# ------------------------------------------------------------------------------------------------
# lazy quantem handles
# ------------------------------------------------------------------------------------------------
class _Q:
    pass


_q = None


def q():
    global _q
    if _q is None:
        import torch
        from quantem.core import config
        from quantem.core.datastructures.dataset4dstem import Dataset4dstem
        from quantem.core.utils.utils import electron_wavelength_angstrom
        from quantem.diffractive_imaging import ptycho_utils
        from quantem.diffractive_imaging.dataset_models import PtychographyDatasetRaster
        from quantem.diffractive_imaging.detector_models import DetectorPixelated
        from quantem.diffractive_imaging.object_models import ObjectPixelated
        from quantem.diffractive_imaging.probe_models import ProbePixelated
        from quantem.diffractive_imaging.ptychography import Ptychography
        from quantem.diffractive_imaging.ptychography_base import PtychographyBase

        o = _Q()
        o.torch = torch
        o.config = config
        o.Dataset4dstem = Dataset4dstem
        o.wavelength = electron_wavelength_angstrom
        o.pu = ptycho_utils
        o.PtychographyDatasetRaster = PtychographyDatasetRaster
        o.DetectorPixelated = DetectorPixelated
        o.ObjectPixelated = ObjectPixelated
        o.ProbePixelated = ProbePixelated
        o.Ptychography = Ptychography
        o.PtychographyBase = PtychographyBase
        _q = o
    return _q


def _cplx(seed, shape, scale=1.0, dtype="complex128"):
    rng = np.random.default_rng(seed)
    a = rng.standard_normal(shape) + 1j * rng.standard_normal(shape)
    return (a * scale).astype(dtype)


def _np(t):
    if isinstance(t, np.ndarray):
        return t
    return t.detach().cpu().numpy()


def _l2(x):
    """l2 norm over the last two axes, in float64."""
    x = np.asarray(x)
    return np.sqrt(np.sum(np.abs(x.astype(np.complex128)) ** 2, axis=(-2, -1)))


def _fail(case, msg):
    raise core.Violation(msg, case)


STATS = {}  # what -> worst err/tol ratio seen in this process (reported in the evidence file)


def _judge(case, label, err, tol, what):
    """err, tol: scalars or arrays.  Feeds hypothesis.target with the worst err/tol ratio."""
    err = np.asarray(err, dtype=np.float64)
    tol = np.broadcast_to(np.asarray(tol, dtype=np.float64), err.shape)
    if err.size == 0:
        return
    if not np.all(np.isfinite(err)):
        _fail(case, "%s: non-finite result" % what)
    ratio = err / np.maximum(tol, 1e-300)
    i = int(np.argmax(ratio))
    r = float(ratio.ravel()[i])
    key = what.split(": ")[-1]
    if r > STATS.get(key, -1.0):
        STATS[key] = r
    try:
        target(min(r, 1e6), label=label)
    except Exception:  # outside a hypothesis run (replay)
        pass
    if r > 1.0:
        _fail(case, "%s: error %.3e exceeds tolerance %.3e" % (what, float(err.ravel()[i]), float(tol.ravel()[i])))


# ------------------------------------------------------------------------------------------------
# generators
# ------------------------------------------------------------------------------------------------
SEEDS = st.integers(0, 2**31 - 1)


def _fl(lo, hi):
    """Floats in [lo, hi] rounded to 4 decimals (readable replay files; rounding is monotone, so the
    bounds -- themselves multiples of 1e-4 -- are respected)."""
    return st.floats(lo, hi, allow_nan=False, allow_infinity=False).map(lambda v: round(v, 4))


def _side(lo=2, hi=16):
    return st.one_of(st.integers(lo, hi), st.sampled_from([2, 3, 4, 5, 8, 9]).filter(lambda v: lo <= v <= hi))


def _shift_component(size):
    big = 3.0 * size
    return st.one_of(
        _fl(-1.0, 1.0),
        _fl(-big, big),
        st.sampled_from([0.0, 0.5, -0.5, 0.25, 1.0, -1.0, 1.5]),
        st.integers(-3 * size, 3 * size).map(float),
    )


@st.composite
def shift_cases(draw):
    R, C = draw(_side()), draw(_side())
    M = draw(st.sampled_from([0, 1, 2, 3, 4]))  # 0: plain 2-D array, else probe stack of M modes
    N = draw(st.integers(1, 3))
    pair = st.tuples(_shift_component(R), _shift_component(C)).map(list)
    ipair = st.tuples(st.integers(-3 * R, 3 * R), st.integers(-3 * C, 3 * C)).map(list)
    # dtype of the array / tensor that holds the shift vectors: "match" is the float type of the same
    # width as the data (what the package's own callers pass); integer dtypes hold whole-pixel shifts
    pos_dtype = draw(st.sampled_from(["match", "match", "float64", "float32", "int64", "int32", "int16"]))
    if pos_dtype.startswith("int"):
        pair = ipair
    return {
        "kind": "shift",
        "pos_dtype": pos_dtype,
        # write the same shifts in the other spelling (int <-> float) for one side of each law
        "mix": draw(st.booleans()),
        "backend": draw(st.sampled_from(["torch", "np"])),
        "dtype": draw(st.sampled_from(["complex128", "complex64"])),
        "shape": ([M] if M else []) + [R, C],
        "seed": draw(SEEDS),
        "scale": draw(st.sampled_from([1.0, 1e-3, 1e3])),
        "a": draw(st.lists(pair, min_size=N, max_size=N)),
        "b": draw(st.lists(pair, min_size=N, max_size=N)),
        "s": draw(st.lists(ipair, min_size=N, max_size=N)),
    }


PROP_REQ0 = [0, 1, 2, 3]  # pool indices of the first request: a, b, a+b, -a
PROP_INVERSE = [(0, 3), (1, 4), (2, 5)]  # pool index pairs (z, -z)
PROP_SUM = [(0, 1, 2), (3, 4, 5)]  # pool index triples (x, y, x+y)


@st.composite
def prop_cases(draw):
    tilt = draw(
        st.one_of(
            st.just([0.0, 0.0]),
            st.tuples(_fl(-30, 30), _fl(-30, 30)).map(list),
            st.tuples(st.just(0.0), _fl(-30, 30)).map(list),
        )
    )
    dz = st.one_of(_fl(-40, 40), st.sampled_from([1.0, 5.0, 10.0, 20.0, 0.0]))
    # history on ONE probe-model instance: request 0 is the stack [a, b, a+b, -a]; every later request
    # names distances from the pool [a, b, a+b, -a, -b, -(a+b)] and may first change the tilt / energy
    # through the public setters or ask with another sampling; half of the requests repeat the previous
    # request's distances exactly
    tilt_st = st.one_of(st.tuples(_fl(-30, 30), _fl(-30, 30)).map(list), st.just([0.0, 0.0]))
    history = []
    prev = list(PROP_REQ0)
    for _ in range(draw(st.integers(1, 3))):
        req = prev if draw(st.booleans()) else draw(st.lists(st.integers(0, 5), min_size=1, max_size=3))
        change = draw(st.sampled_from(["tilt", "tilt", "none", "energy", "sampling", "tilt+energy"]))
        step = {"req": list(req), "tilt": None, "energy": None, "sampling": None}
        if "tilt" in change:
            step["tilt"] = draw(tilt_st)
        if "energy" in change:
            step["energy"] = draw(st.sampled_from([20e3, 60e3, 80e3, 200e3, 300e3, 1e6]))
        if change == "sampling":
            step["sampling"] = [draw(_fl(0.1, 1.0)), draw(_fl(0.1, 1.0))]
        history.append(step)
        prev = list(req)
    return {
        "kind": "prop",
        "history": history,
        "learn_tilt": draw(st.sampled_from([False, False, False, True])),
        "R": draw(_side()),
        "C": draw(_side()),
        "sampling": [draw(_fl(0.1, 1.0)), draw(_fl(0.1, 1.0))],
        "energy": draw(st.sampled_from([20e3, 60e3, 80e3, 200e3, 300e3, 1e6]) | _fl(1e4, 1e6)),
        "tilt": tilt,
        "dz": [draw(dz), draw(dz)],
        "M": draw(st.integers(1, 4)),
        "dtype": draw(st.sampled_from(["complex128", "complex64"])),
        "seed": draw(SEEDS),
    }


@st.composite
def adjoint_cases(draw):
    Ro, Co = draw(_side(2, 14)), draw(_side(2, 14))
    return {
        "kind": "adjoint",
        "obj_shape": [draw(st.integers(1, 3)), Ro, Co],
        "patch": [draw(st.integers(1, 4)), draw(_side(1, 8)), draw(_side(1, 8))],
        "index_mode": draw(st.sampled_from(["random", "random", "few", "distinct", "window"])),
        "index_dtype": draw(st.sampled_from(["int64", "int32"])),
        "pdtype": draw(st.sampled_from(["complex128", "complex64", "float64", "float32"])),
        "seed": draw(SEEDS),
    }


@st.composite
def adjoint_large_cases(draw):
    """One sum_patches call with about 2**20 or 2**21 patch pixels (never an exact multiple of 2**20):
    realistic batch x roi sizes, where block-wise / chunked scatter paths are exercised."""
    R, C = draw(st.integers(96, 160)), draw(st.integers(96, 160))
    target = draw(st.sampled_from([2**20, 2**20, 2**21]))
    N = target // (R * C)
    if draw(st.sampled_from([False, True, True, True])):
        N += draw(st.integers(1, 3))
    if (N * R * C) % 2**20 == 0:
        C += 1
    return {
        "kind": "adjoint",
        "large": True,
        "obj_shape": [1, draw(st.integers(100, 300)), draw(st.integers(100, 300))],
        "patch": [N, R, C],
        "index_mode": draw(st.sampled_from(["window", "window", "random"])),
        "index_dtype": draw(st.sampled_from(["int64", "int32"])),
        "pdtype": draw(st.sampled_from(["complex128", "complex64", "float64", "float32"])),
        "seed": draw(SEEDS),
    }


@st.composite
def _geometry(draw, lo=2, hi=12):
    R, C = draw(_side(lo, hi)), draw(_side(lo, hi))
    return {
        "R": R,
        "C": C,
        "gpts": [draw(st.integers(2, 4)), draw(st.integers(2, 4))],
        "sampling": [draw(_fl(0.2, 0.8)), draw(_fl(0.2, 0.8))],
        # scan step in object pixels; >= 1.05 so the field of view is at least one object pixel
        "step_px": [draw(_fl(1.05, 4.0)), draw(_fl(1.05, 4.0))],
        "pad": [draw(st.integers(0, 5)), draw(st.integers(0, 5))],
        "energy": draw(st.sampled_from([60e3, 80e3, 200e3, 300e3])),
    }


@st.composite
def chain_cases(draw):
    g = draw(_geometry())
    S = draw(st.sampled_from([1, 2, 2, 3, 4]))
    thick = None
    if S >= 2:
        t = _fl(1.0, 30.0)
        thick = draw(t) if (S == 2 or draw(st.booleans())) else draw(st.lists(t, min_size=S - 1, max_size=S - 1))
    tilt = draw(
        st.one_of(
            st.just([0.0, 0.0]),
            st.tuples(_fl(-20, 20), _fl(-20, 20)).map(list),
        )
    )
    g.update(
        {
            "kind": "chain",
            "S": S,
            "thick": thick,
            "tilt": tilt,
            "M": draw(st.sampled_from([1, 2, 2, 3, 4])),
            "obj_type": draw(st.sampled_from(["pure_phase", "pure_phase", "potential"])),
            "descan": draw(st.booleans()),
            "jitter": draw(st.sampled_from([0.0, 0.7, 8.0])),
            "ortho": draw(st.booleans()),
            "hi": draw(st.booleans()),  # float64/complex128 configuration
            "subset": draw(st.booleans()),
            # multislice only: change the probe tilt through the public setter after the first pass,
            # recompute the propagators and run the chain again on the same instance
            "retilt": draw(st.none() | st.tuples(_fl(-20, 20), _fl(-20, 20)).map(list)) if S >= 2 else None,
            "seed": draw(SEEDS),
        }
    )
    return g


# overall amplitude scale of exit waves and measured amplitudes (dose / probability normalised data are
# far from O(1)); all projection tolerances are relative to the scale
PROJ_SCALES = [1e-4, 1e-6, 1e-5, 1e-3, 1e-2, 0.1, 1.0, 10.0, 1e3]


@st.composite
def proj_cases(draw, even_only=False):
    g = draw(_geometry(2, 12))
    if even_only:
        g["R"] += g["R"] % 2
        g["C"] += g["C"] % 2
    g.update(
        {
            "kind": "proj",
            "M": draw(st.sampled_from([1, 1, 2, 3, 4])),
            "N": draw(st.integers(1, 3)),
            "dtype": draw(st.sampled_from(["complex128", "complex64"])),
            "amp": draw(st.sampled_from(PROJ_SCALES)),
            "zeros": draw(st.sampled_from(["none", "some", "some", "most", "all"])),
            "seed": draw(SEEDS),
        }
    )
    if g["M"] == 1:
        # single-mode exit waves with EXACTLY zero Fourier coefficients (an empty pattern inside a batch, an all-zero
        # wave, a constant wave): the projection still has to install the measured amplitudes there (seeded change
        # C16-13: F/|F| instead of exp(i arg F)).  Not drawn for mixed states, whose magnitudes are rescaled by
        # m/(T + 1e-9) and stay zero where the incoherent magnitude T is zero.
        g["wave"] = draw(st.sampled_from(["random", "random", "one_zero_pattern", "all_zero", "constant"]))
    return g


# ------------------------------------------------------------------------------------------------
# shift
# ------------------------------------------------------------------------------------------------
def _shift_tol(dtype, smax, l2):
    """Tolerance for anything compared against an exact roll.  The library builds the phase ramp from
    fftfreq cast to float32, so every Fourier coefficient is rotated by at most
    2*pi*|k|*|s|*2^-24 <= 1.9e-7*(|s_r|+|s_c|) rad; the result is then off by at most that times
    ||x||_2 (Cauchy-Schwarz).  2e-6*(1+|s|max) is >= 5x that bound.  complex64 adds float32 phase
    arithmetic and a float32 FFT (measured 2.6e-7*(1+|s|) on the clean tree)."""
    if dtype == "complex128":
        return 2e-6 * (1.0 + smax) * l2
    return (1e-5 * (1.0 + smax) + 2e-5) * l2


def _check_shift(ctx, case):
    Q = q()
    shape = tuple(case["shape"])
    R, C = shape[-2:]
    a = np.array(case["a"], dtype=np.float64).reshape(-1, 2)
    b = np.array(case["b"], dtype=np.float64).reshape(-1, 2)
    s = np.array(case["s"], dtype=np.int64).reshape(-1, 2)
    N = a.shape[0]
    dtype = case["dtype"]
    fdt = np.float64 if dtype == "complex128" else np.float32
    is_torch = case["backend"] == "torch"
    pos_dtype = case.get("pos_dtype", "match")
    mix = bool(case.get("mix", False))
    pdt = np.dtype(fdt if pos_dtype == "match" else pos_dtype)
    int_pos = pdt.kind == "i"
    if int_pos:  # whole-pixel shifts only
        a, b = np.round(a), np.round(b)
    # which spelling each law uses: P1 the case's dtype, P2 the other spelling where `mix` asks for it
    dt_other = np.dtype(fdt) if int_pos else np.dtype(np.int64)
    dt_b = dt_other if (mix and int_pos) else pdt  # b and a+b
    dt_s = dt_other if (mix and not int_pos) else pdt  # the integer shifts s (s - a stays in P1)
    if not int_pos and dt_s.kind != "i":
        dt_s = pdt

    def _is_hi(dt):
        # the library multiplies a float32 frequency grid with the positions: numpy promotes with
        # float64 / int32 / int64 positions to float64, torch keeps float32 unless positions are float64
        if dtype != "complex128":
            return False
        return dt == np.float64 or (not is_torch and dt in (np.dtype(np.int64), np.dtype(np.int32)))

    prec = "complex128" if all(_is_hi(d) for d in (pdt, dt_b, dt_s)) else "complex64"

    nonint_even = bool(
        np.any((a[:, 0] != np.round(a[:, 0])) & (R % 2 == 0)) or np.any((a[:, 1] != np.round(a[:, 1])) & (C % 2 == 0))
    )
    classes = ["shift", "shift:" + case["backend"], "shift:" + dtype, "shift:stack" if len(shape) == 3 else "shift:2d"]
    classes.append("shift:R_%s_C_%s" % ("even" if R % 2 == 0 else "odd", "even" if C % 2 == 0 else "odd"))
    if R != C:
        classes.append("shift:nonsquare")
    if nonint_even:
        classes.append("shift:noninteger_on_even_axis")
    if float(np.abs(a).max()) > max(R, C):
        classes.append("shift:beyond_one_period")
    classes.append("shift:positions_" + str(pdt))
    if int_pos:
        classes.append("shift:integer_dtype_positions")
    if dt_b != pdt or dt_s != pdt:
        classes.append("shift:mixed_int_float_spelling")
    ctx.record(case, nonint_even or int_pos or dt_b != pdt or dt_s != pdt, classes)

    x = _cplx(case["seed"], shape, case["scale"], dtype)
    x64 = x.astype(np.complex128)

    def arr(v):
        return Q.torch.tensor(v) if is_torch else v

    def pos(v, dt=pdt):
        v = np.asarray(v)
        if np.dtype(dt).kind == "i":
            if not np.array_equal(v, np.round(v)):
                raise core.HarnessError("non-integer shift for an integer position dtype")
            v = np.round(v)
        v = v.astype(dt)
        return Q.torch.tensor(v) if is_torch else v

    with ctx.sut(case, "fourier_shift_expand"):
        ya = Q.pu.fourier_shift_expand(arr(x), pos(a))
        yab = Q.pu.fourier_shift_expand(arr(x), pos(a + b, dt_b))
        ys = Q.pu.fourier_shift_expand(arr(x), pos(s, dt_s))
        # second shift applied per position to the already shifted array
        comp = [Q.pu.fourier_shift_expand(ya[n], pos(b[n : n + 1], dt_b))[0] for n in range(N)]
        comp_int = [Q.pu.fourier_shift_expand(ya[n], pos((s[n] - a[n])[None]))[0] for n in range(N)]
        ramp_a = Q.pu.fourier_translation_operator(pos(a), shape)
        ramp_b = Q.pu.fourier_translation_operator(pos(b, dt_b), shape)
        ramp_ab = Q.pu.fourier_translation_operator(pos(a + b, dt_b), shape)
        per_mode = None
        if len(shape) == 3:
            # one shift per mode, no broadcasting (the way the probe centring constraint calls it)
            sm = s[np.arange(shape[0]) % N]
            per_mode = Q.pu.fourier_shift_expand(arr(x), pos(sm, dt_s), expand_dim=False)
    ya_n = _np(ya)
    want_shape = (N,) + shape
    for name, y in (("T_a x", ya_n), ("T_{a+b} x", _np(yab)), ("T_s x", _np(ys))):
        if tuple(y.shape) != want_shape:
            _fail(case, "fourier_shift_expand: %s has shape %s, expected %s" % (name, tuple(y.shape), want_shape))
        if not np.iscomplexobj(y):
            _fail(case, "fourier_shift_expand of a complex array returned a real array")
    ya_n = ya_n.astype(np.complex128)
    yab_n = _np(yab).astype(np.complex128)
    ys_n = _np(ys).astype(np.complex128)
    comp_n = np.stack([_np(c) for c in comp]).astype(np.complex128)
    compi_n = np.stack([_np(c) for c in comp_int]).astype(np.complex128)

    l2 = _l2(x64)  # per mode (or scalar)
    rel = 1e-10 if prec == "complex128" else 1e-4
    # 1. energy, per position and mode
    e0 = l2**2
    _judge(case, "shift", np.abs(_l2(ya_n) ** 2 - e0[None]), rel * e0[None] * np.ones((N,) + e0.shape), "energy of T_a x vs x")
    # 2. unit-modulus ramp and ramp composition
    ra, rb, rab = (_np(r).astype(np.complex128) for r in (ramp_a, ramp_b, ramp_ab))
    _judge(case, "shift", np.abs(np.abs(ra) - 1.0), rel, "|translation operator| == 1")
    amax = float(np.abs(np.concatenate([a, b])).max())
    ctol = rel if prec == "complex128" else 1e-5 * (1.0 + amax) + 2e-5
    _judge(case, "shift", np.abs(ra * rb - rab), ctol, "operator(a)*operator(b) == operator(a+b)")
    # 3. composition on arrays
    l2n = np.broadcast_to(l2, ya_n.shape[:-2])[..., None, None]
    ctol_x = (rel * (1.0 + amax) if prec == "complex128" else 1e-5 * (1.0 + amax) + 2e-5) * l2n
    _judge(case, "shift", np.abs(comp_n - yab_n), ctol_x * np.ones(comp_n.shape), "T_b T_a x == T_{a+b} x")
    # 4. integer shifts are circular rolls
    roll = np.stack([np.roll(x64, (int(s[n, 0]), int(s[n, 1])), axis=(-2, -1)) for n in range(N)])
    smax = np.abs(s).max(axis=1).astype(np.float64).reshape((N,) + (1,) * (roll.ndim - 1))
    _judge(case, "shift", np.abs(ys_n - roll), _shift_tol(prec, smax, l2n) * np.ones(roll.shape), "integer shift == np.roll")
    if per_mode is not None:
        pm_n = _np(per_mode)
        if tuple(pm_n.shape) != shape:
            _fail(case, "fourier_shift_expand(expand_dim=False) returned shape %s, expected %s" % (tuple(pm_n.shape), shape))
        roll_m = np.stack([np.roll(x64[k], (int(sm[k, 0]), int(sm[k, 1])), axis=(-2, -1)) for k in range(shape[0])])
        smax_m = np.abs(sm).max(axis=1).astype(np.float64)[:, None, None]
        _judge(
            case,
            "shift",
            np.abs(pm_n.astype(np.complex128) - roll_m),
            _shift_tol(prec, smax_m, l2[:, None, None]) * np.ones(roll_m.shape),
            "per-mode integer shift (expand_dim=False) == np.roll",
        )
    # 5. a sub-pixel shift followed by the complementary shift is the integer roll
    s2 = (np.abs(a).max(axis=1) + np.abs(s - a).max(axis=1)).reshape(smax.shape)
    _judge(
        case, "shift", np.abs(compi_n - roll), _shift_tol(prec, s2, l2n) * np.ones(roll.shape), "T_{s-a} T_a x == np.roll(x, s)"
    )


# ------------------------------------------------------------------------------------------------
# propagators
# ------------------------------------------------------------------------------------------------
def _phase_per_A(E, samp, tilt):
    """Largest phase (rad) per Angstrom of distance any propagator element can carry (float64, harness
    side): the library evaluates the phase in float32, so its error is proportional to this."""
    lam = ref.wavelength_angstrom(float(E))
    kmax = 0.5 / np.asarray(samp, dtype=np.float64)
    return math.pi * lam * float(np.sum(kmax**2)) + 2 * math.pi * float(
        abs(math.tan(tilt[0] / 1e3)) * kmax[0] + abs(math.tan(tilt[1] / 1e3)) * kmax[1]
    )


def _check_prop(ctx, case):
    Q = q()
    torch = Q.torch
    R, C, M = case["R"], case["C"], case["M"]
    samp = np.array(case["sampling"], dtype=np.float64)
    tilt = [float(t) for t in case["tilt"]]
    za, zb = (float(z) for z in case["dz"])
    E = float(case["energy"])
    pool = np.array([za, zb, za + zb, -za, -zb, -(za + zb)], dtype=np.float64)
    dz = pool[PROP_REQ0]
    history = case.get("history") or []
    learn = bool(case.get("learn_tilt", False))

    per_A = _phase_per_A(E, samp, tilt)
    phi = np.abs(dz) * per_A
    nontrivial = bool(phi[0] > 1e-2 or phi[1] > 1e-2)
    classes = ["prop", "prop:" + case["dtype"], "prop:tilted" if any(tilt) else "prop:untilted"]
    if R != C:
        classes.append("prop:nonsquare")
    if za < 0 or zb < 0:
        classes.append("prop:negative_distance")
    if learn:
        classes.append("prop:learn_probe_tilt")
    prev_req = list(PROP_REQ0)
    for st_ in history:
        changed = [k for k in ("tilt", "energy", "sampling") if st_.get(k) is not None]
        for k in changed:
            classes.append("prop:history_%s_change" % k)
        if list(st_["req"]) == prev_req:
            classes.append("prop:history_identical_repeat" + ("_after_change" if changed else ""))
        prev_req = list(st_["req"])
    classes.append("prop:history_len_%d" % (1 + len(history)))
    ctx.record(case, nontrivial, classes)

    probe = _cplx(case["seed"], (M, R, C), 1.0, "complex64")
    x = _cplx(case["seed"] + 1, (M, 2, R, C), 1.0, case["dtype"])
    with ctx.sut(case, "_compute_propagator_arrays"):
        pm = Q.ProbePixelated.from_array(
            probe_array=probe, probe_params={"energy": E}, probe_tilt=tuple(tilt), learn_probe_tilt=learn
        )
        P = pm._compute_propagator_arrays(samp, len(dz) + 1, dz)
    Pn = _np(P)
    if tuple(Pn.shape) != (len(dz), R, C):
        _fail(case, "propagator stack has shape %s, expected %s" % (tuple(Pn.shape), (len(dz), R, C)))
    Pn = Pn.astype(np.complex128)
    # float32 evaluation: measured on the clean tree 2.0e-7 (modulus) and 1.9e-7*(1+phi) (products)
    _judge(case, "prop", np.abs(np.abs(Pn) - 1.0), 5e-6, "|propagator| == 1")
    _judge(case, "prop", np.abs(Pn[0] * Pn[3] - 1.0), 4e-6 * (1 + 2 * phi[0]), "P(-z) P(z) == 1")
    _judge(case, "prop", np.abs(Pn[0] * Pn[1] - Pn[2]), 4e-6 * (1 + phi[0] + phi[1] + phi[2]), "P(a) P(b) == P(a+b)")

    xt = torch.tensor(x)
    om = _obj_instance()
    x64 = x.astype(np.complex128)
    l2 = _l2(x64)[..., None, None]
    e0 = _l2(x64) ** 2
    f32 = case["dtype"] == "complex64"
    for name, fn in (
        ("PtychographyBase._propagate_array", lambda u, p: Q.PtychographyBase._propagate_array(None, u, p)),
        ("ObjectBase._propagate_array", om._propagate_array),
    ):
        with ctx.sut(case, name):
            ya = fn(xt, P[0])
            yab = fn(ya, P[1])
            y2 = fn(xt, P[2])
            yi = fn(ya, P[3])
        ya_n, yab_n, y2_n, yi_n = (_np(t).astype(np.complex128) for t in (ya, yab, y2, yi))
        if ya_n.shape != x.shape:
            _fail(case, "%s changed the array shape" % name)
        extra = 2e-5 if f32 else 0.0
        _judge(case, "prop", np.abs(_l2(ya_n) ** 2 - e0), (1e-5 + extra) * e0, "%s: energy preserved" % name)
        _judge(case, "prop", np.abs(yi_n - x64), (4e-6 * (1 + 2 * phi[0]) + extra) * l2, "%s: propagate by z then -z == identity" % name)
        _judge(
            case,
            "prop",
            np.abs(yab_n - y2_n),
            (4e-6 * (1 + phi[0] + phi[1] + phi[2]) + extra) * l2,
            "%s: propagate by a then b == propagate by a+b" % name,
        )

    # ---- history on the same instance: the identities must also hold between propagators obtained
    # in DIFFERENT requests made under the same current (tilt, energy, sampling), and every stack must
    # be what a fresh instance with the current parameters returns
    cur = {"tilt": list(tilt), "energy": E, "sampling": [float(v) for v in samp]}
    seen = {}

    def skey():
        return (tuple(cur["tilt"]), cur["energy"], tuple(cur["sampling"]))

    seen[skey()] = {i: Pn[k] for k, i in enumerate(PROP_REQ0)}
    for n, step in enumerate(history, start=1):
        req = [int(i) for i in step["req"]]
        zs = pool[req]
        with ctx.sut(case, "history request %d (public setters + _compute_propagator_arrays)" % n):
            if step.get("tilt") is not None:
                cur["tilt"] = [float(t) for t in step["tilt"]]
                pm.probe_tilt = tuple(cur["tilt"])
            if step.get("energy") is not None:
                cur["energy"] = float(step["energy"])
                pm.probe_params = {"energy": cur["energy"]}
            if step.get("sampling") is not None:
                cur["sampling"] = [float(v) for v in step["sampling"]]
            Ph = pm._compute_propagator_arrays(np.array(cur["sampling"]), len(zs) + 1, zs)
            fresh = Q.ProbePixelated.from_array(
                probe_array=probe, probe_params={"energy": cur["energy"]}, probe_tilt=tuple(cur["tilt"]), learn_probe_tilt=learn
            )._compute_propagator_arrays(np.array(cur["sampling"]), len(zs) + 1, zs)
        Ph_n = _np(Ph)
        if tuple(Ph_n.shape) != (len(zs), R, C):
            _fail(case, "request %d: propagator stack has shape %s, expected %s" % (n, tuple(Ph_n.shape), (len(zs), R, C)))
        Ph_n = Ph_n.astype(np.complex128)
        pa = _phase_per_A(cur["energy"], cur["sampling"], cur["tilt"])
        ph = lambda i: abs(pool[i]) * pa  # noqa: E731
        _judge(case, "prop", np.abs(np.abs(Ph_n) - 1.0), 5e-6, "request %d: |propagator| == 1" % n)
        bucket = seen.setdefault(skey(), {})
        new = {}
        for k, i in enumerate(req):
            new[i] = Ph_n[k]
        both = dict(bucket)
        both.update(new)
        for i, Pi in new.items():
            if i in bucket:
                _judge(
                    case, "prop", np.abs(Pi - bucket[i]), 4e-6 * (1 + 2 * ph(i)),
                    "request %d: P(z) equals P(z) of an earlier request with the same tilt/energy/sampling" % n,
                )
        for i, j in PROP_INVERSE:
            if i in both and j in both and (i in new or j in new):
                _judge(
                    case, "prop", np.abs(both[i] * both[j] - 1.0), 4e-6 * (1 + 2 * ph(i)),
                    "request %d: P(-z) P(z) == 1 across requests with the same tilt/energy/sampling" % n,
                )
        for i, j, k in PROP_SUM:
            if i in both and j in both and k in both and (i in new or j in new or k in new):
                _judge(
                    case, "prop", np.abs(both[i] * both[j] - both[k]), 4e-6 * (1 + ph(i) + ph(j) + ph(k)),
                    "request %d: P(a) P(b) == P(a+b) across requests with the same tilt/energy/sampling" % n,
                )
        bucket.update(new)
        fr_n = _np(fresh).astype(np.complex128)
        tol = 4e-6 * (1 + 2 * np.abs(zs) * pa)[:, None, None]
        _judge(
            case, "prop", np.abs(Ph_n - fr_n), tol * np.ones(Ph_n.shape),
            "request %d: propagators equal those of a fresh probe model with the current tilt/energy" % n,
        )


_OBJ = None


def _obj_instance():
    global _OBJ
    if _OBJ is None:
        _OBJ = q().ObjectPixelated.from_uniform(num_slices=1, obj_type="complex")
    return _OBJ


# ------------------------------------------------------------------------------------------------
# adjoint
# ------------------------------------------------------------------------------------------------
def _make_indices(case):
    S, Ro, Co = case["obj_shape"]
    N, R, C = case["patch"]
    rng = np.random.default_rng(case["seed"] + 7)
    size = Ro * Co
    mode = case["index_mode"]
    if mode == "random":
        idx = rng.integers(0, size, (N, R, C))
    elif mode == "few":
        pool = rng.integers(0, size, max(1, min(4, size)))
        idx = pool[rng.integers(0, len(pool), (N, R, C))]
    elif mode == "distinct":
        n = N * R * C
        if n <= size:
            idx = rng.permutation(size)[:n].reshape(N, R, C)
        else:
            idx = rng.integers(0, size, (N, R, C))
    else:  # "window": wrapped windows at random positions, the way real patch indices look
        idx = ref.window_indices(rng.integers(-Ro, 2 * Ro, N), rng.integers(-Co, 2 * Co, N), (R, C), (Ro, Co))
    return idx.astype(case["index_dtype"])


def _scatter_tol(y, idx, size, bits32):
    """Rounding bound for a sum of n terms in any order: (n-1)*eps*sum|terms| (first order); x4."""
    flat = idx.ravel().astype(np.int64)
    cnt = np.bincount(flat, minlength=size).astype(np.float64)
    asum = np.bincount(flat, weights=np.abs(y.astype(np.complex128)).ravel(), minlength=size)
    eps = EPS32 if bits32 else EPS64
    floor = (1e-6 if bits32 else 1e-12) * float(np.abs(y).max() if y.size else 0.0)
    return 4 * eps * (cnt + 1) * asum + floor, cnt


def _judge_adjoint(ctx, case, label, idx, y, out, obj_shape2d, o_list, gathers, bits32):
    """out = sum_patches(y, idx); o_list/gathers: objects and their quantem-gathered patches."""
    Ro, Co = obj_shape2d
    size = Ro * Co
    if tuple(out.shape) != (Ro, Co):
        _fail(case, "sum_patches returned shape %s, expected %s" % (tuple(out.shape), (Ro, Co)))
    out = out.astype(np.complex128)
    tol, cnt = _scatter_tol(y, idx, size, bits32)
    # transpose of the index-gather matrix: want[k] = sum of y[p] over all p with idx[p] == k
    flat = idx.ravel().astype(np.int64)
    y128 = y.astype(np.complex128).ravel()
    want = np.bincount(flat, weights=y128.real, minlength=size) + 1j * np.bincount(flat, weights=y128.imag, minlength=size)
    _judge(case, label, np.abs(out.ravel() - want), tol, "sum_patches vs the adjoint of the index gather (numpy bincount reference)")
    for o, g in zip(o_list, gathers):
        o = o.astype(np.complex128)
        g = g.astype(np.complex128)
        # the gather itself is what the inner product is taken with; make sure it is the index gather
        if g.shape != idx.shape or not np.array_equal(g, o.ravel()[idx]):
            _fail(case, "patch extraction is not object[indices]")
        lhs = np.sum(np.conj(g) * y.astype(np.complex128))
        rhs = np.sum(np.conj(o) * out)
        t = float(np.sum(np.abs(o).ravel() * tol)) + 1e-12 * float(np.linalg.norm(g) * np.linalg.norm(y))
        _judge(case, label, abs(lhs - rhs), t, "<gather(o), y> == <o, sum_patches(y)>")
    return cnt


def _check_adjoint(ctx, case):
    Q = q()
    torch = Q.torch
    S, Ro, Co = case["obj_shape"]
    N, R, C = case["patch"]
    idx = _make_indices(case)
    pd = case["pdtype"]
    bits32 = pd in ("complex64", "float32")
    is_c = pd.startswith("complex")
    rng = np.random.default_rng(case["seed"])
    y = rng.standard_normal((N, R, C))
    if is_c:
        y = y + 1j * rng.standard_normal((N, R, C))
    y = y.astype(pd)
    uniq = np.unique(idx).size
    repeats = uniq < idx.size
    classes = ["adjoint", "adjoint:" + pd, "adjoint:" + case["index_mode"], "adjoint:" + case["index_dtype"]]
    if repeats:
        classes.append("adjoint:repeated_indices")
    npix = int(idx.size)
    if npix > 2**21:
        classes.append("adjoint:patch_pixels_above_2^21")
    elif npix > 2**20:
        classes.append("adjoint:patch_pixels_2^20_to_2^21")
    elif npix > 2**19:
        classes.append("adjoint:patch_pixels_2^19_to_2^20")
    ctx.record(case, repeats, classes)

    with ctx.sut(case, "sum_patches"):
        out = Q.pu.sum_patches(torch.tensor(y), torch.tensor(idx), (Ro, Co))
    if is_c:
        o = _cplx(case["seed"] + 3, (S, Ro, Co), 1.0, "complex128" if not bits32 else "complex64")
        with ctx.sut(case, "ObjectBase._get_obj_patches"):
            g = _np(_obj_instance()._get_obj_patches(torch.tensor(o), torch.tensor(idx)))
        o_list, gathers = list(o), list(g)
    else:
        # real path: quantem's gather maps real objects through exp(i.), so the plain index gather is
        # taken on the harness side
        o = np.random.default_rng(case["seed"] + 3).standard_normal((S, Ro, Co))
        o_list, gathers = list(o), [oo.ravel()[idx] for oo in o]
    out_n = _np(out)
    _judge_adjoint(ctx, case, "adjoint", idx, y, out_n, (Ro, Co), o_list, gathers, bits32)


# ------------------------------------------------------------------------------------------------
# building a small public-API problem
# ------------------------------------------------------------------------------------------------
class _Precision:
    def __init__(self, hi):
        self.hi = hi

    def __enter__(self):
        c = q().config
        self.old = (c.get("dtype_real"), c.get("dtype_complex"))
        new = ("float64", "complex128") if self.hi else ("float32", "complex64")
        c.set({"dtype_real": new[0], "dtype_complex": new[1]})

    def __exit__(self, *a):
        q().config.set({"dtype_real": self.old[0], "dtype_complex": self.old[1]})


def _build(case, S, thick, tilt, M, obj_type, seed, random_object=True):
    """Dataset -> models -> Ptychography.preprocess, all through public constructors."""
    Q = q()
    R, C = case["R"], case["C"]
    gr, gc = case["gpts"]
    samp = np.array(case["sampling"], dtype=np.float64)
    step = np.array(case["step_px"], dtype=np.float64) * samp
    rs = 1.0 / (samp * np.array([R, C]))
    rng = np.random.default_rng(seed)
    arr = (rng.random((gr, gc, R, C)) + 0.1).astype(np.float32)
    d4 = Q.Dataset4dstem.from_array(array=arr, sampling=(step[0], step[1], rs[0], rs[1]), units=("A", "A", "A^-1", "A^-1"))
    pdset = Q.PtychographyDatasetRaster.from_dataset4dstem(d4, verbose=0)
    pdset.preprocess(
        com_fit_function="constant",
        plot_rotation=False,
        plot_com=False,
        probe_energy=case["energy"],
        force_com_rotation=0,
        force_com_transpose=False,
    )
    probe = _cplx(seed + 11, (M, R, C), 1.0, "complex128")
    cdt = getattr(Q.torch, Q.config.get("dtype_complex"))

    def mk(om):
        pm = Q.ProbePixelated.from_array(
            probe_array=probe, probe_params={"energy": case["energy"]}, probe_tilt=tuple(tilt), rng=seed, dtype=cdt
        )
        pt = Q.Ptychography.from_models(
            dset=pdset, obj_model=om, probe_model=pm, detector_model=Q.DetectorPixelated(), rng=seed, verbose=0
        )
        pt.preprocess(obj_padding_px=tuple(case["pad"]), plot_rotation=False, plot_com=False)
        return pt

    pt = mk(Q.ObjectPixelated.from_uniform(num_slices=S, slice_thicknesses=thick, obj_type=obj_type, rng=seed))
    if random_object:
        shp = tuple(int(v) for v in pt.obj_shape_full)
        if obj_type == "potential":
            o = rng.uniform(-1.0, 3.0, shp)
        else:
            o = rng.uniform(0.2, 2.0, shp) * np.exp(1j * rng.uniform(-np.pi, np.pi, shp))
        pt = mk(Q.ObjectPixelated.from_array(o, slice_thicknesses=thick, obj_type=obj_type, rng=seed))
    return pt


# ------------------------------------------------------------------------------------------------
# chain
# ------------------------------------------------------------------------------------------------
def _check_chain(ctx, case):
    Q = q()
    torch = Q.torch
    S, M = case["S"], case["M"]
    nontrivial = S >= 2 or M >= 2
    classes = [
        "chain",
        "chain:S%d" % S,
        "chain:M%d" % M,
        "chain:" + case["obj_type"],
        "chain:" + ("complex128" if case["hi"] else "complex64"),
    ]
    if case["descan"]:
        classes.append("chain:descan")
    if any(case["tilt"]):
        classes.append("chain:tilted")
    if case["R"] % 2 or case["C"] % 2:
        classes.append("chain:odd_roi")
    if case["R"] != case["C"]:
        classes.append("chain:nonsquare_roi")
    ctx.record(case, nontrivial, classes)

    seed = case["seed"]
    rng = np.random.default_rng(seed + 5)
    with _Precision(case["hi"]):
        with ctx.sut(case, "building the problem through the public constructors"):
            pt = _build(case, S, case["thick"], case["tilt"], M, case["obj_type"], seed)
            n = pt.dset.num_gpts
            if case["descan"]:
                pt.optimizer_params = {"dataset": {"type": "adam", "lr": 1e-3}}
                pt.set_optimizers()
                pt.dset.descan_shifts = rng.uniform(-3, 3, (n, 2))
            pt.constraints = {"probe": {"orthogonalize_probe": bool(case["ortho"])}}
            if case["jitter"]:
                pos = _np(pt.dset.scan_positions_px).copy()
                pt.dset.scan_positions_px = pos + rng.uniform(-case["jitter"], case["jitter"], pos.shape)
        batch = np.arange(n)
        if case["subset"] and n > 1:
            batch = rng.permutation(n)[: max(1, n // 2)]
        with ctx.sut(case, "forward chain (dset -> probe -> object -> forward_operator -> detector)"):
            with torch.no_grad():
                pidx, _pos, frac, descan = pt.dset.forward(batch, pt.obj_padding_px)
                shifted = pt.probe_model.forward(frac)
                patches = pt.obj_model.forward(pidx)
                _prop, overlap = pt.forward_operator(patches, shifted, descan)
                inten = pt.detector_model.forward(overlap)
                probe = pt.probe_model.probe
                obj = pt.obj_model.obj
        if case["descan"] and descan is None:
            raise core.HarnessError("descan path was requested but not taken")
        inten_n = _np(inten).astype(np.float64)
        if inten_n.shape != (len(batch), case["R"], case["C"]):
            _fail(case, "predicted intensities have shape %s" % (inten_n.shape,))
        # the object handed to the chain must be pure phase for the identity to be claimed
        amp = np.abs(_np(patches).astype(np.complex128))
        if np.max(np.abs(amp - 1.0)) > 1e-5:
            _fail(case, "%s object patches are not unit modulus (max | |o|-1 | = %.3e)" % (case["obj_type"], np.max(np.abs(amp - 1.0))))
        p0 = float(np.sum(np.abs(_np(probe).astype(np.complex128)) ** 2))
        # measured on the clean tree: 1e-15 (complex128, S=1), 1.5e-7 (complex128, S>1: propagators are
        # always complex64), 7e-7 (complex64)
        if not case["hi"]:
            rel = 3e-5
        elif S == 1:
            rel = 1e-10
        else:
            rel = 1e-5
        _judge(case, "chain", np.abs(inten_n.sum(axis=(-2, -1)) - p0), rel * p0, "sum of predicted intensity of a pattern == total probe intensity")
        ov64 = _np(overlap).astype(np.complex128)
        ov_energy = np.sum(np.abs(ov64) ** 2, axis=(0, -2, -1))[:, None, None]
        _judge(
            case, "chain", np.abs(inten_n - ref.centred_magnitudes(ov64) ** 2),
            (1e-10 if case["hi"] else 1e-4) * ov_energy * np.ones(inten_n.shape),
            "DetectorPixelated.forward == fftshift(sum over modes |ortho fft2|^2)",
        )

        # adjointness on the real patch indices (complex path, quantem's own gather)
        idx = _np(pidx)
        Ro, Co = (int(v) for v in obj.shape[-2:])
        wraps = bool(np.any((idx // Co).max(axis=(1, 2)) - (idx // Co).min(axis=(1, 2)) >= case["R"])) or bool(
            np.any((idx % Co).max(axis=(1, 2)) - (idx % Co).min(axis=(1, 2)) >= case["C"])
        )
        if wraps:
            ctx.count("chain:patch_wraps_around")
        if np.unique(idx).size < idx.size:
            ctx.count("chain:patches_overlap")
        cd = "complex128" if case["hi"] else "complex64"
        y = _cplx(seed + 9, idx.shape, 1.0, cd)
        with ctx.sut(case, "sum_patches on dataset patch indices"):
            out = Q.pu.sum_patches(torch.tensor(y), pidx, (Ro, Co))
        if obj.is_complex():
            o_list, gathers = list(_np(obj)), list(_np(patches))
        else:
            o_list, gathers = [], []
        _judge_adjoint(ctx, case, "chain", idx, y, _np(out), (Ro, Co), o_list, gathers, not case["hi"])

        # history: change the tilt on the SAME instance (public setter), recompute the propagators the
        # way reconstruct() does, and run the chain again; the propagators must be those of a freshly
        # built problem with the new tilt
        retilt = case.get("retilt")
        if retilt is not None and S >= 2:
            ctx.count("chain:retilt_history")
            with ctx.sut(case, "probe_tilt setter + compute_propagator_arrays + forward chain"):
                with torch.no_grad():
                    pt.probe_model.probe_tilt = tuple(float(t) for t in retilt)
                    pt.compute_propagator_arrays()
                    shifted = pt.probe_model.forward(frac)
                    _prop, overlap = pt.forward_operator(patches, shifted, descan)
                    inten2 = pt.detector_model.forward(overlap)
                    P_hist = pt.propagators
            _judge(
                case, "chain", np.abs(_np(inten2).astype(np.float64).sum(axis=(-2, -1)) - p0), rel * p0,
                "after a tilt change: sum of predicted intensity of a pattern == total probe intensity",
            )
            with ctx.sut(case, "building a fresh problem with the new tilt"):
                pt2 = _build(case, S, case["thick"], retilt, M, case["obj_type"], seed, random_object=False)
                P_fresh = pt2.propagators
                thick = np.asarray(pt2.slice_thicknesses, dtype=np.float64).ravel()
            Ph, Pf = _np(P_hist).astype(np.complex128), _np(P_fresh).astype(np.complex128)
            if Ph.shape != Pf.shape:
                _fail(case, "after a tilt change the propagator stack has shape %s, a fresh problem gives %s" % (Ph.shape, Pf.shape))
            pa = _phase_per_A(case["energy"], np.asarray(pt2.sampling, dtype=np.float64), retilt)
            tol = 4e-6 * (1 + 2 * np.abs(thick) * pa)[:, None, None]
            _judge(case, "chain", np.abs(np.abs(Ph) - 1.0), 5e-6, "after a tilt change: |propagator| == 1")
            _judge(
                case, "chain", np.abs(Ph * np.conj(Pf) - 1.0), tol * np.ones(Ph.shape),
                "after a tilt change: propagators of the instance times the inverse propagators of a fresh problem with the current tilt == 1",
            )


# ------------------------------------------------------------------------------------------------
# Fourier projection
# ------------------------------------------------------------------------------------------------
def _check_proj(ctx, case):
    Q = q()
    torch = Q.torch
    R, C, M, N = case["R"], case["C"], case["M"], case["N"]
    dtype = case["dtype"]
    f32 = dtype == "complex64"
    amp = float(case["amp"])
    rng = np.random.default_rng(case["seed"] + 2)
    x = _cplx(case["seed"], (M, N, R, C), amp, dtype)
    wave = case.get("wave", "random")
    if wave == "one_zero_pattern":
        x[:, case["seed"] % N] = 0
    elif wave == "all_zero":
        x[...] = 0
    elif wave == "constant":
        x[...] = x[0, 0, 0, 0]
    # measured amplitudes: exact zeros or values in [max(1e-3*amp, 1e-7), 2*amp] (detector-centred, like
    # the data); the absolute floor keeps them well above the library's 1e-9 regulariser
    m = rng.uniform(max(1e-3, 1e-7 / amp), 2.0, (N, R, C)) * amp
    zfrac = {"none": 0.0, "some": 0.2, "most": 0.8, "all": 1.0}[case["zeros"]]
    m[rng.random((N, R, C)) < zfrac] = 0.0
    m = m.astype(np.float32 if f32 else np.float64)
    has_zero = bool(np.any(m == 0))
    classes = ["proj", "proj:M%d" % M, "proj:" + dtype, "proj:zeros_" + case["zeros"], "proj:scale_%g" % amp, "proj:wave_" + wave]
    if M >= 2 and amp <= 1e-3:
        classes.append("proj:mixed_state_scale_le_1e-3")
    if R % 2 or C % 2:
        classes.append("proj:odd_roi")
    if R != C:
        classes.append("proj:nonsquare_roi")
    ctx.record(case, has_zero or M >= 2, classes)

    with _Precision(not f32):
        with ctx.sut(case, "building the problem through the public constructors"):
            pt = _build(case, 1, None, (0.0, 0.0), M, "complex", case["seed"], random_object=False)
        if pt.num_probes != M:
            raise core.HarnessError("num_probes mismatch")
        with ctx.sut(case, "fourier_projection / gradient_step"):
            with torch.no_grad():
                y = pt.fourier_projection(torch.tensor(m), torch.tensor(x))
                y2 = pt.fourier_projection(torch.tensor(m), y.clone())
                g = pt.gradient_step(torch.tensor(m), torch.tensor(x))
                g2 = pt.gradient_step(torch.tensor(m), y.clone())
                det_x = pt.detector_model.forward(torch.tensor(x))
                det_y = pt.detector_model.forward(y.clone())
    y_n, y2_n, g_n, g2_n = (_np(t) for t in (y, y2, g, g2))
    if y_n.shape != x.shape:
        _fail(case, "fourier_projection changed the array shape %s -> %s" % (x.shape, y_n.shape))
    y_n, y2_n, g_n, g2_n = (t.astype(np.complex128) for t in (y_n, y2_n, g_n, g2_n))
    m64 = m.astype(np.float64)
    x64 = x.astype(np.complex128)

    # tolerance, per detector pixel, relative to the scale.  Rounding: 1e-10 (complex128) / 1e-4
    # (complex64) of the scale.  Mixed state: estimate_amplitudes adds 1e-9 to every coefficient ("to
    # avoid diverging gradients"), which changes the incoherent norm sqrt(S) by at most sqrt(M)*1e-9
    # (triangle inequality); the projected magnitude m*sqrt(S)/sqrt(S') is then off by at most
    # m*sqrt(M)*1e-9/sqrt(S') with sqrt(S') >= sqrt(S) - sqrt(M)*1e-9.  x4.
    scale = max(amp, float(m64.max()))
    base = (1e-4 if f32 else 1e-10) * scale
    sq = math.sqrt(M) * LIB_EPS
    Sx = ref.centred_magnitudes(x64)  # sqrt of the incoherent sum, detector-centred
    reg = 0.0
    if M >= 2:
        reg = np.where(Sx > 2 * sq, 4 * sq * m64 / np.maximum(Sx - sq, 1e-300), np.inf)
    # the detector layout the measured amplitudes live in: DetectorPixelated.forward of the exit waves
    # against the float64 reference fftshift(sum_modes |fft2(psi, ortho)|^2), per pattern
    energy = np.sum(np.abs(x64) ** 2, axis=(0, -2, -1))[:, None, None]  # total intensity of each pattern
    rel_i = 1e-4 if f32 else 1e-10
    det_x_n = _np(det_x).astype(np.float64)
    if det_x_n.shape != m64.shape:
        _fail(case, "DetectorPixelated.forward returned shape %s, expected %s" % (det_x_n.shape, m64.shape))
    _judge(
        case, "proj", np.abs(det_x_n - Sx**2), rel_i * energy * np.ones(m64.shape),
        "DetectorPixelated.forward == fftshift(sum over modes |ortho fft2|^2)",
    )
    mags = ref.centred_magnitudes(y_n)
    _judge(case, "proj", np.abs(mags - m64), base + reg, "Fourier magnitudes after projection == measured amplitudes")
    # the library's own detector as the observer: it must see the measured intensities A**2
    t_a = base + reg
    _judge(
        case, "proj", np.abs(_np(det_y).astype(np.float64) - m64**2), t_a * (2 * m64 + t_a) + rel_i * scale**2,
        "DetectorPixelated.forward(projected wave) == measured amplitudes ** 2",
    )
    mags_g = ref.centred_magnitudes(x64 + g_n)
    _judge(case, "proj", np.abs(mags_g - m64), base + reg, "Fourier magnitudes of overlap + gradient_step == measured amplitudes")
    # idempotence, judged per Fourier coefficient (ortho FFT is an isometry).  With G = F(P(x)) and
    # T = its incoherent magnitude, the second projection multiplies G by m/(T+d), |d| <= sqrt(M)*1e-9,
    # so each coefficient moves by at most (|m-T| + sqrt(M)*1e-9) * T/(T - sqrt(M)*1e-9).  x4.  Where
    # m == 0 both are exactly 0.
    reg_i = 0.0
    if M >= 2:
        T = mags
        reg_i = np.where(
            m64 == 0, 0.0, np.where(T > 2 * sq, 4 * (np.abs(m64 - T) + sq) * T / np.maximum(T - sq, 1e-300), np.inf)
        )
    Fy = np.fft.fft2(y_n, norm="ortho")
    Fy2 = np.fft.fft2(y2_n, norm="ortho")
    tol_c = np.fft.ifftshift(np.broadcast_to(base + reg_i, m64.shape), axes=(-2, -1))[None]
    _judge(case, "proj", np.abs(Fy2 - Fy), tol_c * np.ones(Fy.shape), "P(P(x)) == P(x)")
    Fg2 = np.fft.fft2(g2_n, norm="ortho")
    _judge(case, "proj", np.abs(Fg2), tol_c * np.ones(Fg2.shape), "gradient_step at a projected point == 0")


# ------------------------------------------------------------------------------------------------
CHECKS = {
    "shift": _check_shift,
    "prop": _check_prop,
    "adjoint": _check_adjoint,
    "chain": _check_chain,
    "proj": _check_proj,
}


def check(ctx, case):
    return CHECKS[case["kind"]](ctx, case)


def search(ctx):
    run = lambda label, strat, nq, nt: core.run_given(ctx, label, strat, lambda c: check(ctx, c), ctx.n(nq, nt))  # noqa: E731
    even_only = ctx.is_open(KEY_ODD_PROJ)
    if even_only:
        ctx.exclude(KEY_ODD_PROJ)
    run("proj", proj_cases(even_only=even_only), 300, 3000)
    run("adjoint", adjoint_cases(), 400, 4000)
    run("adjoint-large", adjoint_large_cases(), 10, 30)
    run("shift", shift_cases(), 700, 7000)
    run("prop", prop_cases(), 300, 3000)
    run("chain", chain_cases(), 300, 3000)
    for k, v in STATS.items():
        ctx.extra["max_err_over_tol: " + k] = round(v, 6)

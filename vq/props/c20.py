"""C20 — display normalisation is a monotone map into [0, 1] with invertible stretches."""

from __future__ import annotations

import math

import numpy as np
from hypothesis import strategies as st

from vq import core
from vq.gen import arrays as ga

FLOAT_DT = ["float32", "float64"]
DTYPES = ga.INT_DTYPES + FLOAT_DT
PRESETS = [
    "linear_auto",
    "quantile",
    "linear_minmax",
    "minmax",
    "linear_centered",
    "log_auto",
    "log_minmax",
    "power_squared",
    "power_sqrt",
    "asinh_centered",
]


def _q():
    import quantem.core.visualization.custom_normalizations as cn

    return cn


# ------------------------------------------------------------------------------------------------
# generators
# ------------------------------------------------------------------------------------------------
@st.composite
def data_arrays(draw, dtype=None, with_bad=True):
    dtype = dtype or draw(st.sampled_from(DTYPES))
    shape = draw(ga.shapes(1, 3, 1, 6, min_size=2, max_size=40))
    n = int(np.prod(shape))
    if dtype in FLOAT_DT:
        w = 32 if dtype == "float32" else 64
        mag = draw(st.sampled_from([1.0, 1e3, 1e-6, 1e30 if w == 32 else 1e150]))
        el = ga.float_elements(w, mag, allow_nan=with_bad, allow_inf=with_bad)
    else:
        # three regimes: full range (spans exceed the dtype's max), narrow, and around zero
        info = np.iinfo(dtype)
        regime = draw(st.sampled_from(["full", "narrow", "top"]))
        if regime == "full":
            el = ga.int_elements(dtype)
        elif regime == "narrow":
            el = st.integers(max(info.min, -20), min(info.max, 20))
        else:
            el = st.integers(info.max - 30, info.max)
    flat = draw(st.lists(el, min_size=n, max_size=n))
    if draw(st.integers(0, 5)) == 0:
        # sparse / heavily tied data (counting frames that are mostly one value): interval limits may coincide
        base = flat[0] if (isinstance(flat[0], int) or math.isfinite(flat[0])) else (0 if dtype not in FLOAT_DT else 0.0)
        keep = draw(st.lists(st.booleans(), min_size=n, max_size=n))
        flat = [v if (k and i % 4 == 0) or not (isinstance(v, int) or math.isfinite(v)) else base for i, (v, k) in enumerate(zip(flat, keep))]
    # construction, not rejection: force two distinct finite values
    fin = [v for v in flat if isinstance(v, int) or math.isfinite(v)]
    if len(set(fin)) < 2:
        a, b = (0, 1) if dtype not in FLOAT_DT else (0.0, 1.0)
        flat[0], flat[1] = a, b
    return ga.nd(dtype, shape, flat)


def _lim_float():
    return st.one_of(
        st.floats(-1e6, 1e6, allow_nan=False, width=32),
        st.integers(-300, 300),
        st.integers(-(2**31), 2**31),
    )


@st.composite
def intervals(draw):
    t = draw(st.sampled_from(["quantile", "manual", "centered"]))
    if t == "quantile":
        lo = draw(st.sampled_from([0.0, 0.02, 0.1, 0.25, 0.5]) | st.floats(0, 0.9))
        hi = draw(st.sampled_from([1.0, 0.98, 0.9, 0.75]) | st.floats(0.05, 1.0))
        if hi <= lo:
            lo, hi = min(lo, hi), max(lo, hi)
            if hi <= lo:
                hi = min(1.0, lo + 0.1)
                if hi <= lo:
                    lo = hi - 0.1
        return {"type": t, "lo": lo, "hi": hi}
    if t == "manual":
        vmin = draw(st.none() | _lim_float())
        vmax = draw(st.none() | _lim_float())
        if vmin is not None and vmax is not None and not vmin < vmax:
            vmin, vmax = (vmax, vmin) if vmax < vmin else (vmin, vmin + 1)
        return {"type": t, "vmin": vmin, "vmax": vmax}
    vc = draw(st.sampled_from([0.0, 0, 1, 100, -7]) | _lim_float())
    hr = draw(st.none() | st.floats(1e-3, 1e6, allow_nan=False) | st.integers(1, 1000))
    return {"type": t, "vcenter": vc, "half_range": hr}


@st.composite
def stretches(draw):
    t = draw(st.sampled_from(["linear", "power", "logarithmic", "asinh"]))
    if t == "linear":
        return {"type": t, "param": None}
    if t == "power":
        p = draw(st.sampled_from([0.5, 2.0, 1.0, 3.0]) | st.floats(1 / 30, 30.0))
    elif t == "logarithmic":
        p = draw(st.sampled_from([1000.0, 1.0]) | st.floats(1e-3, 1e6))
    else:
        p = draw(st.sampled_from([0.1, 1.0]) | st.floats(2e-3, 1e3))
    return {"type": t, "param": p}


@st.composite
def norm_cases(draw):
    via = draw(st.sampled_from(["direct", "data", "data", "preset", "imshow"]))
    x = draw(data_arrays())
    case = {"kind": "norm", "via": via, "x": x}
    if via == "preset":
        case["preset"] = draw(st.sampled_from(PRESETS))
    else:
        if via == "imshow":
            # the norm object is handed to matplotlib first (imshow autoscales vmin/vmax on it), then used
            case["mpl"] = draw(st.sampled_from(["imshow", "imshow+colorbar", "autoscale_None"]))
        iv = draw(intervals())
        if iv["type"] == "manual" and (iv["vmin"] is None) != (iv["vmax"] is None):
            # an interval with lower limit >= upper limit is not a claimed configuration: move the
            # one given limit to the proper side of the data (construction, not rejection)
            f = np.asarray(ga.to_np(x), dtype=np.float64).ravel()
            f = f[np.isfinite(f)]
            if iv["vmin"] is None and not float(f.min()) < iv["vmax"]:
                iv["vmax"] = type(iv["vmax"])(math.floor(float(f.min()))) + abs(iv["vmax"]) + 1
            if iv["vmax"] is None and not iv["vmin"] < float(f.max()):
                iv["vmin"] = type(iv["vmin"])(math.ceil(float(f.max()))) - abs(iv["vmin"]) - 1
        case["interval"] = iv
        case["stretch"] = draw(stretches())
    if via != "direct" and draw(st.booleans()):
        case["x2"] = draw(data_arrays(dtype=x["dtype"]))
    if via == "direct" and draw(st.integers(0, 2)) == 0:
        # history on ONE norm object and ONE array object: normalise, overwrite the buffer in place with
        # new contents (a live-display loop), normalise again.  Each call must obey the laws for the data
        # it is given.
        n = len(x["data"])
        x2 = draw(data_arrays(dtype=x["dtype"]))
        flat = (x2["data"] * (n // len(x2["data"]) + 1))[:n]
        fin = [v for v in flat if isinstance(v, int) or math.isfinite(v)]
        if len(set(fin)) >= 2:
            case["inplace_update"] = flat
    return case


@st.composite
def stretch_cases(draw):
    s = draw(stretches())
    ts = draw(st.lists(st.floats(0, 1, allow_nan=False) | st.sampled_from([0.0, 1.0, 0.5, 1e-12]), min_size=1, max_size=12))
    case = {"kind": "stretch", "stretch": s, "t": ts}
    if s["type"] != "linear" and draw(st.booleans()):
        # the stretch classes are plain (mutable) dataclasses: change the parameter on the same
        # object after its inverse was used once; the declared inverse must follow
        s2 = draw(stretches().filter(lambda q: q["type"] == s["type"]))
        case["mutate_to"] = s2["param"]
    return case


# ------------------------------------------------------------------------------------------------
# oracle
# ------------------------------------------------------------------------------------------------
def _quantile(sorted_f, q):
    n = len(sorted_f)
    pos = q * (n - 1)
    i = int(math.floor(pos))
    j = min(i + 1, n - 1)
    fr = pos - i
    return sorted_f[i] + (sorted_f[j] - sorted_f[i]) * fr


def _oracle_limits(interval, x):
    f = np.asarray(x, dtype=np.float64).ravel()
    f = np.sort(f[np.isfinite(f)])
    t = interval["type"]
    if t == "quantile":
        return _quantile(f, interval["lo"]), _quantile(f, interval["hi"])
    if t == "manual":
        lo = float(f[0]) if interval["vmin"] is None else float(interval["vmin"])
        hi = float(f[-1]) if interval["vmax"] is None else float(interval["vmax"])
        return lo, hi
    c = float(interval["vcenter"])
    hr = interval["half_range"]
    if hr is None:
        hr = max(abs(float(f[0]) - c), abs(float(f[-1]) - c))
    return c - float(hr), c + float(hr)


def _kwargs(interval, stretch):
    kw = {"interval_type": interval["type"], "stretch_type": stretch["type"]}
    if interval["type"] == "quantile":
        kw.update(lower_quantile=interval["lo"], upper_quantile=interval["hi"])
    elif interval["type"] == "manual":
        kw.update(vmin=interval["vmin"], vmax=interval["vmax"])
    else:
        kw.update(vcenter=interval["vcenter"], half_range=interval["half_range"])
    if stretch["type"] == "power":
        kw["power"] = stretch["param"]
    elif stretch["type"] == "logarithmic":
        kw["logarithmic_index"] = stretch["param"]
    elif stretch["type"] == "asinh":
        kw["asinh_linear_range"] = stretch["param"]
    return kw


def _make_stretch(cn, s):
    t, p = s["type"], s["param"]
    if t == "linear":
        return cn.LinearStretch()
    if t == "power":
        return cn.PowerLawStretch(p)
    if t == "logarithmic":
        return cn.LogarithmicStretch(p)
    return cn.InverseHyperbolicSineStretch(p)


def _eps(dtype, kw):
    """Tolerance in units of the working precision.  16 ulp covers libm not being monotone to the
    last bit; the logarithmic stretch log(a*t+1)/log(a+1) additionally loses a factor 1/log(1+a)
    when 1+a*t is rounded to the working precision (a = 1e-3 in float32: ~1e-4 absolute)."""
    e = float(np.finfo(np.float32 if np.dtype(dtype) == np.float32 else np.float64).eps)
    f = 16.0
    if kw.get("stretch_type") == "logarithmic" and kw.get("power", 1.0) == 1.0:
        f += 4.0 / math.log1p(kw.get("logarithmic_index", 1000.0))
    return f * e


def _judge_limits(case, x, lims, impl_lims, what):
    """The interval's limits as the implementation computed them agree with the float64 oracle."""
    lo, hi = lims
    try:
        ilo, ihi = float(impl_lims[0]), float(impl_lims[1])
    except Exception:
        raise core.Violation("%s: limits are not numbers: %r" % (what, impl_lims), case)
    tol = (1e-5 if x.dtype == np.float32 else 1e-11) * max(hi - lo, abs(lo), abs(hi))
    if not (abs(ilo - lo) <= tol and abs(ihi - hi) <= tol):
        raise core.Violation("%s: interval limits are (%r, %r), expected (%r, %r)" % (what, ilo, ihi, lo, hi), case)
    return ilo, ihi


def _judge_output(case, x, y, lims, eps, what, frozen_norm=None, impl_lims=None, eps64=None):
    """The laws of the property for one application y = norm(x)."""
    if not isinstance(y, np.ma.MaskedArray):
        raise core.Violation("%s: result is not a masked array" % what, case)
    if y.shape != x.shape:
        raise core.Violation("%s: shape changed %s -> %s" % (what, x.shape, y.shape), case)
    mask = np.ma.getmaskarray(y)
    data = np.asarray(np.ma.getdata(y), dtype=np.float64)
    xf = np.asarray(x, dtype=np.float64)
    fin = np.isfinite(xf)
    nan = np.isnan(xf)
    if np.any(nan & ~mask):
        raise core.Violation("%s: NaN input came back unmasked (value %r)" % (what, data[nan & ~mask][0]), case)
    if np.any(fin & mask):
        raise core.Violation("%s: finite input came back masked/invalid" % what, case)
    yf = data[fin]
    xs = xf[fin]
    if not np.all(np.isfinite(yf)):
        raise core.Violation("%s: non-finite output for finite input" % what, case)
    if yf.size and (yf.min() < -eps or yf.max() > 1 + eps):
        raise core.Violation("%s: output outside [0,1]: min %r max %r" % (what, yf.min(), yf.max()), case)
    # monotone: compare in the order of the *input in its own dtype* (exact for ints > 2^53 too)
    order = np.argsort(np.asarray(x).ravel()[fin.ravel()], kind="stable")
    ys = yf[order]
    if ys.size > 1 and np.min(np.diff(ys)) < -eps:
        i = int(np.argmin(np.diff(ys)))
        raise core.Violation(
            "%s: not monotone: x=%r -> %r but larger x=%r -> %r" % (what, xs[order][i], ys[i], xs[order][i + 1], ys[i + 1]),
            case,
        )
    lo, hi = lims
    if lo < hi and math.isfinite(hi - lo):
        span = hi - lo
        margin = (1e-5 if x.dtype == np.float32 else 1e-11) * max(span, abs(lo), abs(hi))
        below = xs <= lo - margin
        above = xs >= hi + margin
        if np.any(np.abs(yf[below]) > eps):
            raise core.Violation("%s: value at/below the lower limit %r not mapped to 0 (got %r)" % (what, lo, yf[below].max()), case)
        if np.any(np.abs(yf[above] - 1) > eps):
            raise core.Violation("%s: value at/above the upper limit %r not mapped to 1 (got %r)" % (what, hi, yf[above].min()), case)
    if frozen_norm is not None and impl_lims[0] < impl_lims[1]:
        # evaluated at the implementation's own (already cross-checked) limits: stretches can be
        # arbitrarily steep at 0, so a limit that is off by one float32 ulp must not be amplified
        yl = frozen_norm(np.array(impl_lims, dtype=np.float64))
        yl = np.asarray(np.ma.filled(yl, np.nan), dtype=np.float64)
        ltol = 4 * eps64
        if not (abs(yl[0]) <= ltol and abs(yl[1] - 1) <= ltol):
            raise core.Violation("%s: limits %r map to %r, expected (0, 1)" % (what, impl_lims, yl.tolist()), case)


def _through_matplotlib(norm, x, how):
    """What a plotting call does with a Normalize object before any pixel is mapped."""
    from matplotlib.figure import Figure

    img = np.ma.masked_invalid(np.asarray(x, dtype=np.float64)).reshape(-1, 1) if x.ndim != 2 else np.ma.masked_invalid(np.asarray(x, dtype=np.float64))
    if how == "autoscale_None":
        norm.autoscale_None(img)
        return
    fig = Figure()
    ax = fig.subplots()
    im = ax.imshow(img, norm=norm)
    if how == "imshow+colorbar":
        fig.colorbar(im, ax=ax)


def check(ctx, case):
    cn = _q()
    if case["kind"] == "stretch":
        return _check_stretch(ctx, cn, case)
    x = ga.to_np(case["x"])
    via = case["via"]
    if via == "preset":
        with ctx.sut(case, "_resolve_normalization"):
            cfg = cn._resolve_normalization(case["preset"])
        interval = {"type": cfg.interval_type}
        if cfg.interval_type == "quantile":
            interval.update(lo=cfg.lower_quantile, hi=cfg.upper_quantile)
        elif cfg.interval_type == "manual":
            interval.update(vmin=cfg.vmin, vmax=cfg.vmax)
        else:
            interval.update(vcenter=cfg.vcenter, half_range=cfg.half_range)
        kw = dict(
            interval_type=cfg.interval_type,
            stretch_type=cfg.stretch_type,
            lower_quantile=cfg.lower_quantile,
            upper_quantile=cfg.upper_quantile,
            vmin=cfg.vmin,
            vmax=cfg.vmax,
            vcenter=cfg.vcenter,
            half_range=cfg.half_range,
            power=cfg.power,
            logarithmic_index=cfg.logarithmic_index,
            asinh_linear_range=cfg.asinh_linear_range,
        )
        stretch_nondefault = cfg.stretch_type != "linear"
    else:
        interval, stretch = case["interval"], case["stretch"]
        kw = _kwargs(interval, stretch)
        stretch_nondefault = stretch["type"] != "linear" and stretch["param"] not in (1.0, 1000.0, 0.1)
    is_int = x.dtype.kind in "iu"
    has_nan = bool(x.dtype.kind == "f" and np.isnan(x).any())
    classes = [
        "via:" + via.split(":")[0],
        "dtype:" + str(x.dtype),
        "interval:" + interval["type"],
        "stretch:" + kw["stretch_type"],
        "has_nan" if has_nan else "no_nan",
    ]
    if x.dtype.kind == "f" and np.isinf(x).any():
        classes.append("has_inf")
    if is_int:
        f = x.astype(object)
        if int(f.max()) - int(f.min()) > np.iinfo(x.dtype).max:
            classes.append("int_span_exceeds_dtype_max")
    lims = _oracle_limits(interval, x)
    if not (math.isfinite(lims[0]) and math.isfinite(lims[1])):
        ctx.exclude("non_finite_limits")
        return
    work = np.float32 if x.dtype == np.float32 else np.float64
    if 0 < lims[1] - lims[0] < 4 * float(np.finfo(work).tiny):
        # the span of the limits is a subnormal number of the working precision: dividing by it
        # underflows/overflows.  Like overflow of the span this is outside the claimed domain.
        ctx.exclude("span_underflows_working_precision")
        return
    ctx.record(case, is_int or has_nan or stretch_nondefault, classes)

    eps = _eps(x.dtype, kw)
    xin = x.copy()
    if via in ("direct", "imshow"):
        with ctx.sut(case, "CustomNormalization(...)(x)"):
            norm = cn.CustomNormalization(**kw)
            if via == "imshow":
                try:
                    _through_matplotlib(norm, x, case["mpl"])
                except Exception as e:  # noqa: BLE001
                    import traceback

                    if any("/quantem/" in fr.filename for fr in traceback.extract_tb(e.__traceback__)):
                        raise  # raised by / below quantem code: judged by ctx.sut
                    # matplotlib itself refused (e.g. a colorbar that cannot be laid out because Normalize.inverse, which
                    # the statement does not cover, returned something unusable): not a clause of the property - the case
                    # continues with a fresh object on the direct route
                    ctx.count("mpl_route_refused_by_matplotlib:" + type(e).__name__)
                    smp = ctx.extra.setdefault("mpl_route_refused_samples", [])
                    if len(smp) < 3:
                        smp.append({"error": str(e)[:200], "case": {k: v for k, v in case.items() if k != "data"}, "data_head": str(case.get("data"))[:300]})
                    norm = cn.CustomNormalization(**kw)
            il = norm.interval.get_limits(x)
            y = norm(x)
        _judge_limits(case, x, lims, il, "interval.get_limits(x)")
        _judge_output(case, x, y, lims, eps, "norm(x)")
        if case.get("inplace_update") is not None:
            xin = None  # the buffer is deliberately overwritten below
            x[...] = np.array(case["inplace_update"], dtype=x.dtype).reshape(x.shape)
            lims2 = _oracle_limits(interval, x)
            ok2 = math.isfinite(lims2[0]) and math.isfinite(lims2[1]) and not (0 < lims2[1] - lims2[0] < 4 * float(np.finfo(work).tiny))
            if interval["type"] == "manual" and not lims2[0] < lims2[1]:
                ok2 = False  # the fixed manual limit ended up on the wrong side of the new data: not a claimed configuration
            if ok2:
                with ctx.sut(case, "second call of the same norm on the same (in-place updated) array object"):
                    il2 = norm.interval.get_limits(x)
                    y2 = norm(x)
                _judge_limits(case, x, lims2, il2, "interval.get_limits after the in-place update of the array")
                _judge_output(case, x, y2, lims2, eps, "norm(x) after the in-place update of the array")
                ctx.count("inplace_update_history")
    else:
        with ctx.sut(case, "CustomNormalization(..., data=x)(x)"):
            norm = cn.CustomNormalization(data=x, **kw)
            il = (norm.vmin, norm.vmax)
            y = norm(x)
        il = _judge_limits(case, x, lims, il, "limits frozen from data")
        _judge_output(case, x, y, lims, eps, "norm(x) with limits frozen from data", frozen_norm=norm, impl_lims=il, eps64=_eps(np.float64, kw))
        if case.get("x2") is not None:
            x2 = ga.to_np(case["x2"])
            with ctx.sut(case, "frozen norm applied to a second array"):
                y2 = norm(x2)
            _judge_output(case, x2, y2, lims, eps, "frozen norm(x2)")
    if xin is not None and not np.array_equal(x, xin, equal_nan=True):
        raise core.Violation("normalisation modified its input array in place", case)


def _check_stretch(ctx, cn, case):
    s = case["stretch"]
    t = np.array(case["t"], dtype=np.float64)
    ctx.record(case, s["type"] != "linear", ["stretch_roundtrip:" + s["type"]] + (["stretch_param_mutated"] if case.get("mutate_to") is not None else []))
    with ctx.sut(case, "stretch / inverse"):
        S = _make_stretch(cn, s)
        Si = S.inverse
        a = np.asarray(S(Si(t.copy())), dtype=np.float64)
        b = np.asarray(Si(S(t.copy())), dtype=np.float64)
        # the inverse's declared inverse is the stretch again
        c = np.asarray(Si.inverse(Si(t.copy())), dtype=np.float64)
        e0 = np.asarray(S(np.array([0.0, 1.0])), dtype=np.float64)
    tol = 1e-9
    if np.max(np.abs(a - t)) > tol:
        i = int(np.argmax(np.abs(a - t)))
        raise core.Violation("S(S.inverse(t)) != t at t=%r: %r" % (t[i], a[i]), case)
    if np.max(np.abs(b - t)) > tol:
        i = int(np.argmax(np.abs(b - t)))
        raise core.Violation("S.inverse(S(t)) != t at t=%r: %r" % (t[i], b[i]), case)
    if np.max(np.abs(c - t)) > tol:
        raise core.Violation("S.inverse.inverse(S.inverse(t)) != t", case)
    if abs(e0[0]) > tol or abs(e0[1] - 1) > tol:
        raise core.Violation("stretch does not fix the end points: S([0,1]) = %r" % e0.tolist(), case)
    if case.get("mutate_to") is not None:
        field = "power" if s["type"] == "power" else "a"
        with ctx.sut(case, "stretch / inverse after changing the parameter"):
            setattr(S, field, case["mutate_to"])
            Si2 = S.inverse
            a2 = np.asarray(S(Si2(t.copy())), dtype=np.float64)
            b2 = np.asarray(Si2(S(t.copy())), dtype=np.float64)
        if max(np.max(np.abs(a2 - t)), np.max(np.abs(b2 - t))) > tol:
            raise core.Violation(
                "after changing %s from %r to %r on the same stretch object, stretch o inverse is no longer the identity (max err %.3g)"
                % (field, s["param"], case["mutate_to"], max(np.max(np.abs(a2 - t)), np.max(np.abs(b2 - t)))),
                case,
            )


def search(ctx):
    core.run_given(ctx, "norm", norm_cases(), lambda c: check(ctx, c), ctx.n(2500, 15000))
    core.run_given(ctx, "stretch", stretch_cases(), lambda c: check(ctx, c), ctx.n(500, 3000))

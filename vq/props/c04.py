"""C04 — direct ptychography: batch-invariant, linear, and exact on analytic cases.

Everything is observed at the public entry point
    DirectPtychography.from_virtual_bfs(...).reconstruct(...).corrected_stack / corrected_bf

Case kinds (JSON-able, self-contained):

  meta      one configuration (detector mask, optional sub-mask, stack seed, scan grid, aberrations, rotation,
            kernel name, upsampling, filters, ...) judged by the metamorphic relations the property names:
              (1) schedule invariance: every listed max_batch_size gives the un-batched result (on an instance that
                  is re-used from call to call, with the hyper-parameters given at construction or as overrides)
              (2) linearity: R(a X + b Y) = a R(X) + b R(Y), one fresh instance per stack
              (3) single-pass kernels: W_A bf_A + W_B bf_B = W bf for a bipartition A + B of the reconstruction mask,
                  with the aperture weights W = sum |probe(k)|^2 recomputed by the harness
              (5) "function of stack, mask and hyper-parameters only": the reconstruction of a sub-mask equals the
                  reconstruction of a fresh instance constructed from that sub-mask and its sub-stack alone
  analytic  (4) parallax kernel without sign flipping against a float64 oracle: sum of the mean-subtracted images,
            each translated by (lambda / 2 pi) grad chi at its detector pixel (autograd of aberration_surface),
            divided by the aperture weight.
"""

from __future__ import annotations

import gc
import math

import numpy as np
from hypothesis import strategies as st

from vq import core
from vq.refs import c04_ref as R

# float32 pipeline, errors relative to the largest magnitude of the quantities compared (see meta for the
# measured clean-tree distributions these are based on)
TOL_BATCH = 1e-5
TOL_SUB = 2e-5
TOL_LIN = 1e-4
TOL_PART = 2e-5
TOL_ANALYTIC = 1e-4
# a reconstruction mask whose total aperture weight is below half a pixel is outside the domain (division by ~0)
W_FLOOR = 0.5
# filtered results smaller than this fraction of the un-filtered result are not judged
FILTER_FLOOR = 0.05
# results below this fraction of max |stack - 1| / W are rounding noise around an exactly-zero reconstruction
ZERO_FLOOR = 1e-6
# corrected_stack is the REAL PART of a complex field whose rounding noise (~1e-7 of the field) does not shrink
# when the real part happens to be small (seen: two surviving ssb bins giving a purely imaginary image, real part
# 1e-10 of the natural scale).  The comparison scale is therefore never taken below this fraction of the natural
# scale max |stack - 1| / W of the input
SCALE_FLOOR = 0.1
# relative size of the hyper-parameter change used to measure the rounding sensitivity of gamma-based kernels
PROBE = 3e-6
# the probe is one fixed step in one direction per sign and only an estimate: the allowance is this many times the
# measured response, and cases whose response exceeds ILL_LIMIT of the comparison scale are not judged at all by
# the relations that compare runs of different batch composition / detector grid (1, 3, 5)
SENS_FACTOR = 5.0
ILL_LIMIT = 0.005

_FROZEN = False


def _q():
    global _FROZEN
    import torch

    import quantem.diffractive_imaging.complex_probe as cp
    from quantem.core.datastructures import Dataset2d, Dataset3d
    from quantem.diffractive_imaging.direct_ptychography import DirectPtychography

    if not _FROZEN:
        # reconstruct() calls gc.collect() twice; with torch + hypothesis loaded that is ~0.1 s per call.  Moving
        # the objects alive after import into the permanent generation makes those collections cheap (harness-side
        # process setting only; nothing in quantem is changed)
        gc.collect()
        gc.freeze()
        _FROZEN = True
    return torch, cp, Dataset2d, Dataset3d, DirectPtychography


# ------------------------------------------------------------------------------------------------
# generators
# ------------------------------------------------------------------------------------------------
def _sig(v, n=6):
    return float("%.*g" % (n, v))


@st.composite
def _geometry(draw):
    q = draw(st.integers(5, 13))
    r = draw(st.integers(5, 13))
    crop = draw(st.booleans())
    pad = draw(st.integers(0, min(2, (min(q, r) - 1) // 2 - 1))) if crop else 1
    cands = R.candidates((q, r), pad if crop else 0)
    rs0 = draw(st.integers(100, 500)) * 1e-4
    rs1 = rs0 if draw(st.booleans()) else draw(st.integers(100, 500)) * 1e-4
    ex = draw(st.sampled_from([1.0, 1.0, 0.7, 1.5]))
    ordered = sorted(cands, key=lambda p: ((p[0] * ex) ** 2 + p[1] ** 2, p))
    symmetric = crop or draw(st.integers(0, 3)) == 0
    if symmetric:
        units, seen = [], set()
        for p in ordered:
            if p in seen:
                continue
            m = (-p[0], -p[1])
            seen.update((p, m))
            units.append([p] if m == p else [p, m])
    else:
        units = [[p] for p in ordered]
    total = sum(len(u) for u in units)
    n = 3 if draw(st.integers(0, 11)) == 11 else draw(st.integers(min(4, total), min(40, total)))
    blob = draw(st.integers(0, 2)) == 0
    want = min(total, int(1.7 * n) + 2) if blob else n
    chosen, cnt = [], 0
    for u in units:
        if cnt >= want:
            break
        chosen.append(u)
        cnt += len(u)
    if blob:
        rng = np.random.default_rng(draw(st.integers(0, 10**6)))
        while cnt > n and len(chosen) > 1:
            k = int(rng.integers(0, len(chosen)))
            cnt -= len(chosen.pop(k))
    while cnt > 40 and len(chosen) > 1:
        cnt -= len(chosen.pop())
    px = R.stack_order([p for u in chosen for p in u], (q, r))
    if len(px) < 3:  # only possible for a blob cut down to a pair: fall back to the innermost pixels
        px = R.stack_order([p for u in units[:3] for p in u][:5] if symmetric else ordered[:3], (q, r))
    return {"gpts": [q, r], "mask_px": px, "crop": crop, "pad": pad, "rs": [rs0, rs1]}


@st.composite
def _common(draw, analytic=False):
    g = draw(_geometry())
    px = g["mask_px"]
    n = len(px)
    rs = g["rs"]
    energy = draw(st.sampled_from([60e3, 80e3, 200e3, 300e3]))
    lam = R.wavelength(energy)
    scan = [draw(st.integers(4, 12)), draw(st.integers(4, 12))]
    # "lattice" configurations (1 in 5): scan frequencies commensurate with the detector grid, angles multiples of
    # pi/4, cut-off on a pixel radius -- the exact ties and zeros of the transfer function live here
    lattice = draw(st.integers(0, 4)) == 4
    angles = st.sampled_from([0.0, 0.785398, 1.570796, -1.570796, 3.141593, -0.785398]) if lattice else st.integers(-3141, 3141).map(lambda v: v / 1000.0)
    if lattice:
        rs = g["rs"] = [rs[0], rs[0]]
        ratio = [draw(st.sampled_from([0.5, 1.0, 2.0]))] * 2
        ss = [1.0 / (scan[i] * rs[i] * ratio[i]) for i in range(2)]
    else:
        ratio = [draw(st.integers(40, 250)) / 100.0 for _ in range(2)]
        ss = [_sig(1.0 / (scan[i] * rs[i] * ratio[i]), 4) for i in range(2)]
        if draw(st.integers(0, 2)) == 0:
            ss[1] = ss[0]
    kr = [math.hypot(i * rs[0], j * rs[1]) for i, j in px]
    kmax = max(max(kr), min(rs))
    amax = kmax * lam
    s_mean = math.sqrt(ss[0] * ss[1])

    # hyper-parameter route: given at construction ("init"), as override_* arguments on an instance built without
    # them ("override"), or as override_* arguments on an instance built with OTHER, non-zero values for the same
    # keys ("decoy": the overrides must win, including overrides that are exactly 0.0)
    route = draw(st.sampled_from(["init", "override", "decoy"]))
    unit = {"C10": s_mean / amax, "C12": s_mean / amax, "C21": s_mean / amax**2, "C30": s_mean / amax**3}

    # aberrations: magnitudes chosen so that the geometric shift at the mask edge is up to ~3 scan pixels
    syms = []
    if draw(st.integers(0, 9)) < 7:
        syms.append(("C10", _sig(draw(st.integers(-300, 300)) / 100.0 * s_mean / amax)))
    if draw(st.booleans()):
        syms.append(("C12", _sig(draw(st.integers(-200, 200)) / 100.0 * s_mean / amax)))
        if draw(st.integers(0, 5)) != 0:
            syms.append(("phi12", draw(angles)))
    if not analytic:
        if draw(st.integers(0, 9)) < 3:
            syms.append(("C21", _sig(draw(st.integers(-300, 300)) / 100.0 * s_mean / amax**2)))
            if draw(st.booleans()):
                syms.append(("phi21", draw(angles)))
        if draw(st.integers(0, 9)) < 3:
            syms.append(("C30", _sig(draw(st.integers(-300, 300)) / 100.0 * s_mean / amax**3)))
    if analytic and draw(st.integers(0, 6)) == 0:
        syms = []  # the zero-aberration clause
    if route == "decoy":
        if not syms:
            syms = [("C10", 0.0)]
        elif draw(st.integers(0, 2)) == 0:  # one coefficient exactly 0.0 over a non-zero construction-time value
            mags = [i for i, (k, _v) in enumerate(syms) if k in unit]
            i = mags[draw(st.integers(0, len(mags) - 1))]
            syms[i] = (syms[i][0], 0.0)
    abers, decoy_abers = [], []
    for sym, val in syms:
        dval = val + 0.7 if sym not in unit else _sig(draw(st.integers(50, 250)) / 100.0 * draw(st.sampled_from([1.0, -1.0])) * unit[sym])
        if sym in R.INV_ALIASES and draw(st.booleans()):
            sign = R.ALIASES[R.INV_ALIASES[sym]][1]
            abers.append([R.INV_ALIASES[sym], sign * val])
            decoy_abers.append([R.INV_ALIASES[sym], sign * dval])
        else:
            abers.append([sym, val])
            decoy_abers.append([sym, dval])
    if draw(st.booleans()):
        abers.reverse()
    rot = draw(angles) if lattice else 0.0 if draw(st.integers(0, 4)) == 0 else draw(st.integers(-3141, 3141)) / 1000.0
    if route == "decoy" and draw(st.booleans()):
        rot = 0.0  # override_rotation_angle=0.0 exactly over a non-zero construction-time angle

    if draw(st.integers(0, 3)) == 0:
        kc = 3.0 * kmax  # every pixel well inside the aperture: all weights exactly 1
    elif lattice:
        kc = rs[0] * draw(st.integers(2, 2 * max(2, int(round(kmax / rs[0]))) + 1)) / 2.0
    else:
        lo = max(0.6 * kmax, 1.2 * min(rs))
        hi = 1.4 * kmax + max(rs)
        kc = lo + (hi - lo) * draw(st.integers(0, 1000)) / 1000.0
    cutoff = _sig(kc * lam * 1e3)

    sub = None
    if n >= 4 and draw(st.integers(0, 2)) != 0:
        m = draw(st.integers(3, n - 1))
        rng = np.random.default_rng(draw(st.integers(0, 10**6)))
        sub = sorted(int(v) for v in rng.choice(n, size=m, replace=False))
    case = dict(g)
    case.update(
        energy=energy,
        units=draw(st.sampled_from(["A^-1", "A^-1", "A^-1", "mrad"])),
        scan=scan,
        scan_sampling=ss,
        stack={"seed": draw(st.integers(0, 10**6)), "eps": draw(st.sampled_from([0.1, 0.2, 0.5, 1.0]))},
        abers=abers,
        rot=rot,
        lattice=lattice,
        cutoff=cutoff,
        sub=sub,
        route=route,
    )
    if route == "decoy":
        case["decoy"] = {"rot": 1.3 if rot == 0.0 else -rot, "abers": decoy_abers}
    return case


def _batch_list(draw, nr):
    must = {1, nr - 1, nr}
    nd = R.non_divisor(nr)
    if nd:
        must.add(nd)
    big = [nr + draw(st.integers(1, 6))] if draw(st.integers(0, 2)) == 0 else []
    if nr <= 9:
        return list(range(1, nr + 1)) + big
    extra = draw(st.lists(st.integers(1, nr), min_size=0, max_size=3))
    return sorted(b for b in must.union(extra) if b >= 1) + big


_ORDERS = [1, 2, 4, 6, 8, 16, 24]
_MF_EPS = [0.01, 0.03, 0.5, 1.0]
_CHANGES = ["order", "order", "order", "lowpass", "highpass", "up", "kernel", "abers", "rot", "rot0", "bs"]


def _lowpass(draw, case):
    # the first non-zero scan frequency is 2 qmax / n: keep the low-pass above it so that something survives
    qmax = 0.5 / max(case["scan_sampling"])
    return _sig(qmax * draw(st.integers(max(30, int(250 / min(case["scan"])) + 1), 125)) / 100.0, 4)


def _highpass(draw, case):
    qmax = 0.5 / max(case["scan_sampling"])
    return _sig(qmax * draw(st.integers(5, 50)) / 100.0, 4)


def _history_entry(draw, case, nr):
    """An earlier reconstruct() call on the instance that is then re-used: the main call with ONE argument changed
    (two, 1 in 4) -- what an incomplete cache key or stale per-instance state cannot survive."""
    if draw(st.integers(0, 2)) == 0:
        return {"set": _neutral_call(draw, case), "bs": draw(st.none() | st.integers(1, nr))}
    changes = {}
    for _ in range(2 if draw(st.integers(0, 3)) == 3 else 1):
        # arguments that only one kernel reads are changed when the main call uses that kernel
        fam = R.FAMILY[case["kernel"]]
        extra = (["mf_eps"] * 4 if fam == "mf" else ["flip"] * 3 if fam == "prlx" else []) + (["mask"] if case["sub"] is not None else [])
        what = draw(st.sampled_from(_CHANGES + extra))
        if what == "order":
            changes["order"] = draw(st.sampled_from([o for o in _ORDERS if o != (case["order"] or 12)]))
        elif what == "lowpass":
            v = _lowpass(draw, case)
            changes["q_lowpass"] = None if (case["q_lowpass"] is not None and (draw(st.booleans()) or v == case["q_lowpass"])) else v
        elif what == "highpass":
            v = _highpass(draw, case)
            changes["q_highpass"] = None if (case["q_highpass"] is not None and (draw(st.booleans()) or v == case["q_highpass"])) else v
        elif what == "up":
            changes["up"] = draw(st.sampled_from([u for u in (1, 2, 3) if u != (case["up"] or 1)]))
        elif what == "kernel":
            changes["kernel"] = draw(st.sampled_from(sorted(R.FAMILY)))
        elif what == "abers":
            changes["abers"] = draw(st.sampled_from(["half", "zero"]))
        elif what == "rot":
            changes["rot"] = round(case["rot"] + draw(st.integers(50, 3000)) / 1000.0 * draw(st.sampled_from([1.0, -1.0])), 6)
        elif what == "rot0":
            changes["rot"] = 0.0 if case["rot"] != 0.0 else 1.0
        elif what == "flip":
            changes["flip"] = not case["flip"]
        elif what == "mf_eps":
            changes["mf_eps"] = draw(st.sampled_from([e for e in _MF_EPS if e != case["mf_eps"]]))
        elif what == "mask":
            changes["mask"] = draw(st.sampled_from(["full", "full_explicit"]))
    return {"set": changes, "bs": draw(st.none() | st.integers(1, nr))}


def _neutral_call(draw, case, filters=3):
    """A "neutral" call: every optional stage of the pipeline at its identity setting -- all aberration coefficients
    exactly 0 (or none), no sign flipping, up-sampling None/1, the full construction mask (bf_mask=None or given
    explicitly) -- for any kernel, usually WITH a low/high-pass filter.  This is where an implementation may skip
    stages (and hand out views of its stored data instead of copies); the calls that follow show whether anything
    was left behind."""
    ch = {
        "kernel": draw(st.sampled_from(sorted(R.FAMILY))),
        "abers": "zero",
        "flip": False,
        "up": draw(st.sampled_from([None, 1])),
        "mask": draw(st.sampled_from(["full", "full", "full_explicit"])),
    }
    if draw(st.integers(0, filters)) != 0:
        which = draw(st.sampled_from(["low", "high", "both"]))
        ch["q_lowpass"] = _lowpass(draw, case) if which != "high" else None
        ch["q_highpass"] = _highpass(draw, case) if which != "low" else None
    elif draw(st.booleans()):
        ch["q_lowpass"] = ch["q_highpass"] = None
    return ch


@st.composite
def meta_cases(draw):
    case = draw(_common())
    nr = len(case["sub"]) if case["sub"] is not None else len(case["mask_px"])
    fam = draw(st.sampled_from(list(R.KERNELS)))
    rngp = np.random.default_rng(draw(st.integers(0, 10**6)))
    na = draw(st.integers(1, nr - 1))
    case.update(
        kind="meta",
        kernel=draw(st.sampled_from(R.KERNELS[fam])),
        kernel2=draw(st.sampled_from(R.KERNELS[fam])),
        up=draw(st.sampled_from([None, 1, 2, 2, 3, 3])),
        q_lowpass=_lowpass(draw, case) if draw(st.booleans()) else None,
        q_highpass=_highpass(draw, case) if draw(st.integers(0, 2)) == 0 else None,
        order=draw(st.sampled_from([None, None, 2, 4, 8, 24])),  # butterworth_order (None: the default, 12)
        mf_eps=draw(st.sampled_from([None, None, 0.03, 0.5])),  # matched_filter_norm_epsilon (None: default 0.1)
        flip=draw(st.booleans()),
        soft=draw(st.sampled_from([True, True, True, False])),
        batches=_batch_list(draw, nr),
        lin={
            "seed": draw(st.integers(0, 10**6)),
            "a": draw(st.integers(-200, 200).filter(lambda v: v != 0)) / 100.0,
            "b": draw(st.integers(-200, 200).filter(lambda v: v != 0)) / 100.0,
            "bs": draw(st.none() | st.integers(1, nr)),
        },
        part=sorted(int(v) for v in rngp.choice(nr, size=na, replace=False)),
    )
    case["history"] = [_history_entry(draw, case, nr) for _ in range(draw(st.sampled_from([0, 1, 1, 2, 2, 3])))]
    # a changed butterworth_order only means something when a cut-off is set (and stays set)
    if any("order" in h["set"] for h in case["history"]) and case["q_lowpass"] is None and case["q_highpass"] is None:
        if draw(st.booleans()):
            case["q_lowpass"] = _lowpass(draw, case)
        else:
            case["q_highpass"] = _highpass(draw, case)
    return case


@st.composite
def analytic_cases(draw):
    case = draw(_common(analytic=True))
    nr = len(case["sub"]) if case["sub"] is not None else len(case["mask_px"])
    case.update(kind="analytic", kernel=draw(st.sampled_from(R.KERNELS["prlx"])), bs=draw(st.none() | st.integers(1, nr)))
    # an earlier call on the same instance (1 in 2): a neutral call (see _neutral_call), or any kernel with the case's
    # own aberrations / a filter / up-sampling; its result is not judged here, the analytic call that follows is
    prior = None
    if draw(st.booleans()):
        if draw(st.booleans()):
            prior = _neutral_call(draw, case)
        else:
            prior = {
                "kernel": draw(st.sampled_from(sorted(R.FAMILY))),
                "flip": draw(st.booleans()),
                "up": draw(st.sampled_from([None, 1, 2, 3])),
                "mask": draw(st.sampled_from(["same", "full"])),
                "q_lowpass": _lowpass(draw, case) if draw(st.booleans()) else None,
                "q_highpass": _highpass(draw, case) if draw(st.integers(0, 2)) == 0 else None,
            }
            if draw(st.integers(0, 2)) == 0:
                prior["abers"] = draw(st.sampled_from(["half", "zero"]))
        prior = {"set": prior, "bs": draw(st.none() | st.integers(1, nr))}
    case["prior"] = prior
    return case


# ------------------------------------------------------------------------------------------------
# running the code under test
# ------------------------------------------------------------------------------------------------
class _Setup:
    """Everything derived from a case by the harness alone."""

    def __init__(self, case):
        self.case = case
        self.gpts = tuple(int(v) for v in case["gpts"])
        self.px = [(int(i), int(j)) for i, j in case["mask_px"]]
        if R.stack_order(self.px, self.gpts) != [list(p) for p in self.px] or len(set(self.px)) != len(self.px):
            raise core.HarnessError("mask_px must be distinct and in stack order")
        self.crop = bool(case["crop"])
        if self.crop and not R.is_symmetric(self.px):
            raise core.HarnessError("crop_bf_mask=True needs a DC-symmetric mask (outside the domain otherwise)")
        self.n = len(self.px)
        self.sub = None if case.get("sub") is None else [int(v) for v in case["sub"]]
        self.sel = list(range(self.n)) if self.sub is None else self.sub
        self.nr = len(self.sel)
        self.lam = R.wavelength(case["energy"])
        self.rs = [float(v) for v in case["rs"]]
        self.units = case.get("units", "A^-1")
        self.scan = [int(v) for v in case["scan"]]
        self.ss = [float(v) for v in case["scan_sampling"]]
        self.abers = [(k, float(v)) for k, v in case["abers"]]
        self.canon = R.canonical(self.abers)
        self.rot = float(case["rot"])
        self.cutoff = float(case["cutoff"])
        self.route = case.get("route", "init")
        self.mask = R.mask_array(self.px, self.gpts)

    def stack(self, seed=None):
        s = self.case["stack"]
        return R.make_stack(s["seed"] if seed is None else seed, s["eps"], self.n, self.scan)

    def build(self, q, stack, route="init", px=None, soft=True, crop=None, perturb=0.0, rot=None, abers=None):
        """A fresh instance.  px: construct from this pixel list (stack rows must match) instead of the full mask.
        perturb: relative (magnitudes, cut-off) / absolute in rad (angles) change of every hyper-parameter."""
        torch, cp, Dataset2d, Dataset3d, DP = q
        mask = self.mask if px is None else R.mask_array(px, self.gpts)
        msamp = self.rs if self.units == "A^-1" else [v * self.lam * 1e3 for v in self.rs]
        vd = Dataset3d.from_array(np.array(stack, dtype=np.float32), name="vbf", units=("index", "A", "A"), sampling=(1, self.ss[0], self.ss[1]))
        md = Dataset2d.from_array(mask.copy(), name="mask", units=(self.units, self.units), sampling=tuple(msamp))
        init = route in ("init", "decoy")
        if route == "decoy":
            rot, abers = float(self.case["decoy"]["rot"]), [(k, float(v)) for k, v in self.case["decoy"]["abers"]]
        abers = {k: (v + perturb if _is_angle(k) else v * (1.0 + perturb)) for k, v in (self.abers if abers is None else abers)}
        rot = self.rot if rot is None else rot
        return DP.from_virtual_bfs(
            vd, md, energy=float(self.case["energy"]), rotation_angle=(rot + perturb) if init else 0.0,
            aberration_coefs=abers if init else {}, semiangle_cutoff=self.cutoff * (1.0 + perturb), soft_edges=bool(soft),
            crop_bf_mask=self.crop if crop is None else crop, bf_mask_padding_px=int(self.case.get("pad", 1)), verbose=False,
        )  # fmt: skip

    def run(self, q, dp, sel, route="init", bs=None, rot=None, abers=None, buf=None, **kw):
        """reconstruct on the pixels `sel` (indices into the construction mask's stack order; None = the
        construction mask itself, passed as bf_mask=None).  Returns (corrected_stack, corrected_bf) as float64."""
        torch = q[0]
        bfm = None
        if sel is not None:
            inst = dp.bf_mask
            if int(inst.sum()) != self.n:
                raise core.Violation(
                    "the instance mask has %d pixels, the mask it was constructed from has %d (crop_bf_mask=%r, padding %r)"
                    % (int(inst.sum()), self.n, self.crop, self.case.get("pad")),
                    self.case,
                )
            flags = torch.zeros(self.n, dtype=torch.bool)
            flags[torch.tensor(sel, dtype=torch.long)] = True
            bfm = torch.zeros_like(inst)
            bfm[inst] = flags
            if buf is not None:
                # the caller keeps ONE mask buffer and refills it in place between calls (seeded change C04-12: a
                # memoised bright-field context whose "same mask?" test compares the buffer with itself)
                if "t" in buf:
                    buf["t"].copy_(bfm)
                else:
                    buf["t"] = bfm
                bfm = buf["t"]
        if route in ("override", "decoy") or abers is not None:
            kw["override_aberration_coefs"] = dict(self.abers if abers is None else abers)
        if route in ("override", "decoy") or rot is not None:
            kw["override_rotation_angle"] = self.rot if rot is None else rot
        dp.reconstruct(bf_mask=bfm, max_batch_size=bs, verbose=False, **kw)
        cs = dp.corrected_stack.detach().cpu().numpy().astype(np.float64)
        bf = dp.corrected_bf.detach().cpu().numpy().astype(np.float64)
        return cs, bf

    def grid(self, q):
        """Scattering angles (float64) of the mask pixels on the public spatial_frequencies grid, and the
        per-pixel aperture weights |probe|^2 from evaluate_probe (reconstruct's normalisation uses the default
        soft aperture)."""
        torch, cp = q[0], q[1]
        samp = tuple(1.0 / (self.rs[i] * self.gpts[i]) for i in range(2))
        kxa, kya = cp.spatial_frequencies(self.gpts, samp, rotation_angle=self.rot)
        k, phi = cp.polar_coordinates(kxa, kya)
        ang = tuple(v * 1e3 * self.lam for v in self.rs)
        probe = cp.evaluate_probe(k * self.lam, phi, self.cutoff, ang, self.lam, aberration_coefs=dict(self.canon))
        w = probe.abs().square().detach().cpu().numpy().astype(np.float64)
        ii = [p[0] % self.gpts[0] for p in self.px]
        jj = [p[1] % self.gpts[1] for p in self.px]
        kx = kxa.detach().cpu().numpy().astype(np.float64)[ii, jj]
        ky = kya.detach().cpu().numpy().astype(np.float64)[ii, jj]
        return kx * self.lam, ky * self.lam, w[ii, jj]

    def classes(self):
        c = self.case
        out = [
            "kind:" + c["kind"],
            "crop" if self.crop else "no_crop",
            "submask" if self.sub is not None else "full_mask",
            "nr:%s" % ("3" if self.nr == 3 else "4-9" if self.nr < 10 else "10-24" if self.nr < 25 else "25-40"),
            "scan:" + ("square" if self.scan[0] == self.scan[1] else "non_square") + ("_odd" if (self.scan[0] % 2 or self.scan[1] % 2) else "_even"),
            "units:" + self.units,
            "route:" + self.route,
            "rot0" if self.rot == 0.0 else "rot",
            "aberrations:" + ("+".join(sorted(k for k, v in self.canon.items() if not k.startswith("phi") and v != 0.0)) or "none"),
            "symmetric_mask" if R.is_symmetric(self.px) else "asymmetric_mask",
        ]
        if c.get("lattice"):
            out.append("lattice")
        if self.route != "init" and self.rot == 0.0:
            out.append("override_rotation_exactly_0" + ("_over_nonzero" if self.route == "decoy" else ""))
        if self.route != "init" and any(v == 0.0 for k, v in self.abers if not _is_angle(k)):
            out.append("override_coefficient_exactly_0" + ("_over_nonzero" if self.route == "decoy" else ""))
        if any(k in R.ALIASES for k, _ in self.abers):
            out.append("alias_keys")
        return out


def _is_angle(key):
    return key.startswith("phi") or key.endswith("_angle")


def _finite(case, what, *arrs):
    for a in arrs:
        if not np.all(np.isfinite(a)):
            raise core.Violation("%s contains non-finite values (%d of %d)" % (what, int((~np.isfinite(a)).sum()), a.size), case)


def _note(ctx, key, val):
    if val > ctx.extra.get(key, 0.0):
        ctx.extra[key] = float(val)


def _cmp(ctx, case, key, got, want, scale, tol, msg, slack=0.0):
    """max |got - want| <= tol * scale + slack.  `slack` is the measured rounding sensitivity (see _check_meta)."""
    if case["kind"] == "meta":
        key = "%s:%s" % (key, R.FAMILY[case["kernel"]])
    if got.shape != want.shape:
        raise core.Violation("%s: shapes %s vs %s" % (msg, got.shape, want.shape), case)
    err = float(np.max(np.abs(got - want))) if got.size else 0.0
    rel = err / scale if scale > 0 else (0.0 if err == 0.0 else float("inf"))
    allowed = tol * scale + slack
    if not math.isnan(rel):
        _note(ctx, "max_rel_err_" + key, rel)
        _note(ctx, "max_fraction_of_allowance_" + key, err / allowed if allowed > 0 else (0.0 if err == 0.0 else float("inf")))
    if not err <= allowed:
        raise core.Violation(
            "%s: max difference %.3g = %.3g of the scale %.3g (allowed: %.1g of the scale%s)"
            % (msg, err, rel, scale, tol, " + rounding sensitivity %.3g" % slack if slack else ""),
            case,
        )


# ------------------------------------------------------------------------------------------------
# kind: meta
# ------------------------------------------------------------------------------------------------
def _call_kwargs(case, changes):
    """reconstruct() keyword arguments of the main call of a meta case with `changes` applied (rotation and
    aberrations are handled by _Setup.run).  butterworth_order / matched_filter_norm_epsilon are only passed when
    given, so that the defaults are exercised too."""
    g = dict(case)
    g.update({k: v for k, v in changes.items() if k not in ("rot", "abers", "mask")})
    kw = dict(
        deconvolution_kernel=g["kernel"], upsampling_factor=g.get("up"), q_lowpass=g.get("q_lowpass"),
        q_highpass=g.get("q_highpass"), parallax_flip_phase=bool(g.get("flip", True)),
    )  # fmt: skip
    if g.get("order") is not None:
        kw["butterworth_order"] = int(g["order"])
    if g.get("mf_eps") is not None:
        kw["matched_filter_norm_epsilon"] = float(g["mf_eps"])
    return kw


def _is_neutral(case, ch):
    """Zero/no aberrations, no sign flipping, up-sampling 1, full mask (see _neutral_call)."""
    g = dict(case)
    g.update(ch)
    zero = ch.get("abers") == "zero" or all(float(v) == 0.0 for k, v in case["abers"] if not _is_angle(k))
    full = ch.get("mask") in ("full", "full_explicit") or case.get("sub") is None
    return bool(zero and full and not g.get("flip", True) and (g.get("up") or 1) == 1)


def _new_history(case, h):
    """History entries of cases recorded before the one-argument-at-a-time format."""
    if "set" in h:
        return h
    ch = {"kernel": h["kernel"]}
    if h.get("drot"):
        ch["rot"] = float(case["rot"]) + float(h["drot"])
    if h.get("abers", "same") != "same":
        ch["abers"] = h["abers"]
    return {"set": ch, "bs": h.get("bs")}


def _check_meta(ctx, case):
    q = _q()
    S = _Setup(case)
    fam = R.FAMILY[case["kernel"]]
    if R.FAMILY[case["kernel2"]] != fam:
        raise core.HarnessError("kernel and kernel2 must name the same kernel")
    up = case.get("up")
    kw = _call_kwargs(case, {})
    kw.pop("deconvolution_kernel")
    soft = bool(case.get("soft", True))
    batches = sorted({int(b) for b in case["batches"] if int(b) >= 1})
    unequal = [b for b in batches if 1 < b < S.nr and S.nr % b]
    classes = S.classes() + [
        "kernel:" + fam,
        "name:" + case["kernel"].lower(),
        "up:%s" % up,
        "soft" if soft else "hard_edges",
        "lowpass" if kw["q_lowpass"] else "no_lowpass",
        "highpass" if kw["q_highpass"] else "no_highpass",
    ]
    if fam == "prlx":
        classes.append("flip" if kw["parallax_flip_phase"] else "no_flip")
    if fam in ("obf", "mf") and (kw["q_lowpass"] or kw["q_highpass"]):
        classes.append("two_pass+filter")
    hist = [_new_history(case, h) for h in case.get("history") or []]
    classes.append("history:%d" % len(hist))
    for h in hist:
        names = sorted(h["set"])
        classes.append("history_change:" + ("+".join(names) if names else "batch_size_only"))
        if "order" in h["set"] and (kw["q_lowpass"] or kw["q_highpass"]) and "q_lowpass" not in h["set"] and "q_highpass" not in h["set"]:
            classes.append("history:other_butterworth_order_same_cutoffs")
        if h["set"].get("rot") == 0.0 or h["set"].get("abers") == "zero":
            classes.append("history:override_exactly_0")
        if _is_neutral(case, h["set"]):
            f = "with_filter" if (_call_kwargs(case, h["set"])["q_lowpass"] or _call_kwargs(case, h["set"])["q_highpass"]) else "no_filter"
            classes.append("history:neutral_call:%s:%s" % (R.FAMILY[h["set"].get("kernel", case["kernel"])], f))
    if case.get("order") is not None:
        classes.append("butterworth_order:%d" % case["order"])
    if any(b > S.nr for b in batches):
        classes.append("batch_size>num_bf")

    with ctx.sut(case, "evaluate_probe (aperture weights)"):
        _ax, _ay, w = S.grid(q)
    w_sel = w[S.sel]
    W = float(w_sel.sum())
    if W < W_FLOOR:
        ctx.record(case, False, classes + ["weight_below_floor"])
        return

    X = S.stack()
    sel0 = None if S.sub is None else S.sel
    with ctx.sut(case, "from_virtual_bfs + reconstruct(%s)" % case["kernel"]):
        dpa = S.build(q, X, "init", soft=soft)
        S0, B0 = S.run(q, dpa, sel0, "init", None, deconvolution_kernel=case["kernel"], **kw)
    u = up or 1
    shape = (S.nr, S.scan[0] * u, S.scan[1] * u)
    if S0.shape != shape or B0.shape != shape[1:]:
        raise core.Violation("corrected_stack/corrected_bf have shapes %s/%s, expected %s/%s" % (S0.shape, B0.shape, shape, shape[1:]), case)
    _finite(case, "reconstruction (%s)" % fam, S0, B0)
    natural = float(np.max(np.abs(X[S.sel].astype(np.float64) - 1.0))) / W
    s_raw = float(np.max(np.abs(S0)))
    s_stack = max(s_raw, SCALE_FLOOR * natural)
    s_bf = float(np.max(np.abs(B0))) + s_stack
    # float32 rounding is relative to the un-filtered spectrum: when the Butterworth envelopes remove (nearly)
    # everything, what is left is rounding noise and "relative to max |result|" has no meaning -> not judged
    if kw["q_lowpass"] or kw["q_highpass"]:
        with ctx.sut(case, "reconstruct(%s) without filters" % case["kernel"]):
            Snf, _b = S.run(q, dpa, sel0, "init", None, deconvolution_kernel=case["kernel"], **dict(kw, q_lowpass=None, q_highpass=None))
        if s_raw < FILTER_FLOOR * float(np.max(np.abs(Snf))):
            ctx.record(case, False, classes + ["filtered_to_noise"])
            return
    # a result that is zero up to rounding noise (e.g. ssb without aberrations when every scan frequency stays in
    # the triple-overlap region: gamma = 0 everywhere; seen: 1e-12 where the natural scale is 1e-2) is not judged
    if s_raw < ZERO_FLOOR * natural:
        ctx.record(case, False, classes + ["zero_result"])
        return
    ctx.record(case, bool(S.nr >= 4 and unequal), classes)

    # Rounding sensitivity.  The ssb/obf/mf factors contain gamma = P(q-k) P*(k) - P*(q+k) P(k), a difference of
    # two O(1) terms each carrying float32 phase errors of ~1e-7 |chi|; ssb and obf then divide by |gamma| resp.
    # sqrt(sum |gamma|^2).  Near the zeros of the transfer function the last-bit differences between torch's
    # code paths for different batch shapes are amplified without bound, so no fixed tolerance is sound there
    # (seen: 8e-6 of max |result| with |chi| ~ 15, one bin with |gamma| ~ 0.01).  The allowance for comparisons
    # between runs with different batch composition therefore adds the measured response of the same
    # reconstruction to a PROBE (3e-6) relative change of every hyper-parameter (~50 float32 ulp; angles: rad).
    d_stack = d_bf = 0.0
    ill = False
    if fam in ("ssb", "obf", "mf"):
        m_stack = m_bf = 0.0
        for sgn in (1.0, -1.0):
            with ctx.sut(case, "from_virtual_bfs + reconstruct(%s), hyper-parameters changed by %g" % (case["kernel"], sgn * PROBE)):
                Sp, Bp = S.run(q, S.build(q, X, "init", soft=soft, perturb=sgn * PROBE), sel0, "init", None, deconvolution_kernel=case["kernel"], **kw)
            _finite(case, "reconstruction (%s)" % fam, Sp, Bp)
            m_stack = max(m_stack, float(np.max(np.abs(Sp - S0))))
            m_bf = max(m_bf, float(np.max(np.abs(Bp - B0))))
        _note(ctx, "max_rounding_sensitivity_rel:" + fam, m_stack / s_stack)
        ill = m_stack > ILL_LIMIT * s_stack
        if ill:
            ctx.count("ill_conditioned(sensitivity>%g): relations 1, 3, 5 not judged" % ILL_LIMIT)
        d_stack = SENS_FACTOR * m_stack
        d_bf = SENS_FACTOR * (m_bf + math.sqrt(S.nr) * m_stack)

    # (1) schedule invariance, on one re-used instance, hyper-parameters by the drawn route, second kernel name
    with ctx.sut(case, "from_virtual_bfs"):
        dpb = S.build(q, X, S.route, soft=soft)
    # call history: earlier calls on that instance with another rotation angle / kernel / batch size (overrides).
    # Each must give what a fresh instance gives for the same call, and must leave nothing behind for the calls
    # that follow (all of which are compared with the fresh-instance result S0)
    for h in hist:
        ch = h["set"]
        hkw = _call_kwargs(case, ch)
        hrot = float(ch["rot"]) if "rot" in ch else None
        habers = None
        if "abers" in ch:
            f = 0.5 if ch["abers"] == "half" else 0.0
            habers = [(k, v if _is_angle(k) else f * v) for k, v in S.abers]
        desc = "reconstruct(%s, max_batch_size=%r)" % (", ".join("%s=%r" % kv for kv in sorted(ch.items())) or "same arguments", h.get("bs"))
        # mask of this call: the main call's (passed explicitly), or the full construction mask (None / explicitly)
        hsel, fsel = S.sel, sel0
        if ch.get("mask") in ("full", "full_explicit"):
            hsel, fsel = (None if ch["mask"] == "full" else list(range(S.n))), None
        with ctx.sut(case, desc + " on the re-used and on a fresh instance"):
            Sh, Bh = S.run(q, dpb, hsel, S.route, h.get("bs"), rot=hrot, abers=habers, **hkw)
            Sf, Bf = S.run(q, S.build(q, X, "init", soft=soft, rot=hrot, abers=habers), fsel, "init", h.get("bs"), **hkw)
        _finite(case, "reconstruction (%s)" % hkw["deconvolution_kernel"], Sf, Bf)
        what = "%s [main call changed in: %s] on a used instance (hyper-parameters as overrides) vs on a fresh instance" % (desc, ", ".join(sorted(ch)) or "nothing")
        s_h = max(float(np.max(np.abs(Sf))), SCALE_FLOOR * natural)
        _cmp(ctx, case, "history", Sh, Sf, s_h, TOL_BATCH, "corrected_stack, " + what)
        _cmp(ctx, case, "history", Bh, Bf, float(np.max(np.abs(Bf))) + s_h, TOL_BATCH, "corrected_bf, " + what)
        ctx.count("history_calls")
    # the main call on the used instance with the batch layout of the fresh-instance run: identical kernel factors,
    # no rounding allowance (this is what shows state left behind by the history even in ill-conditioned cases)
    with ctx.sut(case, "reconstruct(max_batch_size=None) on the used instance"):
        Sb, Bb = S.run(q, dpb, S.sel, S.route, None, deconvolution_kernel=case["kernel2"], **kw)
    what = "kernel %s, %d pixels: used instance (%d earlier calls, hyper-parameters by route %r) vs fresh instance, both un-batched" % (fam, S.nr, len(hist), S.route)
    _cmp(ctx, case, "reuse", Sb, S0, s_stack, TOL_BATCH, "corrected_stack, " + what)
    _cmp(ctx, case, "reuse", Bb, B0, s_bf, TOL_BATCH, "corrected_bf, " + what)
    for bs in [] if ill else batches:
        with ctx.sut(case, "reconstruct(max_batch_size=%d)" % bs):
            Sb, Bb = S.run(q, dpb, S.sel, S.route, bs, deconvolution_kernel=case["kernel2"], **kw)
        what = "kernel %s, %d pixels, max_batch_size=%d vs max_batch_size=None on a fresh instance" % (fam, S.nr, bs)
        _cmp(ctx, case, "batch", Sb, S0, s_stack, TOL_BATCH, "corrected_stack, " + what, d_stack)
        _cmp(ctx, case, "batch", Bb, B0, s_bf, TOL_BATCH, "corrected_bf, " + what, d_bf)

    # (5) the sub-mask reconstruction is a function of the sub-stack and the sub-mask alone
    if S.sub is not None and not ill:
        sub_px = [S.px[i] for i in S.sel]
        with ctx.sut(case, "from_virtual_bfs(sub-mask, sub-stack) + reconstruct"):
            dpc = S.build(q, X[S.sel], "init", px=sub_px, soft=soft, crop=False)
            Sc, Bc = S.run(q, dpc, None, "init", None, deconvolution_kernel=case["kernel"], **kw)
        what = "kernel %s: reconstruct(bf_mask=sub-mask of %d/%d pixels) vs an instance built from that sub-mask and its images" % (fam, S.nr, S.n)
        # (with crop_bf_mask=True the two instances use detector grids of different size: k differs in the last bit)
        s_c = max(float(np.max(np.abs(Sc))), SCALE_FLOOR * natural)
        _cmp(ctx, case, "submask", S0, Sc, s_c, TOL_SUB, "corrected_stack, " + what, d_stack)
        _cmp(ctx, case, "submask", B0, Bc, float(np.max(np.abs(Bc))) + s_c, TOL_SUB, "corrected_bf, " + what, d_bf)

    # (2) linearity in the stack
    lin = case["lin"]
    a, b = float(lin["a"]), float(lin["b"])
    Y = S.stack(lin["seed"])
    Z = (a * X.astype(np.float64) + b * Y.astype(np.float64)).astype(np.float32)
    # all three runs with the same batch size: the kernel factors are then bit-identical and only the stack differs
    Sx, Bx = S0, B0
    if lin.get("bs") is not None:
        with ctx.sut(case, "reconstruct(max_batch_size=%r)" % lin["bs"]):
            Sx, Bx = S.run(q, dpa, sel0, "init", lin["bs"], deconvolution_kernel=case["kernel"], **kw)
    with ctx.sut(case, "from_virtual_bfs + reconstruct (second stack, combined stack)"):
        Sy, By = S.run(q, S.build(q, Y, "init", soft=soft), sel0, "init", lin.get("bs"), deconvolution_kernel=case["kernel"], **kw)
        Sz, Bz = S.run(q, S.build(q, Z, "init", soft=soft), sel0, "init", lin.get("bs"), deconvolution_kernel=case["kernel"], **kw)
    _finite(case, "reconstruction (%s)" % fam, Sy, Sz)
    nat_y = float(np.max(np.abs(Y[S.sel].astype(np.float64) - 1.0))) / W
    s_x = max(float(np.max(np.abs(Sx))), SCALE_FLOOR * natural)
    s_y = max(float(np.max(np.abs(Sy))), SCALE_FLOOR * nat_y)
    sc = abs(a) * s_x + abs(b) * s_y
    sc_bf = abs(a) * (float(np.max(np.abs(Bx))) + s_x) + abs(b) * (float(np.max(np.abs(By))) + s_y)
    what = "kernel %s: R(%g X + %g Y) vs %g R(X) + %g R(Y) (max_batch_size=%r)" % (fam, a, b, a, b, lin.get("bs"))
    _cmp(ctx, case, "linear", Sz, a * Sx + b * Sy, sc, TOL_LIN, "corrected_stack, " + what)
    _cmp(ctx, case, "linear", Bz, a * Bx + b * By, sc_bf, TOL_LIN, "corrected_bf, " + what)

    # (3) complementary sub-masks recombine, single-pass kernels.  (soft_edges=False instances still normalise
    # by the soft-aperture weight; which weight the statement means there is not settled, so such instances are
    # only judged when every pixel is fully inside the aperture: weight 1 under both readings)
    if fam in R.SINGLE_PASS and (soft or bool(np.all(w_sel == 1.0))) and not ill:
        pa = sorted({int(v) for v in case["part"] if 0 <= int(v) < S.nr})
        pb = [i for i in range(S.nr) if i not in set(pa)]
        if pa and pb:
            A = [S.sel[i] for i in pa]
            Bm = [S.sel[i] for i in pb]
            wa, wb = float(w[A].sum()), float(w[Bm].sum())
            if wa >= W_FLOOR and wb >= W_FLOOR:
                holder = {} if len(pa) % 2 else None  # half of the cases: both calls pass the same, refilled tensor
                if holder is not None:
                    ctx.count("partition_mask_buffer_reused_in_place")
                with ctx.sut(case, "reconstruct(bf_mask=A), reconstruct(bf_mask=B)"):
                    _sa, Ba = S.run(q, dpb, A, S.route, None, buf=holder, deconvolution_kernel=case["kernel"], **kw)
                    _sb, Bb2 = S.run(q, dpb, Bm, S.route, None, buf=holder, deconvolution_kernel=case["kernel"], **kw)
                _finite(case, "sub-mask reconstruction (%s)" % fam, Ba, Bb2)
                sc3 = wa * (float(np.max(np.abs(Ba))) + float(np.max(np.abs(_sa)))) + wb * (float(np.max(np.abs(Bb2))) + float(np.max(np.abs(_sb)))) + W * s_bf
                _cmp(
                    ctx, case, "partition", wa * Ba + wb * Bb2, W * B0, sc3, TOL_PART,
                    "kernel %s: W_A bf_A + W_B bf_B vs W bf for a bipartition %d + %d of the %d-pixel mask (weights %.6g + %.6g vs %.6g)"
                    % (fam, len(A), len(Bm), S.nr, wa, wb, W),
                    W * d_bf,
                )  # fmt: skip
                ctx.count("partition_judged")
            else:
                ctx.count("partition_weight_below_floor")


# ------------------------------------------------------------------------------------------------
# kind: analytic
# ------------------------------------------------------------------------------------------------
def _shifts(q, S, ax, ay):
    """(lambda / 2 pi) * d(chi)/d(alpha) at the mask pixels by autograd through aberration_surface (float64)."""
    torch, cp = q[0], q[1]
    coefs = {k: float(v) for k, v in S.canon.items()}
    if not coefs:
        return None
    nz = (ax != 0.0) | (ay != 0.0)  # chi is O(alpha^2): gradient 0 at the origin (where sqrt is not differentiable)
    out = np.zeros((ax.size, 2), dtype=np.float64)
    if not nz.any():
        return out
    gx = torch.tensor(ax[nz], dtype=torch.float64, requires_grad=True)
    gy = torch.tensor(ay[nz], dtype=torch.float64, requires_grad=True)
    chi = cp.aberration_surface(torch.sqrt(gx * gx + gy * gy), torch.atan2(gy, gx), S.lam, coefs)
    if not chi.requires_grad:
        return out
    dx, dy = torch.autograd.grad(chi.sum(), [gx, gy], allow_unused=True)
    f = S.lam / (2.0 * math.pi)
    if dx is not None:
        out[nz, 0] = f * dx.detach().numpy()
    if dy is not None:
        out[nz, 1] = f * dy.detach().numpy()
    return out


def _check_analytic(ctx, case):
    q = _q()
    S = _Setup(case)
    if R.FAMILY[case["kernel"]] != "prlx":
        raise core.HarnessError("analytic cases use the parallax kernel")
    extra = set(S.canon) - {"C10", "C12", "phi12"}
    if extra:
        raise core.HarnessError("analytic cases are stated for defocus and astigmatism only, got %r" % sorted(extra))
    with ctx.sut(case, "spatial_frequencies / evaluate_probe / aberration_surface (oracle inputs)"):
        ax, ay, w = S.grid(q)
        sh = _shifts(q, S, ax, ay)
    W = float(w[S.sel].sum())
    classes = S.classes()
    if W < W_FLOOR:
        ctx.record(case, False, classes + ["weight_below_floor"])
        return
    X = S.stack()
    sh_sel = None if sh is None else sh[S.sel]
    maxshift_px = 0.0 if sh_sel is None else float(np.max(np.abs(sh_sel) / np.array(S.ss)[None, :]))
    classes.append("shift:none" if maxshift_px == 0.0 else "shift:<0.5px" if maxshift_px < 0.5 else "shift:0.5-2px" if maxshift_px < 2 else "shift:>2px")
    classes.append("weights:uniform" if np.all(w[S.sel] == 1.0) else "weights:soft_edge")
    ctx.record(case, bool(S.nr >= 4 and maxshift_px > 0.0), classes)

    want = R.shifted_sum(X[S.sel], sh_sel, S.ss, W)
    prior = case.get("prior")
    if prior:
        ch = prior["set"]
        classes_prior = "prior_call:" + ("neutral:%s:%s" % (R.FAMILY[ch["kernel"]], "with_filter" if (ch.get("q_lowpass") or ch.get("q_highpass")) else "no_filter") if _is_neutral(dict(case, flip=False, up=None), ch) else "other")
        ctx.count(classes_prior)
    with ctx.sut(case, "from_virtual_bfs + reconstruct(parallax, parallax_flip_phase=False)"):
        dp = S.build(q, X, S.route)
        if prior:
            pk = _call_kwargs(dict(case, up=None, q_lowpass=None, q_highpass=None, flip=False), ch)
            pabers = None
            if "abers" in ch:
                pabers = [(k, v if _is_angle(k) else (0.5 if ch["abers"] == "half" else 0.0) * v) for k, v in S.abers]
            psel = None if (ch.get("mask") == "full" or S.sub is None) else (list(range(S.n)) if ch.get("mask") == "full_explicit" else S.sel)
            S.run(q, dp, psel, S.route, prior.get("bs"), abers=pabers, **pk)
        _s, got = S.run(q, dp, None if S.sub is None else S.sel, S.route, case.get("bs"), deconvolution_kernel=case["kernel"], parallax_flip_phase=False)
    _finite(case, "parallax reconstruction", got)
    msg = (
        "parallax (no sign flipping) corrected_bf vs sum_k T[s_k](v_k - mean v_k) / W over %d pixels, W=%.6g, aberrations %r, rotation %r, "
        "largest shift %.3g scan px" % (S.nr, W, S.canon, S.rot, maxshift_px)
    )
    natural = float(np.max(np.abs(X[S.sel].astype(np.float64) - 1.0))) / W
    _cmp(ctx, case, "analytic", got, want, max(float(np.max(np.abs(want))), SCALE_FLOOR * natural), TOL_ANALYTIC, msg)


# ------------------------------------------------------------------------------------------------
def check(ctx, case):
    kind = case["kind"]
    if kind == "meta":
        return _check_meta(ctx, case)
    if kind == "analytic":
        return _check_analytic(ctx, case)
    raise core.HarnessError("unknown case kind %r" % kind)


def search(ctx):
    _q()
    # per worker (quick: 2 workers, thorough: 16 -> 12 800 meta + 48 000 analytic cases); a meta case is 15-40
    # reconstructions (~0.25 s incl. generation), an analytic one ~10 ms
    core.run_given(ctx, "meta", meta_cases(), lambda c: check(ctx, c), ctx.n(200, 800))
    core.run_given(ctx, "analytic", analytic_cases(), lambda c: check(ctx, c), ctx.n(350, 3000))

"""C17 — reliability-sorted phase unwrapping recovers any smooth phase up to a constant.

A case is a small recipe (grid shape, field terms, mask recipe, wrap_around, dtype, input form,
route).  `check` builds a float64 truth field whose largest neighbour difference over exactly the
pixel pairs that matter (4-neighbours with both ends in the mask, periodic pairs iff wrap_around)
is frac*pi with frac <= 0.95 (Itoh's condition by construction), wraps it, runs quantem and judges

  (a) out - truth is constant on every connected component of the mask (own component oracle),
  (b) out - input is, on mask pixels, one constant plus integer multiples of 2*pi,
  (c) if the input was the (smooth) unwrapped field itself, out - input is one constant, no 2*pi's.

Every array is handed over in a drawn memory layout (contiguous, Fortran-strided, strided / inner
slices of a larger buffer, permuted 3-D view, stride-0 expand for an all-True mask): the result is a
function of the values only, so the oracle does not change.

The Poisson method is only run for "does not raise, finite, same shape"."""

from __future__ import annotations

import math

import numpy as np
from hypothesis import strategies as st

from vq import core
from vq.refs import c17_grid as G

TWO_PI = 2.0 * math.pi
MAX_SIDE = 28
FRAC_MAX = 0.95

# Tolerance (radians) for "constant" / "integer multiple of 2*pi":  TOL_BASE * (1 + max|k|), k the
# number of 2*pi wraps removed.  The implementation adds float32(2*pi*k) to the input and subtracts a
# float32 mean, so its error is ~ulp32(2*pi*k) + ulp32(|out|), about 1e-6*(1+|k|).  Measured on the
# pinned tree (quick tier, seeds 1, 2, 3, 7, 11, 12, 12345; the worst value is recorded in the evidence
# as extra.max_err_over_1_plus_k:*): float32 input <= 1.9e-6, float64 input <= 7.2e-7 (offsets are
# float32 either way), bf route <= 1.3e-6 (incl. 8 soak seeds x 5333 cases).  1e-4 leaves ~50x head-room; a wrong unwrap is off by 2*pi
# (6.28), so the head-room hides nothing.
TOL_BASE = 1e-4


def _q():
    import torch

    import quantem.core.utils.imaging_utils as iu
    import quantem.diffractive_imaging.direct_ptycho_utils as dpu

    return torch, iu, dpu


# ------------------------------------------------------------------------------------------------
# generators
# ------------------------------------------------------------------------------------------------
def _f(lo, hi):
    return st.floats(lo, hi, allow_nan=False, allow_infinity=False).map(lambda v: round(v, 4))


def _w():
    # signed weight of a term, bounded away from 0 (every drawn term contributes)
    return st.tuples(st.sampled_from([-1.0, 1.0]), _f(0.2, 1.0)).map(lambda t: t[0] * t[1])


LAYOUTS_2D = ["c", "t", "fortran_np", "slice_step2", "slice_inner", "permute3d"]
LAYOUTS_1D = ["c", "step2", "inner"]


def _lay2():
    return st.sampled_from(["c", "c"] + LAYOUTS_2D[1:])


def _lay1():
    return st.sampled_from(["c"] + LAYOUTS_1D)


@st.composite
def _layouts(draw, case):
    """Memory layout of every array handed to quantem (same values, different strides)."""
    if case["route"] == "bf":
        case["bf_mask_layout"] = draw(_lay2())
        case["vec_layout"] = draw(_lay1())
        case["mask_bf_layout"] = draw(_lay1())
    else:
        case["layout"] = draw(_lay2())
        if case["mask"] is not None:
            case["mask_layout"] = draw(st.sampled_from(["c", "c"] + LAYOUTS_2D[1:] + ["expand"]))
            case["mask_enc"] = draw(_mask_enc())
    return case


# ---- mask encodings -----------------------------------------------------------------------------
# Both unwrappers convert the mask with `.to(torch.bool)`, i.e. every dtype is accepted and a pixel is
# valid iff its mask value is non-zero.  A mask is therefore also handed over as uint8 / int8..int64 /
# float16..float64 tensor whose valid pixels carry a drawn non-zero value (boundary values of the
# dtype, powers of two, fractions, tiny floats, or per-pixel "gray" values) and invalid pixels 0.
MASK_DTYPES = ["bool", "uint8", "int8", "int16", "int32", "int64", "float16", "float32", "float64"]
_BITS = {"uint8": 8, "int8": 8, "int16": 16, "int32": 32, "int64": 64}


@st.composite
def _mask_enc(draw):
    dt = draw(st.sampled_from(["bool", "bool", "uint8", "uint8"] + MASK_DTYPES[1:]))
    if dt == "bool":
        return {"dtype": dt, "kind": "bool"}
    if dt in _BITS:
        bits = _BITS[dt]
        signed = dt != "uint8"
        lo, hi = (-(2 ** (bits - 1)), 2 ** (bits - 1) - 1) if signed else (0, 2**bits - 1)
        kind = draw(st.sampled_from(["one", "max", "min" if signed else "max", "pow2", "pow2", "value", "value", "gray"]))
        enc = {"dtype": dt, "kind": kind}
        if kind == "one":
            enc["on"] = 1
        elif kind == "max":
            enc["on"] = hi
        elif kind == "min":
            enc["on"] = lo
        elif kind == "pow2":
            enc["on"] = 2 ** draw(st.integers(0, bits - (2 if signed else 1)))
        elif kind == "value":
            v = draw(st.integers(lo, hi))
            enc["on"] = v if v != 0 else 1
        else:
            enc["seed"] = draw(st.integers(0, 2**31 - 1))
        return enc
    kind = draw(st.sampled_from(["one", "big", "neg", "frac", "tiny", "gray"]))
    enc = {"dtype": dt, "kind": kind}
    if kind == "one":
        enc["on"] = 1.0
    elif kind == "big":
        enc["on"] = 255.0
    elif kind == "neg":
        enc["on"] = -1.0
    elif kind == "frac":
        enc["on"] = draw(st.sampled_from([0.5, 0.25, 0.1, 0.999]))
    elif kind == "tiny":
        enc["on"] = 1e-7 if dt == "float16" else 1e-30  # non-zero in the dtype, its square is not
    else:
        enc["seed"] = draw(st.integers(0, 2**31 - 1))
    return enc


def _encode_mask(mask, enc):
    """bool (H, W) -> numpy array of enc['dtype'] with non-zero exactly on the valid pixels."""
    if enc is None or enc["dtype"] == "bool":
        return mask.copy()
    dt = np.dtype(enc["dtype"])
    if enc["kind"] == "gray":
        rng = np.random.default_rng(enc["seed"])
        if dt.kind in "iu":
            info = np.iinfo(dt)
            v = rng.integers(info.min, info.max, size=mask.shape, endpoint=True, dtype=np.int64 if dt != np.uint64 else np.uint64)
            v = np.where(v == 0, 1, v)
        else:
            v = rng.uniform(0.05, 1.0, size=mask.shape)
        out = np.where(mask, v, 0).astype(dt)
    else:
        out = np.where(mask, enc["on"], 0).astype(dt)
    if not np.array_equal(out != 0, mask):
        raise AssertionError("harness: mask encoding changed the valid set")
    return out


def _garbage(torch, shape, dtype):
    """Filler for the elements of the backing storage that are NOT part of the view."""
    if dtype == torch.bool or not (dtype.is_floating_point or dtype.is_complex):
        return torch.ones(shape, dtype=dtype)
    return torch.full(shape, float("nan"), dtype=dtype)


def _as_layout(torch, arr, layout):
    """A tensor with exactly the values and shape of the numpy array `arr`, laid out as `layout`.
    Returns (tensor, layout actually used)."""
    base = torch.from_numpy(np.ascontiguousarray(arr).copy())
    used = layout
    if arr.ndim == 1:
        n = arr.shape[0]
        if layout == "step2":
            big = _garbage(torch, (2 * n,), base.dtype)
            big[::2] = base
            t = big[::2]
        elif layout == "inner":
            big = _garbage(torch, (n + 2,), base.dtype)
            big[1:-1] = base
            t = big[1:-1]
        else:
            t, used = base, "c"
    else:
        H, W = arr.shape
        if layout == "t":
            t = base.t().contiguous().t()  # Fortran-like strides, same shape and values
        elif layout == "fortran_np":
            t = torch.from_numpy(np.asfortranarray(arr.copy()))
        elif layout == "slice_step2":
            big = _garbage(torch, (2 * H, 2 * W), base.dtype)
            big[::2, ::2] = base
            t = big[::2, ::2]
        elif layout == "slice_inner":
            big = _garbage(torch, (H, W + 2), base.dtype)
            big[:, 1:-1] = base
            t = big[:, 1:-1]
        elif layout == "permute3d":
            big = _garbage(torch, (W, 2, H), base.dtype)
            big[:, 1, :] = base.t()
            t = big.permute(2, 1, 0)[:, 1, :]
        elif layout == "expand" and arr.dtype == bool and bool(arr.all()):
            t = torch.ones((1, 1), dtype=torch.bool).expand(H, W)  # stride (0, 0)
        else:
            t, used = base, "c"
    if tuple(t.shape) != tuple(arr.shape) or not torch.equal(t, base):
        raise AssertionError("harness: layout %s changed the values" % layout)
    return t, used


@st.composite
def _terms(draw, periodic_bias):
    """1-3 terms; each is normalised to unit largest neighbour step (over the pairs that matter)
    before being weighted by `w`, so no term is numerically drowned by another."""
    kinds = ["ramp", "ramp", "quad", "quad", "gauss", "gauss", "band", "band", "cos", "white"]
    if periodic_bias:
        kinds = ["band", "cos", "gauss", "band", "cos", "ramp", "quad", "white"]
    n = draw(st.integers(1, 3))
    out = []
    for _ in range(n):
        k = draw(st.sampled_from(kinds))
        t = {"t": k, "w": draw(_w())}
        if k == "ramp":
            t["angle"] = draw(_f(0, 6.2832))  # direction of steepest ascent
        elif k == "quad":
            t.update(cxx=draw(_f(-1, 1)), cyy=draw(_f(-1, 1)), cxy=draw(_f(-1, 1)), x0=draw(_f(-0.5, 1.5)), y0=draw(_f(-0.5, 1.5)))
            if max(abs(t["cxx"]), abs(t["cyy"]), abs(t["cxy"])) < 0.05:
                t["cxx"] = 1.0
        elif k == "gauss":
            t.update(x0=draw(_f(0, 1)), y0=draw(_f(0, 1)), s=draw(_f(0.05, 0.8)), periodic=periodic_bias and draw(st.booleans()))
        elif k == "cos":
            t.update(m=draw(st.integers(-3, 3)), n=draw(st.integers(-3, 3)), ph=draw(_f(0, 6.2832)))
            if t["m"] == 0 and t["n"] == 0:
                t["m"] = 1
        elif k == "white":
            # pixel-wise independent noise: still a legal field once rescaled to steps <= 0.95*pi;
            # it randomises the reliability order, i.e. the order in which regions are merged
            t.update(seed=draw(st.integers(0, 2**31 - 1)))
        else:
            t.update(seed=draw(st.integers(0, 2**31 - 1)), kmax=draw(st.integers(1, 4)), decay=draw(st.sampled_from([0.0, 1.0, 2.0])))
        out.append(t)
    return out


@st.composite
def _shape(draw, H, W):
    if draw(st.booleans()):
        return ["rect", draw(st.integers(0, H - 1)), draw(st.integers(0, W - 1)), draw(st.integers(1, H)), draw(st.integers(1, W))]
    return ["disc", draw(st.integers(0, H - 1)), draw(st.integers(0, W - 1)), draw(st.integers(0, max(1, max(H, W) // 2)))]


@st.composite
def _masks(draw, H, W, wrap, masked=None):
    kinds = ["none", "shapes", "shapes", "noise", "noise", "bits"]
    if masked is True:
        kinds = kinds[1:]
    elif masked is False:
        kinds = ["none"]
    t = draw(st.sampled_from(kinds))
    if t == "none":
        return None
    if t == "shapes":
        spec = {
            "t": t,
            "add": draw(st.lists(_shape(H, W), min_size=1, max_size=3)),
            "sub": draw(st.lists(_shape(H, W), min_size=0, max_size=3)),
            "periodic": wrap and draw(st.booleans()),
        }
    elif t == "noise":
        spec = {
            "t": t,
            "seed": draw(st.integers(0, 2**31 - 1)),
            "smooth": draw(st.sampled_from([0.0, 0.7, 1.2, 2.0])),
            "fill": draw(st.sampled_from([0.3, 0.5, 0.7, 0.85])),
        }
    else:
        spec = {"t": t, "rows": draw(st.lists(st.integers(0, 2**W - 1), min_size=H, max_size=H))}
    spec["invert"] = draw(st.booleans()) if t != "bits" else False
    spec["keep"] = draw(st.sampled_from(["all", "all", "largest"]))
    return spec


@st.composite
def _sides(draw):
    """(H, W): mostly 3..28 each; one case in ten has a side of length 1 or 2 (degenerate periodic
    neighbourhoods: a pixel that is its own / twice its neighbour's neighbour)."""
    side = st.integers(3, MAX_SIDE)
    H, W = draw(side), draw(side)
    tiny = draw(st.integers(0, 19))
    if tiny == 0:
        H = draw(st.integers(1, 2))
    elif tiny == 1:
        W = draw(st.integers(1, 2))
    return H, W


@st.composite
def cases(draw, route="direct", masked=None, inputs=("wrapped",)):
    H, W = draw(_sides())
    wrap = draw(st.booleans())
    mask = draw(_masks(H, W, wrap, masked))
    case = {
        "H": H,
        "W": W,
        "wrap_around": wrap,
        "route": route,
        "mask": mask,
        "field": {
            "terms": draw(_terms(periodic_bias=wrap and draw(st.integers(0, 3)) > 0)),
            "frac": draw(st.sampled_from([0.95, 0.95, 0.9, 0.8, 0.6]) | _f(0.5, FRAC_MAX) | _f(0.05, FRAC_MAX)),
            "offset": draw(_f(-3.1416, 3.1416)),
        },
    }
    if route == "direct":
        case["dtype"] = draw(st.sampled_from(["float32", "float32", "float64"]))
        case["input"] = draw(st.sampled_from(list(inputs)))
        if mask is not None:
            case["outside"] = draw(st.sampled_from(["field", "zero", "noise"]))
            if case["outside"] == "noise":
                case["outside_seed"] = draw(st.integers(0, 2**31 - 1))
    elif route == "bf":
        # unwrap_bf_overlap_phase_torch(complex_data_bf, mask_bf, bf_mask, two_pass=..., **kw)
        case["two_pass"] = draw(st.booleans())
        case["pass_wrap_kw"] = draw(st.booleans())  # False: the real caller's form (default True)
        if not case["pass_wrap_kw"]:
            case["wrap_around"] = True
        case["bf_extra"] = draw(st.sampled_from(["same", "all", "dilate"]))
        case["amp_seed"] = draw(st.integers(0, 2**31 - 1))
    return draw(_layouts(case))


@st.composite
def seam_cases(draw):
    """Periodic grids whose mask is connected only through the periodic seam: band masks (a band of
    columns and/or rows that does not touch the border is removed, so the remaining strips meet only
    across the last<->first column / row), on thin (1xW, 2xW, Hx1, Hx2), narrow (3xW, Hx3) and regular
    grids, with a dominant harmonic along the cut axis so the field really wraps."""
    kind = draw(st.sampled_from(["thin", "thin", "thin", "thin", "narrow", "regular"]))
    # a unit harmonic with steps <= 0.95*pi spans more than 2*pi (so it must wrap) from 7 samples on
    long_side = st.integers(8, MAX_SIDE)
    if kind == "regular":
        H, W = draw(st.integers(8, 18)), draw(st.integers(8, 18))  # (the other strata go up to 28x28)
        axes = draw(st.sampled_from(["cols", "rows", "both"]))
    else:
        short = draw(st.integers(1, 2)) if kind == "thin" else 3
        if draw(st.booleans()):
            H, W, axes = short, draw(long_side), "cols"
        else:
            H, W, axes = draw(long_side), short, "rows"
        if kind == "narrow" and draw(st.booleans()):
            axes = "both"  # 3 rows: the middle row can be removed too
    mask = {"t": "band", "invert": False, "keep": "all"}
    if axes in ("cols", "both"):
        c0 = draw(st.integers(1, W - 2))
        mask["cols"] = [c0, draw(st.integers(1, W - 1 - c0))]
    if axes in ("rows", "both"):
        r0 = draw(st.integers(1, H - 2))
        mask["rows"] = [r0, draw(st.integers(1, H - 1 - r0))]
    mask["holes"] = draw(st.lists(st.tuples(st.integers(0, H - 1), st.integers(0, W - 1)).map(list), max_size=2))
    # dominant periodic harmonic along the cut axis (or both), then optional periodic extras
    order = st.sampled_from([1, 1, 1, 2, -1, -1, -1, -2])
    m = draw(order) if axes in ("cols", "both") else draw(st.integers(-1, 1))
    n = draw(order) if axes in ("rows", "both") else draw(st.integers(-1, 1))
    terms = [{"t": "cos", "w": draw(st.sampled_from([-1.0, 1.0])), "m": m, "n": n, "ph": draw(_f(0, 6.2832))}]
    for _ in range(draw(st.integers(0, 2))):
        k = draw(st.sampled_from(["band", "gauss", "white", "cos"]))
        t = {"t": k, "w": draw(_w()) * 0.5}
        if k == "band":
            t.update(seed=draw(st.integers(0, 2**31 - 1)), kmax=draw(st.integers(1, 3)), decay=draw(st.sampled_from([0.0, 1.0, 2.0])))
        elif k == "gauss":
            t.update(x0=draw(_f(0, 1)), y0=draw(_f(0, 1)), s=draw(_f(0.05, 0.8)), periodic=True)
        elif k == "white":
            t.update(seed=draw(st.integers(0, 2**31 - 1)))
        else:
            t.update(m=draw(st.integers(-3, 3)), n=draw(st.integers(-3, 3)), ph=draw(_f(0, 6.2832)))
            if t["m"] == 0 and t["n"] == 0:
                t["m"] = 1
        terms.append(t)
    route = draw(st.sampled_from(["direct", "direct", "direct", "bf"]))
    case = {
        "H": H,
        "W": W,
        "wrap_around": True,
        "route": route,
        "mask": mask,
        "field": {
            "terms": terms,
            "frac": draw(st.sampled_from([0.95, 0.95, 0.9, 0.8]) | _f(0.8, FRAC_MAX)),
            "offset": draw(st.integers(-31, 31).map(lambda i: i / 10.0)),
        },
    }
    if route == "direct":
        case["dtype"] = draw(st.sampled_from(["float32", "float32", "float64"]))
        case["input"] = draw(st.sampled_from(["wrapped", "wrapped", "wrapped", "unwrapped"]))
        case["outside"] = draw(st.sampled_from(["field", "zero", "noise"]))
        if case["outside"] == "noise":
            case["outside_seed"] = draw(st.integers(0, 2**31 - 1))
    else:
        case["two_pass"] = draw(st.booleans())
        case["pass_wrap_kw"] = draw(st.booleans())  # False: the real caller's form (default True)
        case["bf_extra"] = draw(st.sampled_from(["same", "all", "dilate"]))
        case["amp_seed"] = draw(st.integers(0, 2**31 - 1))
    return draw(_layouts(case))


@st.composite
def seamwrap_cases(draw):
    """Corner-centred (FFT layout) regions on periodic grids - the geometry DirectPtychography hands to
    unwrap_bf_overlap_phase_torch: a disc / square around index (0, 0) or the overlap lune of two such
    discs, which is one region only through the periodic seam - with fields laid out corner-centred
    (smooth across the seam) whose piston is chosen so that a wrap contour passes between two chosen
    neighbouring pixels, mostly the seam pair at DC.  With an axis-aligned gentle tilt the ONLY wraps
    of the field then lie across the seam and none in the array interior (class
    wraps_only_across_seam); with other draws the contour also crosses the interior."""
    H, W = draw(st.integers(6, 24)), draw(st.integers(6, 24))
    rmax = max(1, min(H, W) // 2 - 1)
    rad = draw(st.integers(1, rmax))
    mask = {"t": "corner", "shape": draw(st.sampled_from(["disc", "disc", "rect"])), "rad": rad, "invert": False, "keep": "all"}
    if draw(st.booleans()):
        mask["shift"] = [draw(st.integers(-rad, rad)), draw(st.integers(-rad, rad))]
    axis = draw(st.sampled_from(["x", "y"]))
    base = 0.0 if axis == "x" else 1.5708
    if draw(st.booleans()):
        base += 3.1416
    if draw(st.integers(0, 4)) == 0:
        base = draw(_f(0, 6.2832))  # oblique tilt: the contour leaves the seam
    terms = [{"t": "ramp", "w": 1.0, "angle": round(base, 4), "corner": True}]
    if draw(st.integers(0, 2)) == 0:
        k = draw(st.sampled_from(["quad", "gauss", "band", "white"]))
        t = {"t": k, "w": draw(st.sampled_from([-1.0, 1.0])) * draw(_f(0.02, 0.3)), "corner": True}
        if k == "quad":
            t.update(cxx=draw(_f(-1, 1)), cyy=draw(_f(-1, 1)), cxy=draw(_f(-1, 1)), x0=0.5, y0=0.5)
            if max(abs(t["cxx"]), abs(t["cyy"]), abs(t["cxy"])) < 0.05:
                t["cxx"] = 1.0
        elif k == "gauss":
            t.update(x0=draw(_f(0.3, 0.7)), y0=draw(_f(0.3, 0.7)), s=draw(_f(0.05, 0.8)), periodic=False)
        elif k == "band":
            t.update(seed=draw(st.integers(0, 2**31 - 1)), kmax=draw(st.integers(1, 3)), decay=2.0)
        else:
            t.update(seed=draw(st.integers(0, 2**31 - 1)))
        terms.append(t)
    # wrap contour through a chosen neighbouring pair: mostly the seam pair at DC on the tilt axis
    where = draw(st.sampled_from(["seam_dc", "seam_dc", "seam_dc", "seam_any", "interior"]))
    if where == "interior":
        r, c = draw(st.integers(0, H - 2)), draw(st.integers(0, W - 2))
        pa, pb = [r, c], ([r, c + 1] if axis == "x" else [r + 1, c])
    else:
        o = 0 if where == "seam_dc" else draw(st.integers(-rad, rad))
        pa, pb = ([o % H, W - 1], [o % H, 0]) if axis == "x" else ([H - 1, o % W], [0, o % W])
    route = draw(st.sampled_from(["bf", "bf", "direct"]))
    case = {
        "H": H,
        "W": W,
        "wrap_around": True,
        "route": route,
        "mask": mask,
        "field": {
            "terms": terms,
            "frac": draw(st.sampled_from([0.95, 0.5, 0.3, 0.1]) | _f(0.02, FRAC_MAX)),
            "max_range": draw(st.sampled_from([6.0, 5.0, 3.0, 1.0, None]) | _f(0.3, 6.2)),
            "pin": {"a": pa, "b": pb, "n": draw(st.sampled_from([0, -1, 0, 1])), "t": draw(st.sampled_from([0.5, 0.2, 0.8]) | _f(0.05, 0.95))},
            "offset": 0.0,
        },
    }
    if route == "direct":
        case["dtype"] = draw(st.sampled_from(["float32", "float32", "float64"]))
        case["input"] = "wrapped"
        case["outside"] = draw(st.sampled_from(["field", "zero", "noise"]))
        if case["outside"] == "noise":
            case["outside_seed"] = draw(st.integers(0, 2**31 - 1))
    else:
        case["two_pass"] = draw(st.booleans())
        case["pass_wrap_kw"] = draw(st.sampled_from([False, False, True]))  # False: the real caller's form
        case["bf_extra"] = draw(st.sampled_from(["disc0", "disc0", "same", "all", "dilate"]))
        case["amp_seed"] = draw(st.integers(0, 2**31 - 1))
    return draw(_layouts(case))


@st.composite
def poisson_cases(draw):
    c = draw(cases(route="direct"))
    c["route"] = "poisson"
    c["wrap_around"] = True  # the only implemented setting (False raises NotImplementedError by design)
    c["input"] = "wrapped"
    c["reg"] = draw(st.sampled_from([None, None, 1e-3, 1.0]))
    return c


# ------------------------------------------------------------------------------------------------
# case -> arrays
# ------------------------------------------------------------------------------------------------
def _build(case):
    H, W, wrap = case["H"], case["W"], bool(case["wrap_around"])
    mask = G.build_mask(H, W, case["mask"], wrap)
    a, b = G.edge_list(H, W, mask, wrap)
    labels, ncomp = G.components(H, W, mask, wrap)
    truth = G.build_field(H, W, case["field"], a, b, labels >= 0)
    if not (np.all(np.isfinite(truth)) and np.max(np.abs(truth)) <= 2 * G.MAX_ABS_PHASE + 8):
        raise AssertionError("harness: generated field out of range")  # harness error, never a violation
    wrapped = G.wrap(truth)
    k = np.rint((truth - wrapped) / TWO_PI).astype(np.int64)
    inm = labels >= 0
    # a wrap that has to be undone: k is not constant on some connected component
    has_wrap = False
    kspan = 0
    for c in range(ncomp):
        kc = k[labels == c]
        s = int(kc.max() - kc.min())
        kspan = max(kspan, s)
        has_wrap |= s > 0
    kmax = int(np.max(np.abs(k[inm]))) if inm.any() else 0
    hole = G.has_hole(H, W, mask, wrap)
    # where do the wrap contours run?  pixel pairs whose wrap counts differ, split into pairs across
    # the periodic seam (last<->first row / column) and pairs in the array interior
    kf = k.ravel()
    kd = kf[a] != kf[b]
    seam_pair = (np.abs(a // W - b // W) > 1) | (np.abs(a % W - b % W) > 1)
    seam_only_wraps = bool(np.any(kd & seam_pair) and not np.any(kd & ~seam_pair))
    # some region of the mask hangs together only through the periodic border (classification only)
    seam = bool(wrap and mask is not None and G.components(H, W, mask, False)[1] > ncomp)
    return dict(
        H=H, W=W, wrap=wrap, mask=mask, truth=truth, labels=labels, ncomp=ncomp, wrapped=wrapped,
        k=k, inm=inm, has_wrap=has_wrap, kspan=kspan, kmax=kmax, hole=hole, seam=seam, nedges=int(a.size), seam_only_wraps=seam_only_wraps,
    )  # fmt: skip


def _classes(case, B):
    cl = [
        "route:" + case["route"],
        "wrap_around:%s" % B["wrap"],
        "mask:" + ("none" if case["mask"] is None else case["mask"]["t"]),
        "components:" + ("1" if B["ncomp"] == 1 else "2" if B["ncomp"] == 2 else "3+"),
        "field_has_wrap" if B["has_wrap"] else "field_no_wrap",
        "kspan:" + ("0" if B["kspan"] == 0 else "1" if B["kspan"] == 1 else "2-4" if B["kspan"] <= 4 else "5+"),
    ]
    cl += ["field:" + t for t in sorted({t["t"] for t in case["field"]["terms"]})]
    if B["hole"]:
        cl.append("mask_has_hole")
    thin = min(B["H"], B["W"]) <= 2
    if thin:
        cl.append("thin_grid")
    elif min(B["H"], B["W"]) == 3:
        cl.append("narrow_grid")
    if B["seam_only_wraps"]:
        cl.append("wraps_only_across_seam")
        cl.append("wraps_only_across_seam/" + case["route"])
    if case["mask"] is not None and case["mask"]["t"] == "corner":
        cl.append("corner_centred_mask")
    if B["seam"]:
        cl.append("seam_connected_mask")
        if B["has_wrap"]:
            cl.append("seam_connected_mask+wrap" + ("+thin_grid" if thin else ""))
    px = B["H"] * B["W"]
    cl.append("pixels:" + ("<=64" if px <= 64 else "65-256" if px <= 256 else "257+"))
    if case["route"] == "direct":
        cl += ["dtype:" + case["dtype"], "input:" + case["input"]]
        if case["mask"] is not None:
            cl.append("outside:" + case["outside"])
    if case["route"] == "bf":
        cl.append("two_pass:%s" % case["two_pass"])
    if B["mask"] is not None and B["wrap"]:
        m = B["mask"]
        if (m[0] & m[-1]).any() and B["H"] > 2 or (m[:, 0] & m[:, -1]).any() and B["W"] > 2:
            cl.append("mask_crosses_periodic_border")
    return cl


def _nontrivial(case, B):
    """A wrap line crosses a connected component (something has to be unwrapped) and, when a mask
    is given, the mask is not a single simply-connected blob (hole, >= 2 components, or a region
    that is connected only through the periodic border)."""
    if not B["has_wrap"]:
        return False
    if case["mask"] is None:
        return True
    return B["hole"] or B["ncomp"] >= 2 or B["seam"]


# ------------------------------------------------------------------------------------------------
# oracle
# ------------------------------------------------------------------------------------------------
def _judge(case, B, out, given, what, unwrapped_input):
    """out, given: float64 (H, W) arrays (given = the phase values quantem received)."""
    inm, labels = B["inm"], B["labels"]
    if out.shape != (B["H"], B["W"]):
        raise core.Violation("%s: result shape %s, expected %s" % (what, out.shape, (B["H"], B["W"])), case)
    if not np.all(np.isfinite(out[inm])):
        raise core.Violation("%s: non-finite values on mask pixels" % what, case)
    tol = TOL_BASE * (1 + B["kmax"])
    worst = 0.0
    # (a) the generating field up to one constant per connected component
    d = out - B["truth"]
    for c in range(B["ncomp"]):
        dc = d[labels == c]
        p = float(dc.max() - dc.min())
        worst = max(worst, p)
        if p > tol:
            sel = np.argwhere(labels == c)
            i_hi = sel[int(np.argmax(dc))]
            i_lo = sel[int(np.argmin(dc))]
            raise core.Violation(
                "%s: result - true field is not constant on connected region %d of %d (%d px): differs by %.6g rad "
                "(%.3f x 2pi) between pixel %s and pixel %s; max neighbour step of the true field is %.3f*pi"
                % (what, c, B["ncomp"], dc.size, p, p / TWO_PI, i_lo.tolist(), i_hi.tolist(), case["field"]["frac"]),
                case,
            )
    # (b) result - input = one constant + integer multiples of 2*pi (mask pixels)
    e = (out - given)[inm]
    r = e - e[0]
    resid = r - TWO_PI * np.rint(r / TWO_PI)
    m = float(np.max(np.abs(resid)))
    worst = max(worst, m)
    if m > 2 * tol:
        raise core.Violation(
            "%s: result - input is not (one constant + integer multiples of 2pi): residual %.6g rad" % (what, m), case
        )
    # (c) smooth input that is already unwrapped comes back unchanged up to that one constant
    if unwrapped_input:
        p = float(e.max() - e.min())
        worst = max(worst, p)
        if p > 2 * tol:
            raise core.Violation(
                "%s: already-unwrapped smooth input was changed: result - input spans %.6g rad (%.3f x 2pi) over the mask"
                % (what, p, p / TWO_PI),
                case,
            )
    return worst / (1 + B["kmax"])


def check(ctx, case):
    torch, iu, dpu = _q()
    B = _build(case)
    route = case["route"]
    ctx.record(case, _nontrivial(case, B) and route != "poisson", _classes(case, B))
    H, W, mask, inm = B["H"], B["W"], B["mask"], B["inm"]
    lay = []
    tmask = None
    if mask is not None and route != "bf":
        enc = case.get("mask_enc")
        tmask, u = _as_layout(torch, _encode_mask(mask, enc), case.get("mask_layout", "c"))
        lay.append("layout:mask=" + u)
        ctx.count("mask_enc:%s/%s" % (enc["dtype"], enc["kind"]) if enc else "mask_enc:bool/bool")
        if enc and enc["dtype"] in _BITS and enc["kind"] != "gray" and (enc["on"] * enc["on"]) % (2 ** _BITS[enc["dtype"]]) == 0:
            ctx.count("mask_enc:int_value_whose_square_is_0_mod_2^bits")

    if route in ("direct", "poisson"):
        dt = np.dtype(case["dtype"])
        unwrapped = case["input"] == "unwrapped"
        phi = (B["truth"] if unwrapped else B["wrapped"]).copy()
        if mask is not None:
            o = case["outside"]
            if o == "zero":
                phi[~inm] = 0.0
            elif o == "noise":
                rng = np.random.default_rng(case["outside_seed"])
                lim = max(float(np.max(np.abs(phi[inm]))), math.pi) if unwrapped else math.pi
                phi[~inm] = rng.uniform(-lim, lim, size=int((~inm).sum()))
            elif unwrapped:
                # keep unclaimed outside values within the in-mask value range (a huge outside value
                # would only test float32 cancellation in the mean subtraction, not the property)
                phi[~inm] = np.clip(phi[~inm], phi[inm].min(), phi[inm].max())
        phi = phi.astype(dt)
        tphi, u = _as_layout(torch, phi, case.get("layout", "c"))
        lay.append("layout:phi=" + u)
        for c in lay:
            ctx.count(c)
        ctx.count("layout:any_noncontiguous" if any(not c.endswith("=c") for c in lay) else "layout:all_contiguous")
        if route == "poisson":
            with ctx.sut(case, "unwrap_phase_2d_torch(method='poisson')"):
                out = iu.unwrap_phase_2d_torch(
                    tphi, method="poisson", mask=tmask, wrap_around=True, regularization_lambda=case.get("reg")
                )
                out = out.detach().cpu().numpy()
            if out.shape != (H, W) or not np.all(np.isfinite(out)):
                raise core.Violation("poisson unwrapping returned shape %s / non-finite values" % (out.shape,), case)
            return
        what = "unwrap_phase_2d_torch(reliability-sorting, mask=%s, wrap_around=%s)" % ("None" if mask is None else "given", B["wrap"])
        with ctx.sut(case, what):
            out = iu.unwrap_phase_2d_torch(tphi, method="reliability-sorting", mask=tmask, wrap_around=B["wrap"])
            out = out.detach().cpu().numpy().astype(np.float64)
        # `given` below is the harness's own copy of the input, so the judgement does not depend on
        # whether quantem touched the tensor it was handed (the statement makes no claim about that)
        err = _judge(case, B, out, phi.astype(np.float64), what, unwrapped)
    else:
        m = np.ones((H, W), dtype=bool) if mask is None else mask
        if case["bf_extra"] == "all":
            bf = np.ones((H, W), dtype=bool)
        elif case["bf_extra"] == "disc0":
            # the bright-field disc itself (corner-centred), the mask being an overlap region inside it
            spec0 = dict(case["mask"], shift=None)
            bf = m | G.build_mask(H, W, spec0, True)
        elif case["bf_extra"] == "dilate":
            from scipy import ndimage

            bf = ndimage.binary_dilation(m)
        else:
            bf = m.copy()
        rng = np.random.default_rng(case["amp_seed"])
        amp = rng.uniform(0.5, 2.0, size=(H, W))
        data = (amp * np.exp(1j * B["truth"])).astype(np.complex64)
        given = np.angle(data).astype(np.float64)
        grid = np.where(bf, given, 0.0)
        # the function only unwraps when the embedded phases span more than pi (classification only)
        ctx.count("bf:unwrap_branch_taken" if grid.max() - grid.min() > math.pi else "bf:phases_span<=pi_returned_as_is")
        kw = {"wrap_around": B["wrap"]} if case["pass_wrap_kw"] else {}
        t_data, u1 = _as_layout(torch, data[bf], case.get("vec_layout", "c"))
        t_mbf, u2 = _as_layout(torch, m[bf], case.get("mask_bf_layout", "c"))
        t_bf, u3 = _as_layout(torch, bf, case.get("bf_mask_layout", "c"))
        lay = ["layout:complex_data_bf=" + u1, "layout:mask_bf=" + u2, "layout:bf_mask=" + u3]
        for c in lay:
            ctx.count(c)
        ctx.count("layout:any_noncontiguous" if any(not c.endswith("=c") for c in lay) else "layout:all_contiguous")
        what = "unwrap_bf_overlap_phase_torch(two_pass=%s%s)" % (case["two_pass"], ", wrap_around=%s" % B["wrap"] if kw else "")
        with ctx.sut(case, what):
            vec = dpu.unwrap_bf_overlap_phase_torch(
                t_data,
                t_mbf,
                t_bf,
                method="reliability-sorting",
                two_pass=case["two_pass"],
                **kw,
            )
            vec = vec.detach().cpu().numpy().astype(np.float64)
        if vec.shape != (int(bf.sum()),):
            raise core.Violation("%s: result shape %s, expected (%d,)" % (what, vec.shape, int(bf.sum())), case)
        out = np.zeros((H, W))
        out[bf] = vec
        err = _judge(case, B, out, given, what, False)
    key = "max_err_over_1_plus_k:" + (case["dtype"] if route == "direct" else "bf")
    ctx.extra[key] = max(ctx.extra.get(key, 0.0), err)


def search(ctx):
    # strata (each its own Hypothesis run, so no class can be starved by the generator's biases)
    body = lambda c: check(ctx, c)  # noqa: E731
    core.run_given(ctx, "grid", cases("direct", masked=False, inputs=("wrapped", "wrapped", "wrapped", "unwrapped")), body, ctx.n(200, 1200))
    core.run_given(ctx, "masked", cases("direct", masked=True), body, ctx.n(580, 3000))
    core.run_given(ctx, "fixedpoint", cases("direct", masked=True, inputs=("unwrapped",)), body, ctx.n(300, 1200))
    core.run_given(ctx, "bf", cases("bf"), body, ctx.n(270, 1200))
    core.run_given(ctx, "seam", seam_cases(), body, ctx.n(260, 1500))
    core.run_given(ctx, "seamwrap", seamwrap_cases(), body, ctx.n(300, 1500))
    core.run_given(ctx, "poisson", poisson_cases(), body, ctx.n(100, 400))

"""C02 — the ptychography forward pipeline reproduces independently simulated data.

One case = one tiny 4D-STEM experiment.  The harness

  1. asks the library (public preprocess on an all-ones dataset of the same geometry) for the object
     shape and the pixel position of the first scan point,
  2. draws a unit-amplitude periodic object of that shape and 1..3 orthogonal probe modes, and
     simulates the diffraction intensities with `vq/refs/c02_ptycho_sim.py` (numpy float64, written from
     the physics, shares no code with quantem) on the raster first_position + (i, j) * step / pixel size,
  3. hands the float32 intensities to the library as a Dataset4dstem, lets the library do its own
     preprocessing, installs the ground truth (ObjectPixelated.from_array, public probe setter) and
     evaluates exactly the statements of Ptychography.reconstruct's inner loop
     (dset.forward -> probe_model.forward -> obj_model.forward -> forward_operator ->
     detector_model.forward -> error_estimate),
  4. judges:  loss(truth) <= tol for the full scan and for every batch of a drawn partition;
     loss at a perturbed object / a perturbed probe equals the loss computed from its definition on the
     reference simulator's prediction (hence is > 100 * tol whenever the reference says the perturbation
     is visible, which the generator arranges), and exceeds 100 * loss(truth);
     the batch-fraction weighted sum of the batch losses equals the full-scan loss;
     for l2 losses the autograd gradient at the truth is <= 1e-3 of the gradient at the perturbed point.

Input classes generated on purpose (each is reached many times per quick run):
  * scan points EXACTLY half-way between two object pixels (scan step k + 0.5 px with a power-of-two
    pixel size, so that the library's float32 positions are the same numbers), with even and odd lower
    neighbours, and exactly integer positions.  Which of the two nearest pixels is the window origin is
    a convention; the reference simulates each consistent rule (half-to-even / up / down) in turn and the
    truth loss has to vanish for one of them (the finite probe window makes the rules differ by a few
    percent, so a library that rounds the window origin and the sub-pixel shift differently matches none).
  * probe modes installed through the public setter in arbitrary order (the incoherent sum is
    permutation invariant; the reference keeps them strongest-first).
  * large scans (separate stratum, 2 per quick worker): J = g0 x g1 just above 1000 (thorough: also just above
    2000) scan points, i.e. more than one of the library's 1000-position chunks in _set_patch_indices; 6..8 px
    ROI, one slice, one mode, steps that are multiples of 1/8 px; only the truth loss (full scan + batches).
  * "reconstruct_history" cases end with an interference step: an unrelated tiny reconstruction with drawn
    non-default object / probe / dataset constraints (through reconstruct(reset=True, constraints=...) and/or
    the models' public constraints setters) runs in the same process, then the SAME problem is built from
    scratch once more and its truth loss must meet the same bound (no state may leak between instances).
  * live-edit histories (1/3 of all cases): the Ptychography object is first built and preprocessed with stale
    physical parameters (another beam energy and/or slice thicknesses scaled by 0.5 / 2) that are then corrected
    on the live object through public setters (probe_model.probe_params, swapping in a probe model, the
    slice_thicknesses setter), optionally followed by a second preprocess(); the data always belong to the
    corrected parameters, so the truth loss owes the usual bound.
  * "reconstruct_history" cases use a validation split (preprocess(val_ratio, val_mode), both modes) half of
    the time; val_iter_losses entries owe the same truth bound as iter_losses.
  * "reconstruct_history" cases: after the direct evaluation, a fresh Ptychography object at the ground
    truth goes through 2-3 public reconstruct() calls (1-2 iterations each, independently drawn loss
    types, reset=False continuation or reset=True) with nothing to optimise (no optimiser in descan mode
    A, the dataset optimiser with lr = 0 in mode B), and every entry of iter_losses must meet the truth
    bound of the loss type of the call that produced it.

Every array is a pure function of the JSON case (see vq/gen/c02_build.py)."""

from __future__ import annotations

import math

import numpy as np
from hypothesis import strategies as st

from vq import core
from vq.gen import c02_build as B
from vq.refs import c02_ptycho_sim as sim

KEY_CLIP = "c02-edge-scan-positions-clipped"
KEY_ODD = "c02-odd-roi-no-shift"

LOSSES = ["l2_amplitude", "l1_amplitude", "l2_intensity", "l1_intensity"]

# ------------------------------------------------------------------------------------------------
# tolerances (see vq/metas/c02.py for the measurements they are based on)
# ------------------------------------------------------------------------------------------------
# The library works in float32/complex64.  With a0 = sqrt(mean pattern intensity) the rounding error of
# a predicted or preprocessed amplitude is k * eps32 * a0 / sqrt(Npix) per pixel with k of order 1..10
# (FFT chains of <= 4 slices).  Summed over J patterns and normalised by the mean intensity this gives
# the scalings below (x a factor for the float32 propagator phase, see truth_tol).  "measured" = largest
# truth loss / tolerance over ~6000 clean-tree cases (8 seeds): every constant leaves >= 20x head-room.
K_L2_AMP = 4e-11  # * J                       measured 0.008
K_L1_AMP = 2e-5  # * J * sqrt(Npix / Imean)   measured 0.05
K_L2_INT = 4e-12  # * J * Imean * peak/mean   measured 0.011
K_L1_INT = 1e-4  # * J                        measured 0.044
REL_REF = 2e-4  # library loss vs reference loss at a perturbed point (relative); measured <= 4.3e-6
GRAD_RATIO = 1e-3  # |grad L|(truth) <= GRAD_RATIO * |grad L|(perturbed), l2 losses; measured <= 3.5e-5
VISIBLE = 1e3  # the reference loss at a perturbed point must exceed VISIBLE * tol to be asserted on


def truth_tol(loss_type, J, npix, imean, peak_ratio=1.0, phi=0.0):
    """Upper bound for the full-scan-scaled loss at the ground truth.

    amplitude losses also carry the documented sqrt(I + 1e-9) regulariser: per pixel
    (sqrt(I + e) - sqrt(I))^2 <= e and sqrt(I + e) - sqrt(I) <= sqrt(e), e = 1e-9 (exact bounds, x2).

    phi = largest phase (rad) carried by the Fresnel propagators, summed over the slice gaps.  The library
    evaluates that phase in float32, so every propagated amplitude is off by up to ~2 * eps32 * phi (relative):
    the round-off terms grow by f = 1 + phi / 10 (l1) or f^2 (l2).  Measured: phi = 72 rad gives an
    l2_amplitude truth loss of 4.7e-12 * J (0.12 of the phi-free tolerance, the largest ratio seen)."""
    e = sim.SQRT_EPS
    f = 1.0 + phi / 10.0
    if loss_type == "l2_amplitude":
        return J * (K_L2_AMP * f * f + 2.0 * npix * e / imean)
    if loss_type == "l1_amplitude":
        return J * (K_L1_AMP * f * math.sqrt(npix / imean) + 2.0 * npix * math.sqrt(e) / imean)
    if loss_type == "l2_intensity":
        return J * K_L2_INT * f * f * imean * peak_ratio
    if loss_type == "l1_intensity":
        return J * K_L1_INT * f
    raise ValueError(loss_type)


def propagator_phase(case, sampling):
    """Sum over the slice gaps of the largest Fresnel phase pi * lambda * dz * |k|^2_max (rad)."""
    if int(case["S"]) < 2:
        return 0.0
    lam = sim.wavelength_angstrom(float(case["energy"]))
    k2 = float(np.sum((0.5 / np.asarray(sampling, dtype=np.float64)) ** 2))
    return float(sum(math.pi * lam * float(dz) * k2 for dz in case["thick"]))


STATS = {}


def _open(ctx, key):
    """Known finding registered as open (known_findings.json), or assumed open through the environment
    (development hook: VQ_ASSUME_OPEN=key1,key2)."""
    import os

    return ctx.is_open(key) or key in os.environ.get("VQ_ASSUME_OPEN", "").split(",")


WORST = {}  # key -> case that produced the maximum (development aid)


def _stat(key, value, case=None):
    if value > STATS.get(key, -1.0):
        STATS[key] = float(value)
        WORST[key] = case


def _fail(case, msg):
    raise core.Violation(msg, case)


# ------------------------------------------------------------------------------------------------
# generator
# ------------------------------------------------------------------------------------------------
SEEDS = st.integers(0, 2**31 - 1)


def _fl(lo, hi, nd=4):
    return st.floats(lo, hi, allow_nan=False, allow_infinity=False).map(lambda v: round(v, nd))


def _roi_side():
    return st.sampled_from([6, 7, 8, 9, 10, 11, 12, 13, 14, 15, 16, 6, 7, 8, 9, 12, 16])


def _safe_step(a, g):
    """Move a *generic* scan step (object pixels) away from values for which some raster position k * a,
    k < g, falls within 0.01 px of a half-integer: float32 position arithmetic inside the library would
    decide on which side of the tie such a point lands (exact ties are generated on purpose by _axis)."""
    a = round(float(a), 4)
    for _ in range(200):
        if all(abs((k * a) % 1.0 - 0.5) > 0.01 for k in range(1, g)):
            return a
        a = round(a + 0.0113, 4)
    return a


@st.composite
def _axis(draw, g):
    """(scan step in object pixels, object pixel size in Angstrom, kind) for one scan axis.

    generic  step 1.05-6 px with 4 decimals, pixel size 0.15-0.8 A: fractional positions, no ties
    half     step k + 0.5 px and a power-of-two pixel size: step_A, step_A * k and their float32 images
             are exact, so every other scan point sits EXACTLY half-way between two object pixels, with
             even and odd lower neighbours alternating along the axis (1.5: 1.5, 4.5, 7.5 ...)
    int      integer step and a power-of-two pixel size: every position is exactly an integer"""
    kind = draw(st.sampled_from(["generic", "generic", "generic", "half", "half", "int"]))
    if kind == "generic":
        return _safe_step(draw(_fl(1.05, 6.0)), g), draw(_fl(0.15, 0.8)), kind
    samp = draw(st.sampled_from([0.25, 0.5]))
    if kind == "half":
        return draw(st.sampled_from([1.5, 2.5, 3.5, 4.5, 5.5])), samp, kind
    return draw(st.sampled_from([2.0, 3.0, 4.0, 5.0])), samp, kind


def _subset(draw, options, always=()):
    out = {k: v for k, v in always}
    for k, v in options:
        if draw(st.booleans()):
            out[k] = v
    return out


@st.composite
def _interference(draw):
    """An unrelated tiny reconstruction that runs between two evaluations of the same problem: drawn
    NON-default constraints for the object / probe / dataset models, given through reconstruct(reset=True,
    constraints=...) and/or the models' public `constraints` setters."""
    obj = _subset(
        draw,
        [
            ("positivity", False),
            ("fix_potential_baseline", True),
            ("apply_fov_mask", True),
            ("gaussian_sigma", 1.0),
            ("tv_weight_xy", 0.1),
            ("tv_weight_z", 0.1),
            ("q_lowpass", 0.6),
        ],
        always=[("identical_slices", True)] if draw(st.integers(0, 3)) else [],
    )
    probe = _subset(draw, [("orthogonalize_probe", False), ("center_probe", True), ("tv_weight", 0.1)])
    dset = _subset(draw, [("descan_shifts_constant", True), ("center_scan_positions", True), ("descan_tv_weight", 0.1)])
    return {
        "S": draw(st.sampled_from([1, 2, 3])),
        "obj_type": draw(st.sampled_from(["complex", "pure_phase", "potential"])),
        "constraints": {"object": obj, "probe": probe, "dataset": dset},
        "via": draw(st.sampled_from(["reconstruct", "setters", "both"])),
        "optimize": draw(st.sampled_from([[], ["object"], ["object", "probe"], ["object", "probe", "dataset"]])),
        "second_reset": draw(st.booleans()),
    }


@st.composite
def large_cases(draw, base=1000):
    """Large scans: J just above a multiple of the library's 1000-position chunk size, tiny ROI, one slice,
    one mode, scan steps that are multiples of 1/8 px with a power-of-two pixel size (float32-exact positions;
    exact half-pixel ties occur and are handled like everywhere else).  Only the truth loss is evaluated."""
    g0 = draw(st.integers(21, 48))
    target = base + draw(st.integers(1, 40))
    g1 = -(-target // g0)
    if draw(st.booleans()):
        g0, g1 = g1, g0
    J = g0 * g1
    R, C = draw(st.sampled_from([6, 7, 8])), draw(st.sampled_from([6, 7, 8]))
    steps = [1.125, 1.25, 1.375, 1.5, 1.625, 1.75, 1.875, 2.0]
    return {
        "large": True,
        "roi": [R, C],
        "gpts": [g0, g1],
        "sampling": [draw(st.sampled_from([0.25, 0.5])), draw(st.sampled_from([0.25, 0.5]))],
        "step_px": [draw(st.sampled_from(steps)), draw(st.sampled_from(steps))],
        "step_kind": ["eighths", "eighths"],
        "energy": draw(st.sampled_from([80e3, 200e3])),
        "S": 1,
        "thick": [],
        "M": 1,
        "mode_order": [0],
        "obj_type": draw(st.sampled_from(["complex", "pure_phase", "potential"])),
        "obj": {"strength": draw(_fl(0.8, 3.1, 3)), "smooth": draw(st.booleans())},
        "probe": {
            "radius": draw(_fl(1.6, 2.5, 3)),
            "soft": draw(_fl(0.3, 1.5, 3)),
            "defocus": draw(_fl(-6.0, 6.0, 3)),
            "astig": draw(_fl(-2.0, 2.0, 3)),
            "astig_angle": draw(_fl(0.0, 3.1416, 3)),
            "dose": draw(st.sampled_from([1e2, 1e3, 1e4, 1e5])) * draw(_fl(1.0, 9.9, 2)),
            "weights": [1.0, 0.3, 0.1],
        },
        "pad": [draw(st.integers(2, 6)), draw(st.integers(2, 6))],
        "descan": draw(st.sampled_from(["A", "B_constant"])),
        "loss": draw(st.sampled_from(LOSSES)),
        "batch": draw(st.sampled_from([J, -(-J // 2), -(-J // 3)])),
        "pert": {"obj_sigma": 0.3, "probe_defocus": 2.0},
        "seed": draw(SEEDS),
    }


@st.composite
def cases(draw, even_only=False):
    R, C = draw(_roi_side()), draw(_roi_side())
    if draw(st.integers(0, 5)) == 0:
        C = R  # make sure square ROIs stay represented
    if even_only:
        R += R % 2
        C += C % 2
    g0, g1 = draw(st.integers(2, 6)), draw(st.integers(2, 6))
    J = g0 * g1
    S = draw(st.sampled_from([1, 1, 2, 2, 3, 4]))
    M = draw(st.sampled_from([1, 1, 2, 2, 3]))
    rmax = min(R, C) / 2.0 - 0.5
    batch = draw(st.one_of(st.integers(1, J), st.sampled_from([1, 2, J, max(1, J // 2), max(1, J - 1)])))
    recon = None
    if draw(st.integers(0, 3)) == 0:
        # history kind: 2-3 public reconstruct() calls at the ground truth with independently drawn losses
        ncalls = draw(st.integers(2, 3))
        recon = {
            "calls": [
                {"loss": draw(st.sampled_from(LOSSES)), "reset": draw(st.sampled_from([False, False, True])), "iters": draw(st.integers(1, 2))}
                for _ in range(ncalls)
            ],
            "interference": draw(_interference()),
        }
    max_batches = 4 if recon else 12  # bounds the run time, keeps ragged partitions
    if -(-J // batch) > max_batches:
        batch = -(-J // max_batches)
    a0, s0, k0 = draw(_axis(g0))
    a1, s1, k1 = draw(_axis(g1))
    case = {
        "roi": [R, C],
        "gpts": [g0, g1],
        "sampling": [s0, s1],
        "step_px": [a0, a1],
        "step_kind": [k0, k1],
        "energy": draw(st.sampled_from([60e3, 80e3, 200e3, 300e3])),
        "S": S,
        "thick": [draw(_fl(2.0, 40.0, 3)) for _ in range(S - 1)],
        "M": M,
        "mode_order": list(draw(st.permutations(list(range(M))))),
        "obj_type": draw(st.sampled_from(["complex", "pure_phase", "potential"])),
        "obj": {"strength": draw(_fl(0.8, 3.1, 3)), "smooth": draw(st.booleans())},
        "probe": {
            "radius": draw(_fl(1.6, max(1.6, rmax), 3)),
            "soft": draw(_fl(0.3, 1.5, 3)),
            "defocus": draw(_fl(-6.0, 6.0, 3)),
            "astig": draw(_fl(-2.0, 2.0, 3)),
            "astig_angle": draw(_fl(0.0, 3.1416, 3)),
            "dose": draw(st.sampled_from([1e2, 1e3, 1e4, 1e5, 1e6])) * draw(_fl(1.0, 9.9, 2)),
            "weights": [1.0, draw(_fl(0.15, 0.6, 3)), draw(_fl(0.02, 0.12, 3))],
        },
        "pad": [draw(st.integers(0, 6)), draw(st.integers(0, 6))],
        "descan": draw(st.sampled_from(["A", "A", "B_constant", "B_plane"])),
        "loss": draw(st.sampled_from(LOSSES)),
        "batch": batch,
        "pert": {
            "obj_sigma": draw(_fl(0.15, 0.6, 3)),
            "probe_defocus": draw(_fl(1.5, 4.0, 3)) * draw(st.sampled_from([-1.0, 1.0])),
        },
        "seed": draw(SEEDS),
    }
    if draw(st.integers(0, 2)) == 0:
        # live-edit history: built with stale physical parameters, corrected through public setters
        E = case["energy"]
        stale_E = draw(st.sampled_from([None] + [e for e in (60e3, 80e3, 120e3, 200e3, 300e3) if e != E]))
        scale = draw(st.sampled_from([None, 0.5, 2.0])) if S > 1 else None
        if stale_E is None and scale is None:
            stale_E = 120e3
        case["stale"] = {
            "energy": stale_E,
            "thick_scale": scale,
            "via": draw(st.sampled_from(["probe_params", "swap_probe_model"])),
            "re_preprocess": draw(st.booleans()),
        }
    if recon:
        if draw(st.booleans()):
            recon["val"] = {"ratio": draw(st.sampled_from([0.2, 0.25, 0.34, 0.5])), "mode": draw(st.sampled_from(["grid", "random"]))}
        case["recon"] = recon
    return case


# ------------------------------------------------------------------------------------------------
# the check
# ------------------------------------------------------------------------------------------------
def _partition(case, J):
    """Batches of size case['batch'] over a seeded permutation (last one possibly smaller)."""
    rng = np.random.default_rng([int(case["seed"]), 404])
    order = rng.permutation(J)
    b = max(1, min(int(case["batch"]), J))
    return [order[i : i + b] for i in range(0, J, b)]


def _grads(pt, loss):
    torch = B.Q().torch
    params = [pt.obj_model.params] + list(pt.probe_model.params)
    gs = torch.autograd.grad(loss, params, allow_unused=True)
    out = []
    for g in gs:
        out.append(0.0 if g is None else float(torch.sqrt(torch.sum(g.real.double() ** 2 + (g.imag.double() ** 2 if g.is_complex() else 0.0)))))
    return out[0], math.sqrt(sum(v * v for v in out[1:]))


def _eval(ctx, case, pt, batches, lt, J, want_grad):
    """Library losses: full scan (+ gradient norms) and per batch."""
    torch = B.Q().torch
    full = np.arange(J)
    with ctx.sut(case, "forward chain (dset -> probe -> object -> forward_operator -> detector -> error_estimate)"):
        if want_grad:
            L, pred = B.forward_loss(pt, full, lt)
            g_obj, g_probe = _grads(pt, L)
        else:
            with torch.no_grad():
                L, pred = B.forward_loss(pt, full, lt)
            g_obj = g_probe = None
        Lb = []
        if len(batches) > 1:
            with torch.no_grad():
                for b in batches:
                    Lb.append(float(B.forward_loss(pt, b, lt)[0]))
        else:
            Lb = [float(L)]
    pred = B.to_np(pred).astype(np.float64)
    if pred.shape != (J, case["roi"][0], case["roi"][1]):
        _fail(case, "predicted intensities have shape %s" % (pred.shape,))
    L = float(L)
    if not np.isfinite(L) or not np.all(np.isfinite(Lb)):
        _fail(case, "non-finite loss")
    return L, Lb, g_obj, g_probe, pred


_GC = {"n": 0}


def _gc_fast():
    """Ptychography.reconstruct ends with two gc.collect() calls, which cost ~0.15 s each on the large heap
    of a worker process.  Freezing the objects that exist now makes those collections look at new objects
    only (~0.01 s); every 40th call the heap is thawed and collected for real so that nothing leaks.
    Pure performance measure on the harness side, no influence on results."""
    import gc

    if _GC["n"] % 40 == 0:
        gc.unfreeze()
        gc.collect()
    gc.freeze()
    _GC["n"] += 1


def _mode_order(case):
    M = int(case["M"])
    order = [int(v) for v in case.get("mode_order", range(M))]
    if sorted(order) != list(range(M)):
        raise core.HarnessError("mode_order is not a permutation")
    return order


def _recon_kwargs(case):
    """Arguments that make reconstruct() evaluate the loss AT the installed models: no optimiser at all
    for descan mode A; for mode B the dataset optimiser the mode needs, with learning rate 0."""
    if case["descan"] == "A":
        return {"constraints": {}}
    return {
        "optimizer_params": {"dataset": {"type": "adam", "lr": 0.0}},
        "constraints": {"dataset": {"descan_shifts_constant": True}},
    }


def _check_recon(ctx, case, pt, obj, probe_installed, tol_of, where):
    """2-3 public reconstruct() calls at the ground truth; every reported iteration loss must meet the
    truth bound of the loss type of the call that produced it."""
    calls = case["recon"]["calls"]
    obj0 = B.to_np(pt.obj_model.params).copy()
    expected = 0
    nval = 0
    hist = []
    for ci, call in enumerate(calls):
        lt = call["loss"]
        iters = int(call["iters"])
        reset = bool(call["reset"])
        _gc_fast()
        with ctx.sut(case, "reconstruct(num_iters=%d, reset=%s, loss_type=%r) [call %d]" % (iters, reset, lt, ci + 1)):
            pt.reconstruct(
                num_iters=iters, reset=reset, batch_size=int(case["batch"]), loss_type=lt, autograd=True, **_recon_kwargs(case)
            )
            losses = np.asarray(pt.iter_losses, dtype=np.float64)
        start = 0 if reset else expected
        expected = start + iters
        hist.append("%s%s x%d" % (lt, " (reset)" if reset else "", iters))
        if len(losses) != expected:
            _fail(case, "after calls [%s] iter_losses has %d entries, expected %d" % ("; ".join(hist), len(losses), expected))
        new = losses[start:]
        tol = tol_of(lt)
        if new.size:
            _stat("reconstruct() iteration loss / tol [%s]" % lt, float(np.max(new)) / tol, case)
        if not np.all(np.isfinite(new)) or np.any(new > tol):
            _fail(
                case,
                "reconstruct() at the ground truth reports %s iteration losses %s (tolerance %.3e) after the call sequence [%s] (%s)"
                % (lt, ["%.3e" % v for v in new], tol, "; ".join(hist), where),
            )
        # held-out positions (validation split): the same data-fidelity loss, the same bound
        with ctx.sut(case, "val_iter_losses"):
            vl = np.asarray(pt.val_iter_losses, dtype=np.float64)
        vstart = 0 if reset else nval
        newv = vl[vstart:]
        nval = len(vl)
        if newv.size:
            ctx.count("validation_losses_judged", int(newv.size))
            _stat("reconstruct() validation loss / tol [%s]" % lt, float(np.max(newv)) / tol, case)
            if not np.all(np.isfinite(newv)) or np.any(newv > tol):
                _fail(
                    case,
                    "reconstruct() at the ground truth reports %s validation (held-out positions) losses %s (tolerance %.3e; "
                    "training losses %s) with val_ratio=%s, val_mode=%s after the call sequence [%s] (%s)"
                    % (lt, ["%.3e" % v for v in newv], tol, ["%.3e" % v for v in new], pt.val_ratio, pt.val_mode, "; ".join(hist), where),
                )
    # the bound is only owed if the models stayed at the truth: make sure the harness did not move them
    obj1 = B.to_np(pt.obj_model.params)
    prb1 = B.to_np(pt.probe_model.params[-1])
    if obj1.shape != obj0.shape or np.abs(obj1 - obj0).max() > 1e-6 * max(1.0, np.abs(obj0).max()):
        raise core.HarnessError("object parameters moved during reconstruct() without an object optimiser")
    if np.abs(prb1 - probe_installed).max() > 1e-5 * np.abs(probe_installed).max():
        raise core.HarnessError("probe parameters moved during reconstruct() without a probe optimiser")
    if pt.obj_model.has_optimizer() or pt.probe_model.has_optimizer():
        raise core.HarnessError("unexpected object/probe optimiser")


def _interfere(ctx, case, spec):
    """Unrelated activity: a tiny random-data reconstruction with drawn non-default constraints.  Nothing is
    judged here (an exception inside it is counted, not reported: the activity itself is outside the claim)."""
    seed = int(case["seed"]) % (2**31)
    rng = np.random.default_rng([seed, 505])
    S = int(spec["S"])
    tiny = {
        "roi": [6, 6], "gpts": [3, 3], "sampling": [0.4, 0.4], "step_px": [2.3, 2.3], "energy": 80e3, "S": S,
        "thick": [10.0] * (S - 1), "M": 2, "obj_type": spec["obj_type"], "pad": [4, 4], "descan": "B_constant", "seed": seed,
    }
    cons = {k: dict(v) for k, v in spec["constraints"].items() if v}
    _gc_fast()
    try:
        pdset = B.make_dataset(tiny, rng.random((9, 6, 6)) + 0.1)
        pt = B.make_ptycho(tiny, pdset, None)
        opt = {k: {"type": "adam", "lr": 1e-3} for k in spec["optimize"]}
        kw = {"optimizer_params": opt} if opt else {}
        via = spec["via"]
        pt.reconstruct(num_iters=1, reset=True, constraints=cons if via in ("reconstruct", "both") else {}, batch_size=5, **kw)
        if via in ("setters", "both"):
            for key, model in (("object", pt.obj_model), ("probe", pt.probe_model), ("dataset", pt.dset)):
                if cons.get(key):
                    model.constraints = dict(cons[key])
            pt.reconstruct(num_iters=1, reset=False, batch_size=9)
        if spec["second_reset"]:
            pt.reconstruct(num_iters=1, reset=True, constraints=cons, batch_size=9)
        ctx.count("interference_ran")
    except core.HarnessError:
        raise
    except Exception as e:  # noqa: BLE001 - unrelated activity, see docstring
        ctx.count("interference_raised:%s" % type(e).__name__)


def check(ctx, case):
    R, C = case["roi"]
    g0, g1 = case["gpts"]
    J = g0 * g1
    S, M = int(case["S"]), int(case["M"])
    lt = case["loss"]
    npix = R * C
    odd = bool(R % 2 or C % 2)
    order = _mode_order(case)
    recon = case.get("recon")

    # -- 1. geometry from the library --------------------------------------------------------------
    with ctx.sut(case, "preprocessing an all-ones dataset (geometry query)"):
        geo = B.ask_geometry(case)
    shape2d = geo["obj_shape"][-2:]
    pos = geo["positions"][0][None, :] + B.raster_offsets_px(case)
    frac = pos - np.rint(pos)
    fractional = bool(np.any(np.abs(frac) > 1e-3))
    padded = bool(min(geo["pad"]) > 0)
    outside = bool(np.any(pos > np.array(shape2d)[None] - 1.0 + 1e-6) or np.any(pos < -1e-6))
    wraps = bool(
        np.any(np.rint(pos) - np.array([R // 2, C // 2])[None] < 0)
        or np.any(np.rint(pos) + np.array([(R + 1) // 2, (C + 1) // 2])[None] > np.array(shape2d)[None])
    )
    # positions half-way between two pixels.  exact: the library's own (float32) position is the very same
    # number k + 0.5; near: within 2e-3 but not exact -- float32 arithmetic decides the side, not judged
    near = np.abs(np.abs(frac) - 0.5) < 2e-3
    exact = (np.abs(frac) == 0.5) & (geo["positions"] == pos)
    ties = near & exact
    has_tie = bool(np.any(ties))

    classes = [
        "kind:" + ("large_scan" if case.get("large") else ("reconstruct_history" if recon else "forward")),
        "S%d" % S,
        "M%d" % M,
        "type:" + case["obj_type"],
        "loss:" + lt,
        "descan:" + case["descan"],
        "roi:" + ("odd" if odd else "even"),
        "roi:" + ("square" if R == C else "nonsquare"),
        "batches:%s" % ("1" if case["batch"] >= J else ("ragged" if J % case["batch"] else "equal")),
        "pad:" + ("requested>0" if min(case["pad"]) > 0 else "requested_0_on_an_axis"),
    ]
    if J > 1000:
        classes.append("scan_points:%d001+" % ((J - 1) // 1000))
    stale = case.get("stale")
    if stale:
        if stale.get("energy"):
            classes.append("live_edit:energy_via_" + stale["via"] + ("_multislice" if S >= 2 else "_single_slice"))
        if stale.get("thick_scale") and S >= 2:
            classes.append("live_edit:slice_thicknesses")
        if stale.get("re_preprocess"):
            classes.append("live_edit:followed_by_second_preprocess")
    if recon and recon.get("val"):
        classes.append("history:validation_split_" + recon["val"]["mode"])
        if any("intensity" in c["loss"] for c in recon["calls"]):
            classes.append("history:validation_split_with_intensity_loss")
    if M >= 2:
        classes.append("modes:" + ("installed_strongest_first" if order == sorted(order) else "installed_out_of_order"))
    if has_tie:
        lower = np.floor(pos[ties]).astype(np.int64)
        if np.any(lower % 2 == 0):
            classes.append("tie:half_pixel_position_even_lower_neighbour")
        if np.any(lower % 2 == 1):
            classes.append("tie:half_pixel_position_odd_lower_neighbour")
    if np.any(np.all(frac == 0.0, axis=0)):
        classes.append("positions:exactly_integer_on_an_axis")
    if wraps:
        classes.append("patch_wraps_around_object_edge")
    if outside:
        classes.append("raster_reaches_beyond_last_object_pixel")
    if not case.get("clip", True):
        classes.append("clip_scan_positions_off")
    if recon:
        fam = ["amplitude" in c["loss"] for c in recon["calls"]]
        for i in range(1, len(fam)):
            if fam[i] != fam[i - 1]:
                classes.append("history:loss_family_changes_" + ("after_reset" if recon["calls"][i]["reset"] else "on_continuation"))
    nontrivial = bool(S >= 2 or M >= 2 or R != C or (fractional and padded) or recon or J > 1000)

    if np.any(near & ~exact):
        ctx.record(case, False, classes + ["skipped:near_half_pixel_position"])
        return
    if outside and case.get("clip", True) and _open(ctx, KEY_CLIP):
        ctx.exclude(KEY_CLIP)
        ctx.record(case, False, classes + ["skipped:" + KEY_CLIP])
        return
    if odd and case["descan"] == "A" and _open(ctx, KEY_ODD):
        ctx.exclude(KEY_ODD)
        ctx.record(case, False, classes + ["skipped:" + KEY_ODD])
        return
    ctx.record(case, nontrivial, classes)

    # -- 2. ground truth ------------------------------------------------------------------------------
    oshape = (S,) + tuple(shape2d)
    obj = B.truth_object(case, oshape)
    probe = B.truth_probe(case)  # strongest mode first; the reference does not care about the order
    probe_inst = probe[order]  # ... the library gets the modes in the drawn order
    samp = geo["obj_sampling"]
    thick = case["thick"]
    E = float(case["energy"])
    batches = _partition(case, J)
    want_grad = lt.startswith("l2")
    phi = propagator_phase(case, samp)
    fphi = 1.0 + phi / 10.0  # float32 evaluation of the propagator phase, see truth_tol
    _stat("propagator phase (rad)", phi)
    full = np.arange(J)
    where = "S=%d M=%d %s roi=%s descan=%s" % (S, M, case["obj_type"], case["roi"], case["descan"])
    if M >= 2:
        where += " mode order %s" % order
    if has_tie:
        where += "; scan points exactly half-way between object pixels: %s" % np.unique(pos[ties]).tolist()[:6]
    if stale:
        where += "; live edit %s" % {k: v for k, v in stale.items() if v}
    descan_on = case["descan"] != "A"

    # -- 3. reference data -> library -> loss at the truth.  A position exactly half-way between two pixels has
    # two nearest pixels; either may serve as the window origin as long as the probe is shifted consistently, but
    # the finite probe window makes the two models differ at the window edge.  The library is free to use any
    # consistent rule: the data are simulated under each of the three rules in turn and the truth loss must
    # vanish for one of them (cases without ties have a single model).
    rules = sim.TIE_RULES if has_tie else ("even",)
    first_failure = None
    chosen = None
    for rule in rules:
        I_true = sim.simulate(obj, case["obj_type"], probe, pos, samp, E, thick, tie=rule)
        imean = float(I_true.sum(axis=(1, 2)).mean())
        peak_ratio = float(I_true.max() * npix / imean)  # 1 for a flat pattern; l2_intensity rounding scales with it
        meas = I_true.astype(np.float32).astype(np.float64)  # what the library is given
        with ctx.sut(case, "dataset preprocessing / Ptychography.from_models / preprocess"):
            pdset = B.make_dataset(case, I_true)
            pt = B.make_ptycho(case, pdset, obj)
            B.configure(case, pt, lt)
            B.install_probe(pt, probe_inst)
        if tuple(int(v) for v in pt.obj_shape_full) != oshape:
            raise core.HarnessError("object shape changed between the geometry query and the real build")
        if bool(pt.dset.learn_descan and pt.dset.has_optimizer()) != descan_on:
            raise core.HarnessError("descan mode was not taken")
        tol = truth_tol(lt, J, npix, imean, peak_ratio, phi)
        L0, L0b, g0_obj, g0_probe, pred0 = _eval(ctx, case, pt, batches, lt, J, want_grad)
        if L0 <= tol:
            chosen = rule
            break
        if first_failure is None:
            rel = float(np.abs(pred0 - meas).max() / meas.max())
            w = where
            if outside:
                w += "; the raster reaches beyond the last object pixel (object %s, largest position %s): the default "\
                    "clip_scan_positions constraint moves those scan points [%s]" % (list(shape2d), np.round(pos.max(axis=0), 3).tolist(), KEY_CLIP)
            first_failure = (
                "%s at the ground truth is %.3e (tolerance %.3e; %s); library prediction differs from the reference "
                "data by %.2e of the peak intensity" % (lt, L0, tol, w, rel)
            )
            if J > 1000:
                # which scan points are off tells the story for chunked patch-index construction
                bad = np.nonzero(np.abs(pred0 - meas).max(axis=(1, 2)) > 1e-3 * meas.max())[0]
                if bad.size:
                    first_failure += "; %d of %d patterns are mispredicted, scan indices %d..%d" % (bad.size, J, bad.min(), bad.max())
    if chosen is None:
        if has_tie:
            first_failure += " [no consistent tie rule (%s) reproduces the data either]" % "/".join(rules)
        _fail(case, first_failure)
    if has_tie:
        ctx.count("tie_rule_matching_library:" + chosen)
    lib_imean = float(pt.dset.mean_diffraction_intensity)
    _stat("truth loss / tol [%s]" % lt, L0 / tol, case)
    for b, Lb in zip(batches, L0b):
        if Lb > tol:
            _fail(case, "%s of batch %s at the ground truth is %.3e (tolerance %.3e; %s)" % (lt, b.tolist(), Lb, tol, where))
    _stat("|lib mean intensity - ref| / ref", abs(lib_imean - imean) / imean)

    if case.get("large"):
        return  # large scans: truth loss only (full scan and batches)

    # -- 4. history kind: the same bound through the public reconstruct() --------------------------------
    if recon:
        with ctx.sut(case, "dataset preprocessing / Ptychography.from_models / preprocess"):
            pdset2 = B.make_dataset(case, I_true)
            pt2 = B.make_ptycho(case, pdset2, obj, val=recon.get("val"))
            pt2.probe_model.initial_probe = np.asarray(probe_inst, dtype=np.complex128)  # reset=True returns to it
            B.install_probe(pt2, probe_inst)
        _check_recon(ctx, case, pt2, obj, probe_inst, lambda t: truth_tol(t, J, npix, imean, peak_ratio, phi), where)
        # -- 4b. the same problem, built from scratch after unrelated activity in this process, must behave as before
        if recon.get("interference"):
            _interfere(ctx, case, recon["interference"])
            with ctx.sut(case, "dataset preprocessing / Ptychography.from_models / preprocess (second build)"):
                pdset3 = B.make_dataset(case, I_true)
                pt3 = B.make_ptycho(case, pdset3, obj)
                B.configure(case, pt3, lt)
                B.install_probe(pt3, probe_inst)
            L3, _b, _g1, _g2, _pr = _eval(ctx, case, pt3, [full], lt, J, False)
            _stat("truth loss after interference / tol [%s]" % lt, L3 / tol, case)
            if L3 > tol:
                _fail(
                    case,
                    "%s at the ground truth is %.3e (tolerance %.3e) for a problem built from scratch after an unrelated "
                    "reconstruction with constraints %s (given via %s) ran in the same process; the identical build gave %.3e "
                    "before (%s)" % (lt, L3, tol, recon["interference"]["constraints"], recon["interference"]["via"], L0, where),
                )
        return

    # -- 5. forward kind: perturbed object, perturbed probe --------------------------------------------
    obj_p = B.perturbed_object(case, obj, float(case["pert"]["obj_sigma"]))
    probe_p = B.truth_probe(case, extra_defocus=float(case["pert"]["probe_defocus"]))
    I_po = sim.simulate(obj_p, case["obj_type"], probe, pos, samp, E, thick, tie=chosen)
    I_pp = sim.simulate(obj, case["obj_type"], probe_p, pos, samp, E, thick, tie=chosen)
    for name, I_ref, install, restore in (
        ("object", I_po, lambda: B.install_object(pt, obj_p), lambda: B.install_object(pt, obj)),
        ("probe", I_pp, lambda: B.install_probe(pt, probe_p[order]), lambda: B.install_probe(pt, probe_inst)),
    ):
        with ctx.sut(case, "installing the perturbed %s" % name):
            install()
        bt = batches if name == "object" else [full]
        L1, L1b, g1_obj, g1_probe, _pred1 = _eval(ctx, case, pt, bt, lt, J, want_grad)
        with ctx.sut(case, "restoring the ground-truth %s" % name):
            restore()
        Lref = sim.loss(I_ref, meas, full, lt, J, imean)
        visible = Lref > VISIBLE * tol
        if not visible:
            ctx.count("perturbed_%s_not_visible_in_reference" % name)
            continue
        _stat("|lib - ref| / ref / (1 + phi/10) at perturbed %s [%s]" % (name, lt), abs(L1 - Lref) / Lref / fphi)
        _stat("truth loss / perturbed-%s loss" % name, L0 / L1 if L1 > 0 else float("inf"))
        if abs(L1 - Lref) > REL_REF * fphi * Lref + tol:
            _fail(
                case,
                "%s at the perturbed %s is %.6e, its definition evaluated on the reference simulation gives %.6e (%s)"
                % (lt, name, L1, Lref, where),
            )
        if not (L1 > 100.0 * L0 and L1 > L0 + 100.0 * tol):
            _fail(case, "%s at the perturbed %s (%.3e) is not larger than at the ground truth (%.3e)" % (lt, name, L1, L0))
        if len(bt) > 1:
            wsum = float(sum(len(b) / J * v for b, v in zip(bt, L1b)))
            _stat("|weighted batch sum - full| / full", abs(wsum - L1) / L1)
            if abs(wsum - L1) > 1e-4 * L1 + tol:
                _fail(case, "batch-fraction weighted sum of the batch losses %.6e != full-scan loss %.6e" % (wsum, L1))
            for b, v in zip(bt, L1b):
                vref = sim.loss(I_ref, meas, b, lt, J, imean)
                if abs(v - vref) > REL_REF * fphi * max(vref, Lref / len(bt)) + tol:
                    _fail(
                        case,
                        "%s of batch %s (size %d of %d) at the perturbed object is %.6e, definition on the reference "
                        "simulation gives %.6e" % (lt, b.tolist(), len(b), J, v, vref),
                    )
        if want_grad:
            g0v, g1v = (g0_obj, g1_obj) if name == "object" else (g0_probe, g1_probe)
            if not (g1v > 0 and np.isfinite(g1v) and np.isfinite(g0v)):
                _fail(case, "gradient w.r.t. the %s at the perturbed %s is %r" % (name, name, g1v))
            _stat("|grad %s|(truth) / |grad|(perturbed) / (1 + phi/10) [%s]" % (name, lt), g0v / g1v / fphi)
            if g0v > GRAD_RATIO * fphi * g1v:
                _fail(
                    case,
                    "ground truth is not a stationary point of %s: |dL/d%s| = %.3e at the truth, %.3e at the perturbed %s (%s)"
                    % (lt, name, g0v, g1v, name, where),
                )


def search(ctx):
    # quick: 4 workers x (280 cases + 2 large scans) (~45-100 s wall depending on the load of the shared machine,
    # 0.1-0.3 s per case, 0.5-1 s per large scan);
    # thorough: 16 workers x 3000.  No shrink phase: a failing case is already a small JSON description.
    odd_open = _open(ctx, KEY_ODD)
    n = ctx.n(280, 3000)
    core.run_given(ctx, "c02", cases(even_only=False), lambda c: check(ctx, c), n, shrink=False)
    # large-scan stratum: J just above 1000 (quick: 2 per worker; thorough: 12 per worker + 6 just above 2000)
    core.run_given(ctx, "c02-large", large_cases(1000), lambda c: check(ctx, c), 2 if ctx.tier == "quick" else 12, shrink=False)
    if ctx.thorough:
        core.run_given(ctx, "c02-large2", large_cases(2000), lambda c: check(ctx, c), 6, shrink=False)
    if odd_open:
        ctx.extra["note"] = "odd ROI with no_shift skipped (open finding %s)" % KEY_ODD
    for k, v in STATS.items():
        ctx.extra["max " + k] = float("%.4g" % v)

"""C02 — the ptychography forward pipeline reproduces independently simulated data.

One case = one tiny 4D-STEM experiment.  The harness

  1. asks the library (public preprocess on an all-ones dataset of the same geometry) for the object
     shape and the pixel position of the first scan point,
  2. draws a unit-amplitude periodic object of that shape and 1..3 orthogonal probe modes, and
     simulates the diffraction intensities with `vq/refs/c02_ptycho_sim.py` (numpy float64, written from
     the physics, shares no code with quantem) on the raster first_position + (i, j) * step / pixel size,
  3. hands the float32 intensities to the library as a Dataset4dstem, lets the library do its own
     preprocessing, installs the ground truth (ObjectPixelated.from_array, public probe setter) and
     evaluates exactly the statements of Ptychography.reconstruct's inner loop
     (dset.forward -> probe_model.forward -> obj_model.forward -> forward_operator ->
     detector_model.forward -> error_estimate),
  4. judges:  loss(truth) <= tol for the full scan and for every batch of a drawn partition;
     loss at a perturbed object / a perturbed probe equals the loss computed from its definition on the
     reference simulator's prediction (hence is > 100 * tol whenever the reference says the perturbation
     is visible, which the generator arranges), and exceeds 100 * loss(truth);
     the batch-fraction weighted sum of the batch losses equals the full-scan loss;
     for l2 losses the autograd gradient at the truth is <= 1e-3 of the gradient at the perturbed point.

Every array is a pure function of the JSON case (see vq/gen/c02_build.py)."""

from __future__ import annotations

import math

import numpy as np
from hypothesis import strategies as st

from vq import core
from vq.gen import c02_build as B
from vq.refs import c02_ptycho_sim as sim

KEY_CLIP = "c02-edge-scan-positions-clipped"
KEY_ODD = "c02-odd-roi-no-shift"

LOSSES = ["l2_amplitude", "l1_amplitude", "l2_intensity", "l1_intensity"]

# ------------------------------------------------------------------------------------------------
# tolerances (see vq/metas/c02.py for the measurements they are based on)
# ------------------------------------------------------------------------------------------------
# The library works in float32/complex64.  With a0 = sqrt(mean pattern intensity) the rounding error of
# a predicted or preprocessed amplitude is k * eps32 * a0 / sqrt(Npix) per pixel with k of order 1..10
# (FFT chains of <= 4 slices).  Summed over J patterns and normalised by the mean intensity this gives
# the scalings below (x a factor for the float32 propagator phase, see truth_tol).  "measured" = largest
# truth loss / tolerance over ~6000 clean-tree cases (8 seeds): every constant leaves >= 20x head-room.
K_L2_AMP = 4e-11  # * J                       measured 0.008
K_L1_AMP = 2e-5  # * J * sqrt(Npix / Imean)   measured 0.05
K_L2_INT = 4e-12  # * J * Imean * peak/mean   measured 0.011
K_L1_INT = 1e-4  # * J                        measured 0.044
REL_REF = 2e-4  # library loss vs reference loss at a perturbed point (relative); measured <= 4.3e-6
GRAD_RATIO = 1e-3  # |grad L|(truth) <= GRAD_RATIO * |grad L|(perturbed), l2 losses; measured <= 3.5e-5
VISIBLE = 1e3  # the reference loss at a perturbed point must exceed VISIBLE * tol to be asserted on


def truth_tol(loss_type, J, npix, imean, peak_ratio=1.0, phi=0.0):
    """Upper bound for the full-scan-scaled loss at the ground truth.

    amplitude losses also carry the documented sqrt(I + 1e-9) regulariser: per pixel
    (sqrt(I + e) - sqrt(I))^2 <= e and sqrt(I + e) - sqrt(I) <= sqrt(e), e = 1e-9 (exact bounds, x2).

    phi = largest phase (rad) carried by the Fresnel propagators, summed over the slice gaps.  The library
    evaluates that phase in float32, so every propagated amplitude is off by up to ~2 * eps32 * phi (relative):
    the round-off terms grow by f = 1 + phi / 10 (l1) or f^2 (l2).  Measured: phi = 72 rad gives an
    l2_amplitude truth loss of 4.7e-12 * J (0.12 of the phi-free tolerance, the largest ratio seen)."""
    e = sim.SQRT_EPS
    f = 1.0 + phi / 10.0
    if loss_type == "l2_amplitude":
        return J * (K_L2_AMP * f * f + 2.0 * npix * e / imean)
    if loss_type == "l1_amplitude":
        return J * (K_L1_AMP * f * math.sqrt(npix / imean) + 2.0 * npix * math.sqrt(e) / imean)
    if loss_type == "l2_intensity":
        return J * K_L2_INT * f * f * imean * peak_ratio
    if loss_type == "l1_intensity":
        return J * K_L1_INT * f
    raise ValueError(loss_type)


def propagator_phase(case, sampling):
    """Sum over the slice gaps of the largest Fresnel phase pi * lambda * dz * |k|^2_max (rad)."""
    if int(case["S"]) < 2:
        return 0.0
    lam = sim.wavelength_angstrom(float(case["energy"]))
    k2 = float(np.sum((0.5 / np.asarray(sampling, dtype=np.float64)) ** 2))
    return float(sum(math.pi * lam * float(dz) * k2 for dz in case["thick"]))


STATS = {}


def _open(ctx, key):
    """Known finding registered as open (known_findings.json), or assumed open through the environment
    (development hook: VQ_ASSUME_OPEN=key1,key2)."""
    import os

    return ctx.is_open(key) or key in os.environ.get("VQ_ASSUME_OPEN", "").split(",")


WORST = {}  # key -> case that produced the maximum (development aid)


def _stat(key, value, case=None):
    if value > STATS.get(key, -1.0):
        STATS[key] = float(value)
        WORST[key] = case


def _fail(case, msg):
    raise core.Violation(msg, case)


# ------------------------------------------------------------------------------------------------
# generator
# ------------------------------------------------------------------------------------------------
SEEDS = st.integers(0, 2**31 - 1)


def _fl(lo, hi, nd=4):
    return st.floats(lo, hi, allow_nan=False, allow_infinity=False).map(lambda v: round(v, nd))


def _roi_side():
    return st.sampled_from([6, 7, 8, 9, 10, 11, 12, 13, 14, 15, 16, 6, 7, 8, 9, 12, 16])


def _safe_step(a, g):
    """Move a scan step (object pixels) away from values for which some raster position k * a,
    k < g, falls within 0.01 px of a half-integer: the rounding of x.5 positions is a convention, not
    physics (such cases would be skipped by the check)."""
    a = round(float(a), 4)
    for _ in range(200):
        if all(abs((k * a) % 1.0 - 0.5) > 0.01 for k in range(1, g)):
            return a
        a = round(a + 0.0113, 4)
    return a


@st.composite
def cases(draw, even_only=False):
    R, C = draw(_roi_side()), draw(_roi_side())
    if draw(st.integers(0, 5)) == 0:
        C = R  # make sure square ROIs stay represented
    if even_only:
        R += R % 2
        C += C % 2
    g0, g1 = draw(st.integers(2, 6)), draw(st.integers(2, 6))
    J = g0 * g1
    S = draw(st.sampled_from([1, 1, 2, 2, 3, 4]))
    M = draw(st.sampled_from([1, 1, 2, 2, 3]))
    rmax = min(R, C) / 2.0 - 0.5
    batch = draw(st.one_of(st.integers(1, J), st.sampled_from([1, 2, J, max(1, J // 2), max(1, J - 1)])))
    if J // batch > 12:
        batch = max(batch, -(-J // 12))  # at most 12 batches (bounds the run time, keeps ragged partitions)
    return {
        "roi": [R, C],
        "gpts": [g0, g1],
        "sampling": [draw(_fl(0.15, 0.8)), draw(_fl(0.15, 0.8))],
        "step_px": [_safe_step(draw(_fl(1.05, 6.0)), g0), _safe_step(draw(_fl(1.05, 6.0)), g1)],
        "energy": draw(st.sampled_from([60e3, 80e3, 200e3, 300e3])),
        "S": S,
        "thick": [draw(_fl(2.0, 40.0, 3)) for _ in range(S - 1)],
        "M": M,
        "obj_type": draw(st.sampled_from(["complex", "pure_phase", "potential"])),
        "obj": {"strength": draw(_fl(0.8, 3.1, 3)), "smooth": draw(st.booleans())},
        "probe": {
            "radius": draw(_fl(1.6, max(1.6, rmax), 3)),
            "soft": draw(_fl(0.3, 1.5, 3)),
            "defocus": draw(_fl(-6.0, 6.0, 3)),
            "astig": draw(_fl(-2.0, 2.0, 3)),
            "astig_angle": draw(_fl(0.0, 3.1416, 3)),
            "dose": draw(st.sampled_from([1e2, 1e3, 1e4, 1e5, 1e6])) * draw(_fl(1.0, 9.9, 2)),
            "weights": [1.0, draw(_fl(0.15, 0.6, 3)), draw(_fl(0.02, 0.12, 3))],
        },
        "pad": [draw(st.integers(0, 6)), draw(st.integers(0, 6))],
        "descan": draw(st.sampled_from(["A", "A", "B_constant", "B_plane"])),
        "loss": draw(st.sampled_from(LOSSES)),
        "batch": batch,
        "pert": {
            "obj_sigma": draw(_fl(0.15, 0.6, 3)),
            "probe_defocus": draw(_fl(1.5, 4.0, 3)) * draw(st.sampled_from([-1.0, 1.0])),
        },
        "seed": draw(SEEDS),
    }


# ------------------------------------------------------------------------------------------------
# the check
# ------------------------------------------------------------------------------------------------
def _partition(case, J):
    """Batches of size case['batch'] over a seeded permutation (last one possibly smaller)."""
    rng = np.random.default_rng([int(case["seed"]), 404])
    order = rng.permutation(J)
    b = max(1, min(int(case["batch"]), J))
    return [order[i : i + b] for i in range(0, J, b)]


def _grads(pt, loss):
    torch = B.Q().torch
    params = [pt.obj_model.params] + list(pt.probe_model.params)
    gs = torch.autograd.grad(loss, params, allow_unused=True)
    out = []
    for g in gs:
        out.append(0.0 if g is None else float(torch.sqrt(torch.sum(g.real.double() ** 2 + (g.imag.double() ** 2 if g.is_complex() else 0.0)))))
    return out[0], math.sqrt(sum(v * v for v in out[1:]))


def _eval(ctx, case, pt, batches, lt, J, want_grad):
    """Library losses: full scan (+ gradient norms) and per batch."""
    torch = B.Q().torch
    full = np.arange(J)
    with ctx.sut(case, "forward chain (dset -> probe -> object -> forward_operator -> detector -> error_estimate)"):
        if want_grad:
            L, pred = B.forward_loss(pt, full, lt)
            g_obj, g_probe = _grads(pt, L)
        else:
            with torch.no_grad():
                L, pred = B.forward_loss(pt, full, lt)
            g_obj = g_probe = None
        Lb = []
        if len(batches) > 1:
            with torch.no_grad():
                for b in batches:
                    Lb.append(float(B.forward_loss(pt, b, lt)[0]))
        else:
            Lb = [float(L)]
    pred = B.to_np(pred).astype(np.float64)
    if pred.shape != (J, case["roi"][0], case["roi"][1]):
        _fail(case, "predicted intensities have shape %s" % (pred.shape,))
    L = float(L)
    if not np.isfinite(L) or not np.all(np.isfinite(Lb)):
        _fail(case, "non-finite loss")
    return L, Lb, g_obj, g_probe, pred


def check(ctx, case):
    R, C = case["roi"]
    g0, g1 = case["gpts"]
    J = g0 * g1
    S, M = int(case["S"]), int(case["M"])
    lt = case["loss"]
    npix = R * C
    odd = bool(R % 2 or C % 2)

    # -- 1. geometry from the library --------------------------------------------------------------
    with ctx.sut(case, "preprocessing an all-ones dataset (geometry query)"):
        geo = B.ask_geometry(case)
    shape2d = geo["obj_shape"][-2:]
    pos = geo["positions"][0][None, :] + B.raster_offsets_px(case)
    frac = pos - np.rint(pos)
    fractional = bool(np.any(np.abs(frac) > 1e-3))
    padded = bool(min(geo["pad"]) > 0)
    outside = bool(np.any(pos > np.array(shape2d)[None] - 1.0 + 1e-6) or np.any(pos < -1e-6))
    wraps = bool(
        np.any(np.rint(pos) - np.array([R // 2, C // 2])[None] < 0)
        or np.any(np.rint(pos) + np.array([(R + 1) // 2, (C + 1) // 2])[None] > np.array(shape2d)[None])
    )

    classes = [
        "S%d" % S,
        "M%d" % M,
        "type:" + case["obj_type"],
        "loss:" + lt,
        "descan:" + case["descan"],
        "roi:" + ("odd" if odd else "even"),
        "roi:" + ("square" if R == C else "nonsquare"),
        "batches:%s" % ("1" if case["batch"] >= J else ("ragged" if J % case["batch"] else "equal")),
        "pad:" + ("requested>0" if min(case["pad"]) > 0 else "requested_0_on_an_axis"),
    ]
    if wraps:
        classes.append("patch_wraps_around_object_edge")
    if outside:
        classes.append("raster_reaches_beyond_last_object_pixel")
    if not case.get("clip", True):
        classes.append("clip_scan_positions_off")
    nontrivial = bool(S >= 2 or M >= 2 or R != C or (fractional and padded))

    # rounding of an exact half-pixel position is a convention, not physics: not judged
    if np.any(np.abs(np.abs(frac) - 0.5) < 2e-3):
        ctx.record(case, False, classes + ["skipped:half_pixel_position"])
        return
    if outside and case.get("clip", True) and _open(ctx, KEY_CLIP):
        ctx.exclude(KEY_CLIP)
        ctx.record(case, False, classes + ["skipped:" + KEY_CLIP])
        return
    if odd and case["descan"] == "A" and _open(ctx, KEY_ODD):
        ctx.exclude(KEY_ODD)
        ctx.record(case, False, classes + ["skipped:" + KEY_ODD])
        return
    ctx.record(case, nontrivial, classes)

    # -- 2. ground truth and reference data ---------------------------------------------------------
    oshape = (S,) + tuple(shape2d)
    obj = B.truth_object(case, oshape)
    probe = B.truth_probe(case)
    samp = geo["obj_sampling"]
    thick = case["thick"]
    E = float(case["energy"])
    I_true = sim.simulate(obj, case["obj_type"], probe, pos, samp, E, thick)
    imean = float(I_true.sum(axis=(1, 2)).mean())
    peak_ratio = float(I_true.max() * npix / imean)  # 1 for a flat pattern; l2_intensity rounding scales with it
    meas = I_true.astype(np.float32).astype(np.float64)  # what the library is given
    obj_p = B.perturbed_object(case, obj, float(case["pert"]["obj_sigma"]))
    probe_p = B.truth_probe(case, extra_defocus=float(case["pert"]["probe_defocus"]))
    I_po = sim.simulate(obj_p, case["obj_type"], probe, pos, samp, E, thick)
    I_pp = sim.simulate(obj, case["obj_type"], probe_p, pos, samp, E, thick)

    # -- 3. the library on that data -----------------------------------------------------------------
    with ctx.sut(case, "dataset preprocessing / Ptychography.from_models / preprocess"):
        pdset = B.make_dataset(case, I_true)
        pt = B.make_ptycho(case, pdset, obj)
        B.configure(case, pt, lt)
        B.install_probe(pt, probe)
    if tuple(int(v) for v in pt.obj_shape_full) != oshape:
        raise core.HarnessError("object shape changed between the geometry query and the real build")
    descan_on = case["descan"] != "A"
    if bool(pt.dset.learn_descan and pt.dset.has_optimizer()) != descan_on:
        raise core.HarnessError("descan mode was not taken")
    lib_imean = float(pt.dset.mean_diffraction_intensity)

    batches = _partition(case, J)
    want_grad = lt.startswith("l2")
    phi = propagator_phase(case, samp)
    tol = truth_tol(lt, J, npix, imean, peak_ratio, phi)
    fphi = 1.0 + phi / 10.0  # float32 evaluation of the propagator phase, see truth_tol
    _stat("propagator phase (rad)", phi)
    full = np.arange(J)

    # 3a. ground truth
    L0, L0b, g0_obj, g0_probe, pred0 = _eval(ctx, case, pt, batches, lt, J, want_grad)
    _stat("truth loss / tol [%s]" % lt, L0 / tol, case)
    where = "S=%d M=%d %s roi=%s descan=%s" % (S, M, case["obj_type"], case["roi"], case["descan"])
    if L0 > tol:
        rel = float(np.abs(pred0 - meas).max() / meas.max())
        if outside:
            where += "; the raster reaches beyond the last object pixel (object %s, largest position %s): the default "\
                "clip_scan_positions constraint moves those scan points [%s]" % (list(shape2d), np.round(pos.max(axis=0), 3).tolist(), KEY_CLIP)
        _fail(
            case,
            "%s at the ground truth is %.3e (tolerance %.3e; %s); library prediction differs from the reference "
            "data by %.2e of the peak intensity" % (lt, L0, tol, where, rel),
        )
    for b, Lb in zip(batches, L0b):
        if Lb > tol:
            _fail(case, "%s of batch %s at the ground truth is %.3e (tolerance %.3e; %s)" % (lt, b.tolist(), Lb, tol, where))

    # 3b. perturbed object, 3c. perturbed probe
    results = {}
    for name, I_ref, install, restore in (
        ("object", I_po, lambda: B.install_object(pt, obj_p), lambda: B.install_object(pt, obj)),
        ("probe", I_pp, lambda: B.install_probe(pt, probe_p), lambda: B.install_probe(pt, probe)),
    ):
        with ctx.sut(case, "installing the perturbed %s" % name):
            install()
        bt = batches if name == "object" else [full]
        L1, L1b, g1_obj, g1_probe, _pred1 = _eval(ctx, case, pt, bt, lt, J, want_grad)
        with ctx.sut(case, "restoring the ground-truth %s" % name):
            restore()
        Lref = sim.loss(I_ref, meas, full, lt, J, imean)
        results[name] = (L1, Lref)
        visible = Lref > VISIBLE * tol
        if not visible:
            ctx.count("perturbed_%s_not_visible_in_reference" % name)
            continue
        _stat("|lib - ref| / ref / (1 + phi/10) at perturbed %s [%s]" % (name, lt), abs(L1 - Lref) / Lref / fphi)
        _stat("truth loss / perturbed-%s loss" % name, L0 / L1 if L1 > 0 else float("inf"))
        if abs(L1 - Lref) > REL_REF * fphi * Lref + tol:
            _fail(
                case,
                "%s at the perturbed %s is %.6e, its definition evaluated on the reference simulation gives %.6e (%s)"
                % (lt, name, L1, Lref, where),
            )
        if not (L1 > 100.0 * L0 and L1 > L0 + 100.0 * tol):
            _fail(case, "%s at the perturbed %s (%.3e) is not larger than at the ground truth (%.3e)" % (lt, name, L1, L0))
        if len(bt) > 1:
            wsum = float(sum(len(b) / J * v for b, v in zip(bt, L1b)))
            _stat("|weighted batch sum - full| / full", abs(wsum - L1) / L1)
            if abs(wsum - L1) > 1e-4 * L1 + tol:
                _fail(case, "batch-fraction weighted sum of the batch losses %.6e != full-scan loss %.6e" % (wsum, L1))
            for b, v in zip(bt, L1b):
                vref = sim.loss(I_ref, meas, b, lt, J, imean)
                if abs(v - vref) > REL_REF * fphi * max(vref, Lref / len(bt)) + tol:
                    _fail(
                        case,
                        "%s of batch %s (size %d of %d) at the perturbed object is %.6e, definition on the reference "
                        "simulation gives %.6e" % (lt, b.tolist(), len(b), J, v, vref),
                    )
        if want_grad:
            g0v, g1v = (g0_obj, g1_obj) if name == "object" else (g0_probe, g1_probe)
            if not (g1v > 0 and np.isfinite(g1v) and np.isfinite(g0v)):
                _fail(case, "gradient w.r.t. the %s at the perturbed %s is %r" % (name, name, g1v))
            _stat("|grad %s|(truth) / |grad|(perturbed) / (1 + phi/10) [%s]" % (name, lt), g0v / g1v / fphi)
            if g0v > GRAD_RATIO * fphi * g1v:
                _fail(
                    case,
                    "ground truth is not a stationary point of %s: |dL/d%s| = %.3e at the truth, %.3e at the perturbed %s (%s)"
                    % (lt, name, g0v, g1v, name, where),
                )
    _stat("|lib mean intensity - ref| / ref", abs(lib_imean - imean) / imean)


def search(ctx):
    # quick: 4 workers x 220 cases (~35-90 s wall depending on the load of the shared machine, 0.07-0.25 s per case);
    # thorough: 16 workers x 3000.  No shrink phase: a failing case is already a small JSON description.
    odd_open = _open(ctx, KEY_ODD)
    n = ctx.n(220, 3000)
    core.run_given(ctx, "c02", cases(even_only=False), lambda c: check(ctx, c), n, shrink=False)
    if odd_open:
        ctx.extra["note"] = "odd ROI with no_shift skipped (open finding %s)" % KEY_ODD
    for k, v in STATS.items():
        ctx.extra["max " + k] = float("%.4g" % v)

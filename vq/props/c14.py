"""C14 — serializer skip lists remove exactly the named attributes, at save or load time.

Graphs: AutoSerialize objects nested through ATTRIBUTES only (depth <= 3), attribute names drawn
from a small pool so the same name occurs at several depths and as dict keys / inside containers
(which must NOT be touched).  Oracle: an in-memory `prune` of the graph + the C01 equality."""

from __future__ import annotations

import contextlib
import io
import os
import shutil

from hypothesis import strategies as st

from vq import core
from vq.gen import graphs as gg

NAMES = ["a", "b", "data", "child", "info", "_private", "count", "k_9", "Zeta",
         # names that string-extend other names (img / img_ref situations): a skip must match whole names only
         "data_raw", "child2", "a1", "info.x"]
# names that exist on the classes but are not instance data (method / property / class attribute)
CLASS_LEVEL = ["method", "prop", "class_level", "save", "print_tree"]
ABSENT = ["nope", "missing_attr", "a_b"]
TYPE_TOKENS = ["int", "float", "str", "bool", "list", "tuple", "dict", "set", "ndarray", "tensor", "NodeB", "Path", "Module", "object", "complex", "NoneType",
               # abstract base classes: isinstance() is true for virtual subclasses too
               "Integral", "Real", "Number", "Mapping", "Sequence", "PathLike", "Sized"]


def _types(tokens):
    import collections.abc
    import numbers
    import pathlib

    import numpy as np
    import torch

    from vq.models import ser_models

    m = {
        "int": int, "float": float, "str": str, "bool": bool, "list": list, "tuple": tuple, "dict": dict, "set": set,
        "ndarray": np.ndarray, "tensor": torch.Tensor, "NodeB": ser_models.NodeB, "Path": pathlib.PurePath,
        "Module": torch.nn.Module, "object": object, "complex": complex, "NoneType": type(None),
        "Integral": numbers.Integral, "Real": numbers.Real, "Number": numbers.Number, "Mapping": collections.abc.Mapping,
        "Sequence": collections.abc.Sequence, "PathLike": os.PathLike, "Sized": collections.abc.Sized,
    }  # fmt: skip
    return [m[t] for t in tokens]


# ------------------------------------------------------------------------------------------------
@st.composite
def attr_objects(draw, depth):
    cls = draw(st.sampled_from(["NodeA", "NodeB", "NodeC"]))
    names = draw(st.lists(st.sampled_from(NAMES), min_size=1 if depth < 3 else 2, max_size=5, unique=True))
    attrs = []
    for n in names:
        if depth > 0 and draw(st.integers(0, 1)) == 0:
            attrs.append([n, draw(attr_objects(depth - 1))])
        else:
            v = draw(gg.values(draw(st.integers(0, 1)), complex_ok=True, objs=False))
            # containers may use the very same names as dict keys: skipping must not reach into them
            if v["t"] == "dict" and v["items"]:
                for it in v["items"]:
                    if draw(st.booleans()):
                        it[0] = draw(st.sampled_from(NAMES))
                seen, items = set(), []
                for k, s in v["items"]:
                    if k not in seen:
                        seen.add(k)
                        items.append([k, s])
                v["items"] = items
            attrs.append([n, v])
    return {"t": "obj", "cls": cls, "attrs": attrs}


def _all_names(spec, depth=0, out=None):
    out = {} if out is None else out
    for n, s in spec["attrs"]:
        out.setdefault(n, set()).add(depth)
        if s["t"] == "obj":
            _all_names(s, depth + 1, out)
    return out


@st.composite
def skip_names(draw, spec, allow_class_level=True):
    byd = _all_names(spec)
    present = sorted(byd)
    multi = [n for n in present if len(byd[n]) >= 2]
    # names that are ALSO dict keys somewhere (skipping must not reach into containers); absent attribute
    # names that are dict keys count too
    dkeys = sorted({k for k, _v in _dict_keys(spec) if k in NAMES})
    prefixes = [n for n in present if any(m != n and m.startswith(n) for m in present)]
    dkeys = dkeys + prefixes * 2
    pool = present + multi * 3 + dkeys * 4 + ABSENT + (CLASS_LEVEL if allow_class_level else [])
    return draw(st.lists(st.sampled_from(pool), min_size=1, max_size=4, unique=True))


KIND_TO_TOKEN = {"int": "int", "bool": "bool", "float": "float", "str": "str", "list": "list", "tuple": "tuple", "dict": "dict", "set": "set",
                 "nd": "ndarray", "tensor": "tensor", "path": "Path", "module": "Module", "complex": "complex", "none": "NoneType"}  # fmt: skip


ABC_FOR_KIND = {"int": ["Integral", "Real", "Number"], "bool": ["Integral", "Number"], "float": ["Real", "Number"], "complex": ["Number"],
                "dict": ["Mapping", "Sized"], "list": ["Sequence", "Sized"], "tuple": ["Sequence", "Sized"], "str": ["Sequence", "Sized"],
                "path": ["PathLike"], "npscalar": ["Number"], "set": ["Sized"]}  # fmt: skip


def _present_tokens(spec, depth=0, out=None):
    """type tokens of attribute values, with the depths at which they occur"""
    out = {} if out is None else out
    for _n, s in spec["attrs"]:
        if s["t"] == "obj":
            if s["cls"] == "NodeB":
                out.setdefault("NodeB", set()).add(depth)
            _present_tokens(s, depth + 1, out)
        elif s["t"] in KIND_TO_TOKEN:
            out.setdefault(KIND_TO_TOKEN[s["t"]], set()).add(depth)
        for abc in ABC_FOR_KIND.get(s["t"], []):
            out.setdefault(abc, set()).add(depth)
    return out


@st.composite
def type_lists(draw, root):
    present = _present_tokens(root)
    nested = sorted(t for t, d in present.items() if any(x >= 1 for x in d))
    pool = TYPE_TOKENS + sorted(present) * 2 + nested * 4  # prefer types that really occur, esp. in nested objects
    return draw(st.lists(st.sampled_from(pool), min_size=1, max_size=3, unique=True))


@st.composite
def cases(draw, bare=False):
    root = draw(attr_objects(3))
    if bare:
        # the documented single-item form skip="name" / skip=SomeType (not wrapped in a list), always naming
        # something that is present (first-order mutant C14:179: load() iterating the characters of a bare string)
        present = sorted(_all_names(root))
        mode = draw(st.sampled_from(["save", "load", "load", "both", "types"] if present else ["types"]))
        return {
            "kind": "skip",
            "root": root,
            "mode": mode,
            "store": draw(st.sampled_from(["zip", "dir"])),
            "save_names": [draw(st.sampled_from(present))] if mode in ("save", "both") else [],
            "load_names": [draw(st.sampled_from(present))] if mode in ("load", "both") else [],
            "types": [draw(st.sampled_from(sorted(_present_tokens(root)) or TYPE_TOKENS))] if mode == "types" else [],
            "form": "bare",
        }
    mode = draw(st.sampled_from(["save", "load", "both", "save+types", "types"]))
    case = {
        "kind": "skip",
        "root": root,
        "mode": mode,
        "store": draw(st.sampled_from(["zip", "dir"])),
        "save_names": draw(skip_names(root)) if mode in ("save", "both", "save+types") else [],
        "load_names": draw(skip_names(root)) if mode in ("load", "both") else [],
        "types": draw(type_lists(root)) if mode in ("save+types", "types") else [],
        "form": draw(st.sampled_from(["list", "tuple", "bare"])),
    }
    return case


# ------------------------------------------------------------------------------------------------
def prune(o, names, types):
    """Reference: drop attributes named in `names` or instance of `types`, at every level of
    attribute-nested AutoSerialize objects; everything else (incl. container contents) untouched."""
    import torch

    from quantem.core.io.serialize import AutoSerialize

    new = type(o).__new__(type(o))
    for k, v in vars(o).items():
        if k in names or (types and isinstance(v, tuple(types))):
            continue
        if isinstance(v, AutoSerialize) and not isinstance(v, torch.nn.Module):
            new.__dict__[k] = prune(v, names, types)
        else:
            new.__dict__[k] = v
    return new


def _skip_arg(items, form):
    if form == "bare" and len(items) == 1:
        return items[0]
    if form == "tuple":
        return tuple(items)
    return list(items)


def _save(ctx, case, obj, d, tag, skip):
    p = os.path.join(d, "s_%s%s" % (tag, ".zip" if case["store"] == "zip" else ""))
    with ctx.sut(case, "save(skip=%r)" % (skip,)):
        with contextlib.redirect_stdout(io.StringIO()):
            obj.save(p, mode="w", store=case["store"], skip=skip)
    return p


def _load(ctx, case, p, skip):
    from quantem.core.io.serialize import load

    with ctx.sut(case, "load(skip=%r)" % (skip,)):
        with contextlib.redirect_stdout(io.StringIO()):
            return load(p, skip=skip)


def check(ctx, case):
    root = case["root"]
    x = gg.build(root)
    names_by_depth = _all_names(root)
    sn, ln, tt = case["save_names"], case["load_names"], case["types"]
    types = _types(tt)
    all_skipped = set(sn) | set(ln)
    multi_depth = any(len(names_by_depth.get(n, ())) >= 2 for n in all_skipped)
    pr = prune(x, set(sn), types)
    removed_by_type = kept_by_type = 0
    if types:
        removed_by_type = sum(1 for v in vars(x).values() if isinstance(v, tuple(types)))
        kept_by_type = len(vars(x)) - removed_by_type
    nontrivial = multi_depth or (removed_by_type >= 1 and kept_by_type >= 1)
    classes = ["mode:" + case["mode"], "store:" + case["store"], "form:" + case["form"]]
    classes += ["type:" + t for t in tt]
    if types and any(any(x >= 1 for x in d) for t, d in _present_tokens(root).items() if t in tt):
        classes.append("type_skip_hits_nested_object")
    if multi_depth:
        classes.append("skipped_name_at_>=2_depths")
    if any(n in CLASS_LEVEL for n in all_skipped):
        classes.append("skip_name_is_class_level_attribute")
    if any(n in ABSENT for n in all_skipped):
        classes.append("skip_name_absent")
    if any(any(m != n and m.startswith(n) for m in names_by_depth) for n in all_skipped):
        classes.append("skipped_name_is_prefix_of_another_attribute")
    if any(n in all_skipped for n, s in _dict_keys(root)):
        classes.append("skipped_name_is_also_a_dict_key")
    ctx.record(case, nontrivial, classes)

    d = ctx.fresh_dir()
    try:
        # (a) skip at save time (names and/or types); recorded lists honoured by a plain load
        p1 = _save(ctx, case, x, d, "a", _skip_arg(list(sn) + types, case["form"]))
        y = _load(ctx, case, p1, ())
        df = gg.diff(pr, y)
        if df:
            raise core.Violation("load(save(x, skip=S)) != prune(x, S) [S names=%r types=%r]: %s" % (sn, tt, df), case)
        # (b) same names at load time instead == at save time
        if ln or case["mode"] in ("load", "both"):
            expect = prune(x, set(sn) | set(ln), types)
            reused = _skip_arg(list(ln), case["form"])
            y2 = _load(ctx, case, p1, reused)
            df = gg.diff(expect, y2)
            if df:
                raise core.Violation("load(save(x, skip=N1), skip=N2) != prune(x, N1|N2) [N1=%r N2=%r]: %s" % (sn, ln, df), case)
            p2 = _save(ctx, case, x, d, "b", ())
            if isinstance(reused, list):
                # the caller's own list object, used a second time on a file that records no skip lists: exactly the
                # names the caller wrote are skipped (seeded change C14-12: load() extended the caller's list in
                # place with the lists recorded in the first file)
                y2b = _load(ctx, case, p2, reused)
                df = gg.diff(prune(x, set(ln), []), y2b)
                if df:
                    raise core.Violation("load(other_file, skip=L) with the list object L already passed to an earlier load() != prune(x, %r): %s" % (sorted(ln), df), case)
            y3 = _load(ctx, case, p2, _skip_arg(list(set(sn) | set(ln)), "list"))
            expect_names_only = prune(x, set(sn) | set(ln), [])
            df = gg.diff(expect_names_only, y3)
            if df:
                raise core.Violation("load(save(x), skip=N) != prune(x, N) [N=%r]: %s" % (sorted(set(sn) | set(ln)), df), case)
            p3 = _save(ctx, case, x, d, "c", _skip_arg(list(set(sn) | set(ln)), "list"))
            y4 = _load(ctx, case, p3, ())
            df = gg.diff(y4, y3) or gg.diff(y3, y4)
            if df:
                raise core.Violation("skipping names at load time differs from skipping them at save time [N=%r]: %s" % (sorted(set(sn) | set(ln)), df), case)
        # the saved object itself is untouched by save(skip=...)
        df = gg.diff(gg.build(root), x)
        if df:
            raise core.Violation("save(skip=...) modified the object being saved: %s" % df, case)
    finally:
        shutil.rmtree(d, ignore_errors=True)


def _dict_keys(spec):
    out = []

    def walk(s):
        if s["t"] == "dict":
            for k, v in s["items"]:
                out.append((k, v))
                walk(v)
        elif s["t"] in ("list", "tuple", "set"):
            for v in s["items"]:
                walk(v)
        elif s["t"] == "obj":
            for _k, v in s["attrs"]:
                walk(v)

    walk(spec)
    return out


def search(ctx):
    core.run_given(ctx, "skip", cases(), lambda c: check(ctx, c), ctx.n(110, 500))
    core.run_given(ctx, "skip-bare", cases(bare=True), lambda c: check(ctx, c), ctx.n(20, 100))

"""C12 — one aberration surface across polar, Cartesian, gradient and fitted forms.

Case kinds (all JSON-able, self-contained):

  surface  polar coefficient set -> (1) sum_i basis_i * polar_to_cartesian(c)_i == aberration_surface(c),
           (2) aberration_surface(cartesian_to_polar(polar_to_cartesian(c))) == aberration_surface(c),
           (2b) merge_aberration_coefficients(c, delta) evaluates to surface(c) + sum_i basis_i delta_i,
           (3) aberration_surface_cartesian_gradients == wavelength * autograd(aberration_surface)
  cart     Cartesian coefficient set -> surface(cartesian_to_polar(cart)) == sum_i basis_i cart_i and the
           Cartesian -> polar -> Cartesian round trip is the same function; basis columns follow the label list
  alias    one of the sites that accept coefficient dictionaries -> 'defocus' = -C10, other aliases 1:1,
           nothing else becomes non-zero, unknown keys rejected.  Sites that return the canonical dictionary are
           compared with the harness's own alias table; the public fitting / search entry points of
           DirectPtychography (xcorr_fit, grid_search, optuna_search) are judged by what the alias rule implies:
           alias dictionary and canonical dictionary give the same fit, and the coefficients left in force are
           evaluated by aberration_surface as the surface of their alias-resolved form
  alias_history  one params dictionary object used 2..4 times (factories, setter, coefficient-only sites on its
           nested dictionary) and first.probe_params fed into further models: after every step every model built so
           far carries the dictionary's meaning, and later uses give the first use's result
  fit_history  one live DirectPtychography object on a synthetic vBF stack (images displaced exactly by the model
           shifts) driven through fit->fit / grid_search->fit / optimize->fit: every cross-correlation fit returns the
           generating values (TOL_E2E)
  fit      shifts of {C10, C12, phi12, rotation} on a bright-field pixel set (discs, annuli, half discs, half annuli,
           wedges, random subsets; mostly not point-symmetric and off-axis), from _return_lateral_shifts or from the
           harness's float64 model -> fit_aberrations_from_shifts returns the generators and refits the field
"""

from __future__ import annotations

import math

import numpy as np
from hypothesis import strategies as st
from hypothesis import target as _hyp_target
from hypothesis.control import currently_in_test_context

from vq import core
from vq.refs import c12_ref as R

# float64 paths: every quantity compared is a sum of <= 25 terms each computed to a few ulp of its own
# amplitude; the unit of comparison is the sum of the term amplitudes at the point (R.scale_*).  Measured on
# the clean tree: <= 8.2e-15 of that unit (see meta); 1e-10 leaves 4 orders of head-room and every
# representation error of interest is O(1) in that unit.
TOL64 = 1e-10
# float32 fit (spatial_frequencies, shifts and lstsq are float32): measured <= 5.3e-6 over 38 000 targeted
# cases with the basis condition number capped at MAX_COND (19x head-room); the mutants of interest are O(1).  See meta.
TOL_FIT = 1e-4
# end-to-end fit (fit_hyperparameters_cross_correlation on a synthetic virtual bright-field stack): the shifts are
# measured by upsampled cross-correlation (factor >= 16), not computed; measured on the clean tree over 400
# configurations of the generated family (~700 fits): <= 9.6e-3 (relative aberration matrix / rad), median 4e-4.
# 0.1 leaves 10x head-room; a fit that misses the generating values at all is off by O(1).
TOL_E2E = 0.1

SITES = [
    "validate",
    "standardize",
    "probe_pixelated",
    "probe_parametric",
    "probe_reassign",
    "probe_check_params",
    "direct_init",
    "direct_override",
    "state_keys",
]
# public entry point that takes a coefficient dictionary and runs a whole alignment (0.5 s per case): drawn
# separately, with its own small budget
XCORR = "xcorr_fit"
SEARCH = ("grid_search", "optuna_search")
# known-finding keys: when one of these is recorded as an open finding the generator leaves out exactly that
# site (counted under excluded_by_construction); `check` itself never looks at them
K_XCORR = "xcorr-fit-alias-seed-shifts"
K_SEARCH = "search-writeback-alias"


def target(value, label):
    """hypothesis.target, silent outside a Hypothesis run (replays, enumerated singletons)."""
    if currently_in_test_context():
        _hyp_target(float(value), label=label)


def _q():
    import torch

    import quantem.diffractive_imaging.complex_probe as cp
    import quantem.diffractive_imaging.direct_ptycho_utils as du

    return torch, cp, du


# ------------------------------------------------------------------------------------------------
# generators
# ------------------------------------------------------------------------------------------------
_ANGLES = st.one_of(
    st.floats(min_value=-math.pi, max_value=math.pi, exclude_min=True, allow_nan=False),
    st.sampled_from([0.0, math.pi, math.pi / 2, -math.pi / 2, math.pi / 4, 1e-9, -3.0, 0.1]),
)
_WAVELENGTHS = st.one_of(
    st.floats(min_value=0.008, max_value=0.09, allow_nan=False),
    st.sampled_from([0.0197, 0.0251, 0.0418, 0.0859]),  # 300, 200, 80, 20 kV
)
_SEEDS = st.integers(0, 2**32 - 1)


@st.composite
def _magnitude(draw, n, regime):
    """|C_nm| in Angstrom.  raw: log-uniform 1e-3..1e9 regardless of order; balanced: comparable contribution
    of every order at alpha ~ 30 mrad, so that no term hides below the rounding level of another."""
    if regime == "raw":
        v = 10.0 ** draw(st.floats(-3.0, 9.0))
    else:
        v = 10.0 ** draw(st.floats(0.0, 3.0)) * 0.03 ** (-(n - 1))
    if draw(st.integers(0, 5)) == 0:
        v = float(round(v)) if v >= 1 else v  # integers-as-floats
    return v * draw(st.sampled_from([1.0, -1.0]))


@st.composite
def polar_sets(draw, min_terms=1):
    regime = draw(st.sampled_from(["raw", "balanced", "balanced"]))
    terms = draw(st.lists(st.sampled_from(R.NM), min_size=min_terms, max_size=14, unique=True))
    coefs = {}
    for n, m in sorted(terms):
        c = draw(_magnitude(n, regime))
        if draw(st.integers(0, 11)) == 0:
            c = 0.0
        coefs["C%d%d" % (n, m)] = c
        if m and draw(st.integers(0, 7)) != 0:  # 1 in 8: angle left out (defaults to 0)
            coefs["phi%d%d" % (n, m)] = draw(_ANGLES)
    # now and then an angle whose magnitude is not given at all: must contribute nothing
    if draw(st.integers(0, 9)) == 0:
        n, m = draw(st.sampled_from([t for t in R.NM if t[1]]))
        coefs.setdefault("phi%d%d" % (n, m), draw(_ANGLES))
    return coefs, regime


@st.composite
def cart_items(draw, min_size=1, max_size=25):
    regime = draw(st.sampled_from(["raw", "balanced", "balanced"]))
    labels = draw(st.lists(st.sampled_from(R.CART_LABELS), min_size=min_size, max_size=max_size, unique=True))
    items = []
    for lab in labels:
        n, _m, _k = R.parse_label(lab)
        v = draw(_magnitude(n, regime))
        if draw(st.integers(0, 11)) == 0:
            v = 0.0
        items.append([lab, v])
    return items


@st.composite
def surface_cases(draw):
    coefs, regime = draw(polar_sets())
    delta = []
    if draw(st.booleans()):
        delta = draw(cart_items(1, 8))
    return {
        "kind": "surface",
        "coefs": coefs,
        "regime": regime,
        "delta": delta,
        "wavelength": draw(_WAVELENGTHS),
        "ctype": draw(st.sampled_from(["float", "tensor"])),
        "pts_seed": draw(_SEEDS),
        "npts": 63,
        "shape": draw(st.sampled_from([None, None, [8, 9], [2, 36], [72, 1]])),
    }


@st.composite
def cart_cases(draw):
    return {
        "kind": "cart",
        "items": draw(cart_items()),
        "wavelength": draw(_WAVELENGTHS),
        "pts_seed": draw(_SEEDS),
        "npts": 63,
        "shape": draw(st.sampled_from([None, None, [8, 9], [3, 24]])),
    }


_UNKNOWN_KEYS = [
    "C11", "C20", "C22", "C31", "C33", "C40", "C51", "C60", "C70", "phi10", "phi30", "phi22", "phi50",
    "c10", "Defocus", "defocus_", "focus", "cs", "C3", "C1", "C12_a", "C12a", "astig", "coma_phi",
    "astigmatism_phi", "Cc", "C10 ", "",
]  # fmt: skip


@st.composite
def alias_cases(draw):
    site = draw(st.sampled_from(SITES))
    # one key per canonical symbol (an alias and its canonical symbol in the same dictionary is ambiguous)
    syms = draw(st.lists(st.sampled_from(R.POLAR_SYMBOLS), min_size=1, max_size=8, unique=True))
    if draw(st.integers(0, 2)) != 0 and "C10" not in syms:
        syms.insert(draw(st.integers(0, len(syms))), "C10")  # the defocus clause is the named one
    inv = {v[0]: k for k, v in R.ALIASES.items()}
    items = []
    for s in syms:
        key = s
        if s in inv and draw(st.integers(0, 3)) != 0:
            key = inv[s]
        if s.startswith("phi"):
            v = draw(_ANGLES)
        else:
            v = draw(
                st.one_of(
                    st.floats(-1e9, 1e9, allow_nan=False),
                    st.integers(-100000, 100000),
                    st.sampled_from([0.0, 1.0, -1.0, 100.0, -250.5, 1e7]),
                )
            )
        items.append([key, v])
    case = {"kind": "alias", "site": site, "items": items}
    if site in ("probe_pixelated", "probe_parametric", "probe_reassign"):
        case["nested"] = [draw(st.booleans()) for _ in items]
        # ptychography_lite style: the top-level 'defocus' slot is present but None, C10 given canonically
        if not any(k == "defocus" for k, _ in items) and draw(st.booleans()):
            case["none_defocus"] = True
    if site == "probe_reassign":
        case["first_defocus"] = draw(st.sampled_from([None, 50.0, -7.5]))
    if site == "probe_check_params":
        # the reverse direction: C10 given (canonical, non-zero), defocus reported
        items[:] = [[k, v] for k, v in items if R.canonical([[k, 0.0]]).keys() != {"C10"}]
        c10 = draw(st.floats(-1e6, 1e6, allow_nan=False).filter(lambda x: x != 0.0) | st.integers(1, 5000))
        items.append(["C10", c10])
    if site not in ("probe_check_params", "probe_reassign") and draw(st.integers(0, 4)) == 0:
        case["unknown"] = [draw(st.sampled_from(_UNKNOWN_KEYS)), draw(st.integers(0, len(items)))]
    return case


HISTORY_BUILD = ["pixelated_from_params", "parametric_from_params", "pixelated_from_array", "dip_from_model", "setter"]
HISTORY_REFEED = ["refeed_parametric", "refeed_pixelated_array", "refeed_dip", "refeed_setter"]
HISTORY_COEF = ["validate", "standardize", "direct_init", "direct_override"]


@st.composite
def history_cases(draw):
    """One params dictionary OBJECT used 2..4 times (model factories, setter calls, the coefficient-only sites on
    its nested dictionary) and the probe_params of models built so far fed into further models."""
    syms = draw(st.lists(st.sampled_from(R.POLAR_SYMBOLS), min_size=0, max_size=5, unique=True))
    if "C10" not in syms:
        syms.insert(draw(st.integers(0, len(syms))), "C10")
    inv = {v[0]: k for k, v in R.ALIASES.items()}
    items = []
    for s_ in syms:
        key = inv[s_] if (s_ in inv and draw(st.integers(0, 3)) != 0) else s_
        if s_.startswith("phi"):
            v = draw(_ANGLES)
        else:
            # magnitudes >= 1e-3 A: the stored coefficients are also evaluated as a surface (no subnormal products)
            v = draw(st.floats(1e-3, 1e6).map(lambda x: x) | st.integers(1, 5000) | st.sampled_from([100.0, 250.5]))
            v = v * draw(st.sampled_from([1, -1]))
        items.append([key, v])
    form = draw(st.sampled_from(["nested", "nested", "mixed", "flat"]))
    nested = [form == "nested" or (form == "mixed" and draw(st.booleans())) for _ in items]
    nsteps = draw(st.integers(2, 4))
    steps = []
    for i in range(nsteps):
        pool = list(HISTORY_BUILD)
        if i > 0:
            pool += HISTORY_REFEED
        if any(nested):
            pool += HISTORY_COEF[: 2 + 2 * draw(st.integers(0, 1))]
        steps.append([draw(st.sampled_from(pool)), draw(st.integers(0, 3)), draw(st.integers(0, 3))])
    return {"kind": "alias_history", "items": items, "nested": nested, "steps": steps, "fresh_outer": draw(st.integers(0, 3)) == 0}


@st.composite
def xcorr_cases(draw):
    """fit_hyperparameters_cross_correlation(aberration_coefs=<aliases>) against the same call with the canonical
    dictionary.  Values bounded (|C| <= 1e3 A) so that every shift stays finite."""
    inv = {v[0]: k for k, v in R.ALIASES.items()}
    syms = draw(st.lists(st.sampled_from(R.POLAR_SYMBOLS), min_size=0, max_size=4, unique=True))
    forced = draw(st.sampled_from(["C10", "C10", "C10", "C12", "phi12", "C21", "phi21", "C30", "C50"]))
    if forced not in syms:
        syms.append(forced)
    items = []
    for s_ in syms:
        key = inv[s_] if (s_ in inv and (s_ == forced or draw(st.booleans()))) else s_
        v = draw(_ANGLES) if s_.startswith("phi") else draw(st.floats(-1e3, 1e3, allow_nan=False) | st.sampled_from([300.0, -50.0]))
        items.append([key, v])
    case = {
        "kind": "alias",
        "site": XCORR,
        "items": items,
        "rot": draw(st.none() | st.floats(-1.5, 1.5)),
        "method": draw(st.sampled_from(["reference", "pairwise"])),
        "regularize": draw(st.booleans()),
        "data_seed": draw(st.integers(0, 10**6)),
    }
    if draw(st.integers(0, 9)) == 0:
        case["unknown"] = [draw(st.sampled_from(_UNKNOWN_KEYS)), draw(st.integers(0, len(items)))]
    return case


def _no_dust(v):
    """Coefficient magnitudes below 1e-3 A become exactly 0: Hypothesis likes values such as 5e-282, whose products with
    alpha**n are subnormal, so that 'relative to the term scale' stops being meaningful (thorough-tier false alarm,
    DESIGN section 7).  Same floor as in history_cases."""
    return 0.0 if abs(v) < 1e-3 else v


@st.composite
def search_cases(draw):
    """grid_search_hyperparameters / optimize_hyperparameters with alias keys: values are either numbers (fixed)
    or {"low", "high", "n"} ranges (n grid points, or an Optuna range when n is None)."""
    mode = draw(st.sampled_from(SEARCH))
    inv = {v[0]: k for k, v in R.ALIASES.items()}
    forced = draw(st.sampled_from(["C10", "C10", "C10", "C12", "phi12", "C21", "C30"]))
    syms = draw(st.lists(st.sampled_from(["C10", "C12", "phi12", "C21", "phi21", "C23", "C30", "C32"]), min_size=0, max_size=2, unique=True))
    if forced not in syms:
        syms.append(forced)
    items = []
    combos = 1
    for s_ in syms:
        key = inv[s_] if (s_ in inv and (s_ == forced or draw(st.booleans()))) else s_
        if s_ == forced or draw(st.booleans()):
            if s_.startswith("phi"):
                lo = draw(st.floats(-1.5, 1.0))
                hi = lo + draw(st.floats(0.05, 1.0))
            else:
                lo = _no_dust(draw(st.floats(-500.0, 400.0) | st.sampled_from([100.0, -300.0, 0.0])))
                hi = lo + draw(st.floats(1.0, 300.0))
            n = None
            if mode == "grid_search":
                n = draw(st.integers(1, 3 if combos == 1 else 2))
                combos *= n
            items.append([key, {"low": lo, "high": hi, "n": n}])
        else:
            items.append([key, draw(_ANGLES) if s_.startswith("phi") else _no_dust(draw(st.floats(-500.0, 500.0)))])
    return {
        "kind": "alias",
        "site": mode,
        "items": items,
        "rot": draw(st.floats(-1.5, 1.5)),
        "data_seed": draw(st.integers(0, 10**6)),
        "sampler_seed": draw(st.integers(0, 10**6)),
    }


@st.composite
def fit_history_cases(draw):
    """One live DirectPtychography object on a synthetic vBF stack (every image = the same smooth object displaced
    exactly by the model-predicted shift of its detector pixel), driven through a short history of public
    hyper-parameter calls; every cross-correlation fit in the history must return the generating values."""
    d0, d1 = draw(st.integers(6, 9)), draw(st.integers(6, 9))
    radius = draw(st.floats(1.8, min(d0, d1) / 2.0 - 0.6))
    ss0 = draw(st.floats(0.3, 0.6))
    ss = [ss0, ss0 if draw(st.booleans()) else draw(st.floats(0.3, 0.6))]
    rs = draw(st.floats(0.06, 0.12))
    energy = draw(st.sampled_from([60e3, 80e3, 200e3, 300e3]))
    shift_px = draw(st.floats(1.5, 3.0))  # largest image displacement, in scan pixels
    c10 = draw(st.sampled_from([1.0, -1.0])) * shift_px * min(ss) / (radius * rs * _wavelength(energy))
    first = draw(st.sampled_from(["fit", "fit", "grid", "optuna"]))
    steps = [first, "fit"] + (["fit"] if draw(st.integers(0, 3)) == 0 else [])
    return {
        "kind": "fit_history",
        "det": [d0, d1],
        "radius": radius,
        "rs": rs,
        "scan": [draw(st.sampled_from([24, 28, 32])), draw(st.sampled_from([24, 28, 32]))],
        "ss": ss,
        "energy": energy,
        "data_seed": draw(st.integers(0, 10**6)),
        "C10": c10,
        "C12": abs(c10) * draw(st.floats(0.0, 0.4)),
        "phi12": draw(st.floats(-1.5, 1.5)),
        "rot": draw(st.floats(-1.0, 1.0)),
        "steps": steps,
        # per step: None = call without seeds (defaults), else multiplicative / additive error of the seeds passed
        "seeds": [draw(st.none() | st.tuples(st.floats(0.8, 1.2), st.floats(-0.2, 0.2)).map(list)) for _ in steps],
        "bin_factors": draw(st.sampled_from([[1], [2, 1], [3, 2, 1]])),
        "method": draw(st.sampled_from(["reference", "pairwise"])),
        "regularize": draw(st.booleans()),
        "upsample": draw(st.sampled_from([16, 32])),
        "sampler_seed": draw(st.integers(0, 10**6)),
    }


MASK_TYPES = ["disc", "annulus", "half_disc", "half_annulus", "wedge", "random"]
# largest condition number of the least-squares basis (k * lambda on the selected pixels) that is still called
# identifiable: the float32 error of the fit grows with it; TOL_FIT is measured under this cap
MAX_COND = 30.0


@st.composite
def bf_masks(draw, rmax):
    """Bright-field pixel sets: besides the full disc, sets that are not point-symmetric and do not contain (or do
    not start at) the optical-axis pixel -- half discs, half annuli, wedges, random subsets -- as sub-apertures
    and tilted illumination produce."""
    t = draw(st.sampled_from(MASK_TYPES + ["half_disc", "half_annulus", "wedge", "random"]))
    m = {"type": t}
    if t in ("annulus", "half_annulus"):
        m["rin"] = draw(st.floats(0.0, max(0.0, rmax - 1.5)))
    if t in ("half_disc", "half_annulus"):
        m["axis"] = draw(st.integers(0, 1))
        m["sign"] = draw(st.sampled_from([1, -1]))
        m["strict"] = draw(st.sampled_from([True, True, False]))
    if t == "wedge":
        m["phi0"] = draw(st.floats(-math.pi, math.pi))
        m["width"] = draw(st.floats(0.8, 3.0))
    if t == "random":
        m["p"] = draw(st.floats(0.25, 0.9))
        m["seed"] = draw(_SEEDS)
    m["drop_origin"] = draw(st.booleans())
    return m


@st.composite
def fit_cases(draw):
    n0 = draw(st.integers(6, 16))
    n1 = draw(st.integers(6, 16))
    rmax = min(n0, n1) / 2.0 - 1.0
    wide = draw(st.integers(0, 3)) == 0
    c10 = 10.0 ** draw(st.floats(0.0, 5.0)) * draw(st.sampled_from([1.0, -1.0]))
    ratio = draw(st.one_of(st.floats(0.0, 0.9), st.sampled_from([0.0, 0.5, 0.9])))
    return {
        "kind": "fit",
        "gpts": [n0, n1],
        "radius": draw(st.floats(1.0, max(1.0, rmax)) | st.just(max(1.0, rmax))),
        "mask": draw(bf_masks(rmax)),
        # dp: shifts from DirectPtychography._return_lateral_shifts on that mask; direct: shifts of the quadratic
        # model computed by the harness in float64 and handed to fit_aberrations_from_shifts as float32
        "mode": draw(st.sampled_from(["dp", "direct"])),
        "extra_seed": draw(st.none() | st.none() | _SEEDS),
        "rs": [10.0 ** draw(st.floats(-2.5, -1.0)), 10.0 ** draw(st.floats(-2.5, -1.0))]
        if draw(st.booleans())
        else [0.02, 0.02],
        "energy": draw(st.sampled_from([20e3, 60e3, 80e3, 200e3, 300e3]) | st.floats(2e4, 3e5)),
        "C10": c10,
        "C12": abs(c10) * ratio * draw(st.sampled_from([1.0, 1.0, -1.0])),
        "phi12": draw(_ANGLES),
        # identifiable branch: |rot| < pi/2 (kept 0.01 rad inside so that float32 rounding cannot legitimately
        # select the equivalent representation (rot +- pi, -A)); wide: any angle, judged on the shift field
        "rot": draw(st.floats(-math.pi, math.pi))
        if wide
        else draw(st.floats(-math.pi / 2 + 0.01, math.pi / 2 - 0.01) | st.sampled_from([0.0, 0.3, -1.2])),
        "wide": wide,
    }


# ------------------------------------------------------------------------------------------------
# judging helpers
# ------------------------------------------------------------------------------------------------
def _rel(a, b, scale):
    """max over points of |a-b| / scale, with 0/0 -> 0 and x/0 -> inf; NaN -> inf."""
    a = np.asarray(a, dtype=np.float64)
    b = np.asarray(b, dtype=np.float64)
    d = np.abs(a - b)
    # phases are in radians: an absolute difference below 1e-200 rad is not an observable difference (it only arises for
    # coefficient "dust" such as 5e-282 A, where intermediate products are subnormal and 'relative to the term scale' is
    # meaningless - thorough-tier false alarm, DESIGN section 7)
    d = np.where(d < 1e-200, 0.0, d)
    with np.errstate(divide="ignore", invalid="ignore"):
        r = np.where(d == 0.0, 0.0, d / scale)
    r = np.where(np.isnan(r), np.inf, r)
    i = int(np.argmax(r)) if r.size else 0
    return (float(r[i]) if r.size else 0.0), i


def _note(ctx, key, val):
    if val > ctx.extra.get(key, 0.0):
        ctx.extra[key] = val


def _t64(torch, v):
    return torch.tensor(float(v), dtype=torch.float64)


def _np(t):
    return t.detach().cpu().numpy().astype(np.float64)


def _grid(torch, case):
    """Evaluation points as float64 tensors; `shape` (optional) lays the same points out as a 2-D grid, the
    way the real callers pass (gpts, gpts) arrays.  Returned numpy coordinates are always flat."""
    ax, ay = R.points(case["pts_seed"], case["npts"])
    shape = tuple(case.get("shape") or (ax.size,))
    if int(np.prod(shape)) != ax.size:
        raise core.HarnessError("case shape %r does not hold %d points" % (shape, ax.size))
    tax = torch.tensor(ax, dtype=torch.float64).reshape(shape)
    tay = torch.tensor(ay, dtype=torch.float64).reshape(shape)
    return ax, ay, tax, tay, torch.sqrt(tax * tax + tay * tay), torch.atan2(tay, tax)


def _flat(case, t, shape, what, trailing=()):
    """numpy float64 copy of a quantem result, flattened over the point axes after checking its shape."""
    a = _np(t)
    if a.shape != tuple(shape) + tuple(trailing):
        raise core.Violation("%s has shape %s for points of shape %s" % (what, a.shape, tuple(shape)), case)
    return a.reshape((-1,) + tuple(trailing))


def _cart_vector(case, cart, labels):
    """Coefficient vector of a quantem Cartesian dict over `labels`; a non-zero coefficient under a label the
    fitting basis does not have means the two representations cannot describe the same function."""
    extra = [k for k, v in cart.items() if k not in labels and float(v) != 0.0]
    if extra:
        raise core.Violation(
            "polar_to_cartesian_aberrations produced non-zero coefficient(s) %r that ABERRATION_PRESETS['all'] does not contain"
            % extra,
            case,
        )
    return np.array([float(cart[k]) if k in cart else 0.0 for k in labels], dtype=np.float64)


def _origin_check(case, torch, cp, lam, cdict, labels):
    """At alpha = 0 the surface, every basis function and the gradient are 0 (all terms are O(alpha^2))."""
    z = torch.zeros(1, dtype=torch.float64)
    chi0 = _np(cp.aberration_surface(z, z, lam, cdict))
    b0 = _np(cp.aberration_surface_cartesian_basis(z, z, lam, labels))
    dx0, dy0 = cp.aberration_surface_cartesian_gradients(z, z, cdict)
    for name, v in (("aberration_surface", chi0), ("cartesian basis", b0), ("d/dx", _np(dx0)), ("d/dy", _np(dy0))):
        if not np.all(v == 0.0):
            raise core.Violation("%s is not 0 at alpha = 0: %r" % (name, v.ravel()[:6].tolist()), case)


# ------------------------------------------------------------------------------------------------
# kind: surface
# ------------------------------------------------------------------------------------------------
def _check_surface(ctx, case):
    torch, cp, du = _q()
    coefs = dict(case["coefs"])
    lam = float(case["wavelength"])
    delta = [(k, float(v)) for k, v in (case.get("delta") or [])]
    nz = [(n, m) for (n, m) in R.NM if float(coefs.get("C%d%d" % (n, m), 0.0)) != 0.0]
    orders = sorted({n for n, _ in nz})
    singleton = bool(case.get("singleton"))
    classes = ["surface", "ctype:" + case["ctype"], "regime:" + str(case.get("regime")), "n_terms:%d" % min(len(nz), 6)]
    classes += ["order:%d" % n for n in orders]
    classes += ["term:C%d%d" % t for t in nz]
    if delta:
        classes.append("merge")
    if singleton:
        classes.append("singleton:" + case["singleton"])
    ctx.record(case, bool(nz) and (singleton or len(orders) >= 2), classes)

    ax, ay, tax, tay, alpha, phi = _grid(torch, case)
    a_np = _np(alpha).ravel()
    shp = tuple(alpha.shape)
    if case["ctype"] == "tensor":
        cdict = {k: _t64(torch, v) for k, v in coefs.items()}
    else:
        cdict = {k: float(v) for k, v in coefs.items()}
    tdict = {k: _t64(torch, v) for k, v in coefs.items()}
    labels = None
    with ctx.sut(case, "ABERRATION_PRESETS['all']"):
        labels = list(du.ABERRATION_PRESETS["all"])
    if sorted(labels) != sorted(R.CART_LABELS):
        raise core.Violation(
            "the fitting basis 'all' is not the 25 Cartesian labels of orders 1..5: missing %r, extra %r"
            % (sorted(set(R.CART_LABELS) - set(labels)), sorted(set(labels) - set(R.CART_LABELS))),
            case,
        )

    S = R.scale_polar(a_np, lam, coefs)
    ref = R.surface_polar(ax, ay, lam, coefs)

    with ctx.sut(case, "aberration_surface"):
        chi = cp.aberration_surface(alpha, phi, lam, cdict)
    chi = _flat(case, chi, shp, "aberration_surface")

    # (1) Cartesian expansion of the converted coefficients is the polar surface
    with ctx.sut(case, "polar_to_cartesian_aberrations"):
        cart = cp.polar_to_cartesian_aberrations(tdict)
    cvec = _cart_vector(case, cart, labels)
    with ctx.sut(case, "aberration_surface_cartesian_basis"):
        B = cp.aberration_surface_cartesian_basis(alpha, phi, lam, labels)
    B = _flat(case, B, shp, "cartesian basis", (len(labels),))
    chi_cart = B @ cvec
    e1, i1 = _rel(chi_cart, chi, S)
    _note(ctx, "max_rel_err_basis_vs_polar", e1)
    if e1 > TOL64:
        raise core.Violation(
            "sum_i basis_i*polar_to_cartesian(c)_i != aberration_surface(c) at (ax, ay)=(%r, %r): %r vs %r "
            "(difference %.3g of the term scale; against the reference series: polar form off by %.3g, Cartesian form off by %.3g)"
            % (float(ax[i1]), float(ay[i1]), float(chi_cart[i1]), float(chi[i1]), e1, _rel(chi, ref, S)[0], _rel(chi_cart, ref, S)[0]),
            case,
        )

    # (2) polar -> Cartesian -> polar is the same function
    with ctx.sut(case, "cartesian_to_polar_aberrations(polar_to_cartesian_aberrations(c))"):
        polar2 = cp.cartesian_to_polar_aberrations(cart)
        chi2 = cp.aberration_surface(alpha, phi, lam, polar2)
    chi2 = _flat(case, chi2, shp, "aberration_surface")
    e2, i2 = _rel(chi2, chi, S)
    _note(ctx, "max_rel_err_roundtrip", e2)
    if e2 > TOL64:
        raise core.Violation(
            "aberration_surface(cartesian_to_polar(polar_to_cartesian(c))) != aberration_surface(c) at (ax, ay)=(%r, %r): "
            "%r vs %r (difference %.3g of the term scale); round-tripped coefficients %r"
            % (float(ax[i2]), float(ay[i2]), float(chi2[i2]), float(chi[i2]), e2, {k: float(v) for k, v in polar2.items() if float(v) != 0.0}),
            case,
        )

    # (2b) merging Cartesian deltas adds exactly their basis expansion
    if delta:
        dlabels = [k for k, _ in delta]
        dvec = np.array([v for _, v in delta], dtype=np.float64)
        ddict = {k: _t64(torch, v) for k, v in delta}
        before = {k: float(v) for k, v in tdict.items()}
        with ctx.sut(case, "merge_aberration_coefficients"):
            merged = cp.merge_aberration_coefficients(tdict, ddict)
            chi_m = cp.aberration_surface(alpha, phi, lam, merged)
            Bd = cp.aberration_surface_cartesian_basis(alpha, phi, lam, dlabels)
        chi_m = _flat(case, chi_m, shp, "aberration_surface")
        Bd = _flat(case, Bd, shp, "cartesian basis", (len(dlabels),))
        expect = chi + Bd @ dvec
        Sm = S + R.scale_cart(a_np, lam, dict(delta))
        e3, i3 = _rel(chi_m, expect, Sm)
        _note(ctx, "max_rel_err_merge", e3)
        if e3 > TOL64:
            raise core.Violation(
                "aberration_surface(merge(c, delta)) != aberration_surface(c) + sum_i basis_i*delta_i at (ax, ay)=(%r, %r): "
                "%r vs %r (difference %.3g of the term scale)" % (float(ax[i3]), float(ay[i3]), float(chi_m[i3]), float(expect[i3]), e3),
                case,
            )
        if {k: float(v) for k, v in tdict.items()} != before:
            raise core.Violation("merge_aberration_coefficients modified its input coefficients", case)

    # (3) analytic Cartesian gradient == wavelength * true gradient (torch autograd through aberration_surface)
    gx = tax.clone().requires_grad_(True)
    gy = tay.clone().requires_grad_(True)
    with ctx.sut(case, "aberration_surface (autograd pass)"):
        chig = cp.aberration_surface(torch.sqrt(gx * gx + gy * gy), torch.atan2(gy, gx), lam, cdict)
    if chig.requires_grad:
        ggx, ggy = torch.autograd.grad(chig.sum(), [gx, gy], allow_unused=True)
        ggx = np.zeros_like(ax) if ggx is None else _np(ggx).ravel()
        ggy = np.zeros_like(ax) if ggy is None else _np(ggy).ravel()
    else:  # surface does not depend on the point at all (no coefficient given)
        ggx = np.zeros_like(ax)
        ggy = np.zeros_like(ax)
    with ctx.sut(case, "aberration_surface_cartesian_gradients"):
        dx, dy = cp.aberration_surface_cartesian_gradients(alpha, phi, cdict)
    dx = _flat(case, dx, shp, "d(chi)/dx")
    dy = _flat(case, dy, shp, "d(chi)/dy")
    G = R.grad_scale_polar(a_np, coefs)
    for name, an, ag in (("x", dx, lam * ggx), ("y", dy, lam * ggy)):
        e4, i4 = _rel(an, ag, G)
        _note(ctx, "max_rel_err_gradient", e4)
        if e4 > TOL64:
            raise core.Violation(
                "analytic d(chi)/d(alpha_%s) != wavelength * autograd gradient of aberration_surface at (ax, ay)=(%r, %r): "
                "%r vs %r (difference %.3g of the term scale)" % (name, float(ax[i4]), float(ay[i4]), float(an[i4]), float(ag[i4]), e4),
                case,
            )

    with ctx.sut(case, "evaluation at alpha = 0"):
        _origin_check(case, torch, cp, lam, cdict, labels)
    target(min(1.0, max(e1, e2) / TOL64), label="surface_err")


# ------------------------------------------------------------------------------------------------
# kind: cart
# ------------------------------------------------------------------------------------------------
def _check_cart(ctx, case):
    torch, cp, du = _q()
    items = [(k, float(v)) for k, v in case["items"]]
    lam = float(case["wavelength"])
    nzl = [k for k, v in items if v != 0.0]
    orders = sorted({R.parse_label(k)[0] for k in nzl})
    singleton = bool(case.get("singleton"))
    classes = ["cart", "n_labels:%d" % min(len(nzl), 6)] + ["label:" + k for k in nzl]
    if singleton:
        classes.append("singleton:" + case["singleton"])
    ctx.record(case, bool(nzl) and (singleton or len(orders) >= 2), classes)

    ax, ay, tax, tay, alpha, phi = _grid(torch, case)
    a_np = _np(alpha).ravel()
    shp = tuple(alpha.shape)
    labels = [k for k, _ in items]
    vals = np.array([v for _, v in items], dtype=np.float64)
    tcart = {k: _t64(torch, v) for k, v in items}
    S = R.scale_cart(a_np, lam, dict(items))
    ref = R.surface_cart(ax, ay, lam, dict(items))

    with ctx.sut(case, "aberration_surface_cartesian_basis"):
        B = cp.aberration_surface_cartesian_basis(alpha, phi, lam, labels)
    B = _flat(case, B, shp, "cartesian basis", (len(labels),))
    # the columns follow the label list: each label alone gives the same column
    for j, lab in enumerate(labels):
        with ctx.sut(case, "aberration_surface_cartesian_basis([%r])" % lab):
            bj = cp.aberration_surface_cartesian_basis(alpha, phi, lam, [lab])
        bj = _flat(case, bj, shp, "cartesian basis", (1,))[:, 0]
        if not np.array_equal(bj, B[:, j]):
            raise core.Violation("basis column %d of %r is not the basis function of label %r evaluated alone" % (j, labels, lab), case)
    chi_cart = B @ vals

    with ctx.sut(case, "cartesian_to_polar_aberrations"):
        polar = cp.cartesian_to_polar_aberrations(tcart)
        chi = cp.aberration_surface(alpha, phi, lam, polar)
    chi = _flat(case, chi, shp, "aberration_surface")
    e1, i1 = _rel(chi, chi_cart, S)
    _note(ctx, "max_rel_err_cart_to_polar", e1)
    if e1 > TOL64:
        raise core.Violation(
            "aberration_surface(cartesian_to_polar(cart)) != sum_i basis_i*cart_i at (ax, ay)=(%r, %r): %r vs %r "
            "(difference %.3g of the term scale; against the reference series: polar form off by %.3g, Cartesian form off by %.3g); "
            "polar coefficients %r"
            % (float(ax[i1]), float(ay[i1]), float(chi[i1]), float(chi_cart[i1]), e1, _rel(chi, ref, S)[0], _rel(chi_cart, ref, S)[0],
               {k: float(v) for k, v in polar.items() if float(v) != 0.0}),
            case,
        )  # fmt: skip

    with ctx.sut(case, "polar_to_cartesian_aberrations(cartesian_to_polar_aberrations(cart))"):
        cart2 = cp.polar_to_cartesian_aberrations(polar)
        all_labels = list(du.ABERRATION_PRESETS["all"])
        Ball = cp.aberration_surface_cartesian_basis(alpha, phi, lam, all_labels)
    Ball = _flat(case, Ball, shp, "cartesian basis", (len(all_labels),))
    chi_rt = Ball @ _cart_vector(case, cart2, all_labels)
    e2, i2 = _rel(chi_rt, chi_cart, S)
    _note(ctx, "max_rel_err_cart_roundtrip", e2)
    if e2 > TOL64:
        raise core.Violation(
            "Cartesian -> polar -> Cartesian changes the function at (ax, ay)=(%r, %r): %r vs %r (difference %.3g of the term scale); "
            "round-tripped coefficients %r"
            % (float(ax[i2]), float(ay[i2]), float(chi_rt[i2]), float(chi_cart[i2]), e2, {k: float(v) for k, v in cart2.items() if float(v) != 0.0}),
            case,
        )
    target(min(1.0, max(e1, e2) / TOL64), label="cart_err")


# ------------------------------------------------------------------------------------------------
# kind: alias
# ------------------------------------------------------------------------------------------------
def _tiny_direct(torch, aberration_coefs):
    from quantem.core.datastructures import Dataset2d, Dataset3d
    from quantem.diffractive_imaging.direct_ptychography import DirectPtychography

    n = 6
    k = np.fft.fftfreq(n, 1.0 / n)
    mask = (k[:, None] ** 2 + k[None, :] ** 2) <= 1.5**2
    vbf = np.ones((int(mask.sum()), 4, 4), dtype=np.float32)
    vd = Dataset3d.from_array(vbf, name="vbf", units=("index", "A", "A"), sampling=(1, 1.0, 1.0))
    md = Dataset2d.from_array(mask, name="mask", units=("A^-1", "A^-1"), sampling=(0.02, 0.02))
    return DirectPtychography.from_virtual_bfs(
        vd, md, energy=80e3, rotation_angle=0.0, aberration_coefs=aberration_coefs,
        semiangle_cutoff=20.0, crop_bf_mask=False, verbose=False,
    )  # fmt: skip


def _split(items, nested, none_defocus=False):
    flat = {"energy": 80e3, "semiangle_cutoff": 20.0}
    if none_defocus:
        flat["defocus"] = None
    inner = {}
    for (k, v), nst in zip(items, nested):
        (inner if nst else flat)[k] = v
    if inner:
        flat["aberration_coefs"] = inner
    return flat


def _run_site(case, items, torch, cp):
    """Returns a list of (what, mapping canonical symbol -> python float, float precision of the storage)."""
    site = case["site"]
    d = {k: v for k, v in items}

    def fl(m):
        return {k: float(v) for k, v in m.items()}

    if site == "validate":
        from quantem.core.utils.validators import validate_aberration_coefficients

        return [("validate_aberration_coefficients", fl(validate_aberration_coefficients(d)), 64)]
    if site == "standardize":
        return [("standardize_aberration_coefs", fl(cp.standardize_aberration_coefs(d)), 32)]
    if site in ("probe_pixelated", "probe_parametric", "probe_reassign", "probe_check_params"):
        from quantem.diffractive_imaging.probe_models import ProbeParametric, ProbePixelated

        nested = case.get("nested") or [False] * len(items)
        pp = _split(items, nested, bool(case.get("none_defocus")))
        if site == "probe_parametric":
            pr = ProbeParametric.from_params(pp)
            return [
                ("ProbeParametric.probe_params['aberration_coefs']", fl(pr.probe_params["aberration_coefs"]), 64),
                ("ProbeParametric.aberration_coefs (learnable)", fl(pr.aberration_coefs), 32),
            ]
        if site == "probe_reassign":
            first = {"energy": 80e3, "semiangle_cutoff": 20.0, "C30": 1.0e7}
            if case.get("first_defocus") is not None:
                first["defocus"] = case["first_defocus"]
            pr = ProbePixelated.from_params(first)
            pr.probe_params = pp
            return [("probe_params['aberration_coefs'] after re-assignment", fl(pr.probe_params["aberration_coefs"]), 64)]
        pr = ProbePixelated.from_params(pp)
        if site == "probe_check_params":
            import contextlib
            import io

            with contextlib.redirect_stdout(io.StringIO()):
                pr.check_probe_params()
            res = fl(pr.probe_params["aberration_coefs"])
            res["__defocus__"] = pr.probe_params["defocus"]
            return [("probe_params after check_probe_params", res, 64)]
        return [("ProbePixelated.probe_params['aberration_coefs']", fl(pr.probe_params["aberration_coefs"]), 64)]
    if site == "direct_init":
        dp = _tiny_direct(torch, d)
        return [("DirectPtychography.aberration_coefs", fl(dp.aberration_coefs), 64)]
    if site == "direct_override":
        dp = _tiny_direct(torch, {})
        return [("HyperparameterState.current_aberrations(override)", fl(dp.hyperparameter_state.current_aberrations(d)), 64)]
    if site == "state_keys":
        # names only: HyperparameterState canonicalises the set of optimised keys through the same validator
        from quantem.diffractive_imaging.direct_ptychography import HyperparameterState

        st_ = HyperparameterState(optimized_keys=set(d) | {"rotation_angle"})
        keys = set(st_.optimized_keys)
        if "rotation_angle" not in keys:
            raise core.Violation("HyperparameterState dropped 'rotation_angle' from optimized_keys: %r" % sorted(keys), case)
        return [("HyperparameterState.optimized_keys", {k: None for k in keys - {"rotation_angle"}}, 0)]
    if site == XCORR:
        dp = _noise_direct(case)
        dp.fit_hyperparameters_cross_correlation(
            aberration_coefs=d, rotation_angle=case.get("rot"), bin_factors=(1,),
            alignment_method=case.get("method", "reference"), regularize_shifts=bool(case.get("regularize", True)),
            verbose=False,
        )  # fmt: skip
        res = fl(dp.hyperparameter_state.optimized_aberrations)
        res["rotation_angle"] = float(dp.hyperparameter_state.optimized_rotation_angle)
        return [("fit_hyperparameters_cross_correlation", res, 32)]
    if site in SEARCH:
        from quantem.diffractive_imaging.direct_ptychography import OptimizationParameter

        dp = _noise_direct(case)
        coefs = {}
        for k, v in items:
            if isinstance(v, dict):
                coefs[k] = OptimizationParameter(low=v["low"], high=v["high"], n_points=v.get("n"))
            else:
                coefs[k] = v
        if site == "grid_search":
            dp.grid_search_hyperparameters(aberration_coefs=coefs, rotation_angle=case.get("rot"), verbose=False)
        else:
            import optuna

            optuna.logging.set_verbosity(optuna.logging.ERROR)
            dp.optimize_hyperparameters(
                aberration_coefs=coefs, rotation_angle=case.get("rot"), n_trials=2,
                sampler=optuna.samplers.TPESampler(seed=int(case.get("sampler_seed", 0))), verbose=False,
            )  # fmt: skip
        return [(site, dict(dp.aberration_coefs), 64)]
    raise core.HarnessError("unknown alias site %r" % site)


def _noise_direct(case):
    from quantem.core.datastructures import Dataset2d, Dataset3d
    from quantem.diffractive_imaging.direct_ptychography import DirectPtychography

    n = 6
    k = np.fft.fftfreq(n, 1.0 / n)
    mask = (k[:, None] ** 2 + k[None, :] ** 2) <= 1.0
    rng = np.random.default_rng(int(case.get("data_seed", 0)))
    vbf = (1.0 + 0.1 * rng.standard_normal((int(mask.sum()), 8, 8))).astype(np.float32)
    vd = Dataset3d.from_array(vbf, name="vbf", units=("index", "A", "A"), sampling=(1, 0.5, 0.5))
    md = Dataset2d.from_array(mask, name="mask", units=("A^-1", "A^-1"), sampling=(0.02, 0.02))
    return DirectPtychography.from_virtual_bfs(
        vd, md, energy=80e3, rotation_angle=0.0, aberration_coefs={}, semiangle_cutoff=20.0,
        crop_bf_mask=False, verbose=False,
    )  # fmt: skip


def _check_search(ctx, case, items, torch, cp):
    """After a hyper-parameter search over alias keys, the coefficient dictionary in force (what every later
    reconstruction evaluates) must mean what the alias rule says: (a) evaluated by quantem's aberration_surface
    it is the surface of its own alias-resolved form, (b) that form is one of the searched candidates."""
    site = case["site"]
    with ctx.sut(case, site):
        state = _run_site(case, items, torch, cp)[0][1]
    try:
        meaning = R.canonical([(k, float(v)) for k, v in state.items()])
    except KeyError as e:
        raise core.Violation("%s left the unknown key %s in aberration_coefs %r" % (site, e, state), case)
    lam = 0.0418
    ax, ay = R.points(7, 16)
    tax = torch.tensor(ax, dtype=torch.float64)
    tay = torch.tensor(ay, dtype=torch.float64)
    with ctx.sut(case, "aberration_surface(state after %s)" % site):
        chi = _np(cp.aberration_surface(torch.sqrt(tax * tax + tay * tay), torch.atan2(tay, tax), lam, {k: float(v) for k, v in state.items()}))
    ref = R.surface_polar(ax, ay, lam, meaning)
    e, i = _rel(chi, ref, R.scale_polar(np.hypot(ax, ay), lam, meaning))
    if e > TOL64:
        raise core.Violation(
            "after %s(aberration_coefs=%r) the coefficients in force are %r: evaluated by aberration_surface they are not the "
            "surface of %r (alias keys are ignored by the surface; difference %.3g of the term scale)"
            % (site, dict(items), state, meaning, e),
            case,
        )
    # (b) candidates
    for k, v in items:
        (sym, sign), = [R.ALIASES.get(k, (k, 1.0))]
        got = meaning.get(sym)
        if got is None:
            raise core.Violation("after %s the searched/fixed coefficient %r (%s) is missing from %r" % (site, k, sym, state), case)
        if isinstance(v, dict):
            lo, hi = sorted((sign * v["low"], sign * v["high"]))
            if v.get("n"):
                cands = [sign * float(x) for x in np.linspace(v["low"], v["high"], int(v["n"]))]
                ok = any(math.isclose(got, c, rel_tol=1e-12, abs_tol=1e-12) for c in cands)
            else:
                ok = lo - 1e-9 <= got <= hi + 1e-9
            if not ok:
                raise core.Violation("after %s, %s=%r is not among the searched values of %r=%r" % (site, sym, got, k, v), case)
        elif not math.isclose(got, sign * float(v), rel_tol=1e-12, abs_tol=0.0):
            raise core.Violation("after %s, fixed %s=%r became %s=%r" % (site, k, v, sym, got), case)


def _check_alias(ctx, case):
    torch, cp, du = _q()
    site = case["site"]
    items = [(k, v) for k, v in case["items"]]
    expected = R.canonical([(k, (v["low"] if isinstance(v, dict) else v)) for k, v in items])
    unknown = case.get("unknown")
    has_defocus = any(k == "defocus" for k, _ in items)
    n_alias = sum(1 for k, _ in items if k in R.ALIASES)
    classes = ["alias", "site:" + site, "defocus" if has_defocus else "no_defocus", "n_alias:%d" % min(n_alias, 3)]
    if unknown:
        classes.append("unknown_key")
    if any(case.get("nested") or []):
        classes.append("nested")
    if case.get("none_defocus"):
        classes.append("defocus_slot_None")
    nontrivial = bool(unknown) or n_alias > 0 or site == "probe_check_params"
    ctx.record(case, nontrivial, classes)

    if unknown:
        key, pos = unknown
        bad = list(items)
        bad.insert(min(pos, len(bad)), (key, 1.0))
        sub = dict(case)
        if "nested" in sub:  # the unknown key goes to the top level, where the setter validates keys
            nst = list(sub["nested"])
            nst.insert(min(pos, len(nst)), False)
            sub["nested"] = nst
        try:
            with ctx.sut(case, site, legal=(KeyError, ValueError, TypeError)):
                results = _run_site(sub, bad, torch, cp)
        except (KeyError, ValueError, TypeError):
            return
        raise core.Violation(
            "%s accepted the unknown coefficient key %r silently (result %r)"
            % (site, key, {k: v for k, v in results[0][1].items() if v}),
            case,
        )

    if site in SEARCH:
        return _check_search(ctx, case, items, torch, cp)
    if site == XCORR:
        # the alias dictionary and its canonical form are the same coefficients: the whole fit must agree.  Both
        # runs start from identical fresh objects and are deterministic (single thread), so agreement is
        # expected bit for bit; 1e-6 of the largest value is allowed, the effects looked for are O(1).
        canon_items = list(expected.items())
        with ctx.sut(case, "fit_hyperparameters_cross_correlation(aliases)"):
            ra = _run_site(case, items, torch, cp)[0][1]
        with ctx.sut(case, "fit_hyperparameters_cross_correlation(canonical)"):
            rc = _run_site(case, canon_items, torch, cp)[0][1]
        if not all(math.isfinite(v) for v in rc.values()):
            ctx.count("xcorr_fit:nonfinite_not_judged")
            return
        big = max(abs(v) for v in rc.values()) or 1.0
        if set(ra) != set(rc) or any(not abs(ra[k] - rc[k]) <= 1e-6 * big for k in rc):
            raise core.Violation(
                "fit_hyperparameters_cross_correlation(aberration_coefs=%r) fitted %r, but with the canonical form %r of the "
                "same coefficients it fitted %r" % (dict(items), ra, dict(canon_items), rc),
                case,
            )
        return

    with ctx.sut(case, site):
        results = _run_site(case, items, torch, cp)

    for what, res, prec in results:
        if prec == 0:  # names only
            if set(res) != set(expected):
                raise core.Violation("%s: keys %r became %r, expected %r" % (what, [k for k, _ in items], sorted(res), sorted(expected)), case)
            continue

        def same(got, want):
            if prec == 32:
                return math.isclose(got, float(np.float32(want)), rel_tol=1e-6, abs_tol=0.0)
            return got == want

        if site == "probe_check_params":
            dfc = res.pop("__defocus__")
            if dfc is None or float(dfc) != -expected["C10"]:
                raise core.Violation("check_probe_params reports defocus=%r for C10=%r (expected defocus = -C10)" % (dfc, expected["C10"]), case)
        for sym, want in expected.items():
            if sym not in res:
                if want == 0.0:
                    continue
                raise core.Violation("%s: %r missing from the canonical coefficients %r (input %r)" % (what, sym, res, items), case)
            if not same(res[sym], want):
                src = [k for k, _ in items if R.canonical([(k, 0.0)]).keys() == {sym}][0]
                raise core.Violation("%s: %s=%r became %s=%r, expected %r" % (what, src, dict(items)[src], sym, res[sym], want), case)
        if site != "probe_reassign":  # what a second assignment keeps from the first is not part of the claim
            for sym, got in res.items():
                if sym not in expected and sym in R.POLAR_SYMBOLS and got != 0.0:
                    raise core.Violation("%s: coefficient %s=%r appeared although it was not given (input %r)" % (what, sym, got, items), case)


# ------------------------------------------------------------------------------------------------
# kind: alias_history
# ------------------------------------------------------------------------------------------------
def _judge_coefs(case, what, res, prec, expected, items):
    """`res` (symbol -> float) carries exactly the meaning `expected`: every expected symbol with its value, no other
    symbol non-zero."""
    for sym, want in expected.items():
        got = res.get(sym)
        if got is None:
            if want == 0.0:
                continue
            raise core.Violation("%s: %s is missing (expected %r) from %r; input %r" % (what, sym, want, {k: v for k, v in res.items() if v}, items), case)
        ok = math.isclose(got, float(np.float32(want)), rel_tol=1e-6, abs_tol=0.0) if prec == 32 else got == want
        if not ok:
            raise core.Violation("%s: %s=%r, expected %r; input %r" % (what, sym, got, want, items), case)
    for sym, got in res.items():
        if sym not in expected and sym in R.POLAR_SYMBOLS and got != 0.0:
            raise core.Violation("%s: coefficient %s=%r appeared although it was not given; input %r" % (what, sym, got, items), case)


def _check_history(ctx, case):
    torch, cp, du = _q()
    from quantem.core.utils.validators import validate_aberration_coefficients
    from quantem.diffractive_imaging.probe_models import ProbeDIP, ProbeParametric, ProbePixelated

    items = [(k, v) for k, v in case["items"]]
    nested = list(case["nested"])
    steps = [tuple(st_) for st_ in case["steps"]]
    E = R.canonical(items)  # meaning of the whole params dictionary
    EN = R.canonical([it for it, n in zip(items, nested) if n])  # meaning of its nested coefficient dictionary
    n_alias = sum(1 for k, _ in items if k in R.ALIASES)
    shared_uses = sum(1 for op, _, _ in steps if op in HISTORY_BUILD or op in HISTORY_COEF)
    classes = ["alias_history", "history_form:" + ("nested" if all(nested) else "flat" if not any(nested) else "mixed")]
    classes += ["history_op:" + op for op, _, _ in steps]
    if shared_uses >= 2:
        classes.append("history_same_dict_used_twice")
    if any(op in HISTORY_REFEED for op, _, _ in steps):
        classes.append("history_refeed")
    ctx.record(case, n_alias > 0 and len(steps) >= 2 and (shared_uses >= 2 or "history_refeed" in classes), classes)

    # the caller's objects: built once, reused by every step
    c = {k: v for (k, v), n in zip(items, nested) if n}

    def outer():
        d_ = {"energy": 80e3, "semiangle_cutoff": 20.0}
        d_.update({k: v for (k, v), n in zip(items, nested) if not n})
        if c or any(nested):
            d_["aberration_coefs"] = c
        return d_

    d = outer()
    models = []  # (label, model)
    reassigned = set()
    lam = 0.0418
    ax, ay = R.points(11, 12)
    tax = torch.tensor(ax, dtype=torch.float64)
    tay = torch.tensor(ay, dtype=torch.float64)
    alpha, phi = torch.sqrt(tax * tax + tay * tay), torch.atan2(tay, tax)
    ref = R.surface_polar(ax, ay, lam, E)
    S = R.scale_polar(np.hypot(ax, ay), lam, E)
    arr = np.ones((4, 4), dtype=np.complex64)

    def judge_models(after):
        for label, mdl in models:
            what = "%s (after step %s)" % (label, after)
            with ctx.sut(case, what):
                coefs = {k: float(v) for k, v in mdl.probe_params["aberration_coefs"].items()}
                chi = _np(cp.aberration_surface(alpha, phi, lam, coefs))
            _judge_coefs(case, what + ": probe_params['aberration_coefs']", coefs, 64, E, items)
            # the learnable copies are made at construction; a later probe_params assignment does not rebuild them
            # (not part of the claim), so they are only judged on models that were never re-assigned
            if isinstance(mdl, ProbeParametric) and id(mdl) not in reassigned:
                with ctx.sut(case, what):
                    learned = {k: float(v) for k, v in mdl.aberration_coefs.items()}
                _judge_coefs(case, what + ": learnable aberration_coefs", learned, 32, E, items)
            e, _i = _rel(chi, ref, S)
            if e > TOL64:
                raise core.Violation("%s: aberration surface of the stored coefficients is off by %.3g of the term scale" % (what, e), case)

    for si, (op, j, k2) in enumerate(steps):
        tag = "%d:%s" % (si + 1, op)
        dd = outer() if case.get("fresh_outer") else d  # the nested dictionary `c` is the same object either way
        if op in HISTORY_REFEED and not models:
            op = "parametric_from_params"
        with ctx.sut(case, "history step " + tag):
            if op == "pixelated_from_params":
                models.append((tag, ProbePixelated.from_params(dd)))
            elif op == "parametric_from_params":
                models.append((tag, ProbeParametric.from_params(dd)))
            elif op == "pixelated_from_array":
                models.append((tag, ProbePixelated.from_array(arr.copy(), probe_params=dd)))
            elif op == "dip_from_model":
                models.append((tag, ProbeDIP.from_model(torch.nn.Identity(), probe_params=dd, roi_shape=(4, 4))))
            elif op == "setter":
                if not models:
                    base = {"energy": 80e3, "semiangle_cutoff": 20.0}
                    models.append((tag, (ProbeParametric if j % 2 else ProbePixelated).from_params(base)))
                reassigned.add(id(models[j % len(models)][1]))
                models[j % len(models)][1].probe_params = dd
            elif op == "refeed_parametric":
                models.append((tag, ProbeParametric.from_params(models[j % len(models)][1].probe_params)))
            elif op == "refeed_pixelated_array":
                models.append((tag, ProbePixelated.from_array(arr.copy(), probe_params=models[j % len(models)][1].probe_params)))
            elif op == "refeed_dip":
                src = models[j % len(models)][1]
                if isinstance(src, ProbePixelated) and hasattr(src, "_probe") and hasattr(src, "_roi_shape"):
                    models.append((tag, ProbeDIP.from_pixelated(torch.nn.Identity(), src)))
                else:
                    models.append((tag, ProbeDIP.from_model(torch.nn.Identity(), probe_params=src.probe_params, roi_shape=(4, 4))))
            elif op == "refeed_setter":
                reassigned.add(id(models[k2 % len(models)][1]))
                models[k2 % len(models)][1].probe_params = models[j % len(models)][1].probe_params
            elif op == "validate":
                _judge_coefs(case, "validate_aberration_coefficients (step %s)" % tag, {k: float(v) for k, v in validate_aberration_coefficients(c).items()}, 64, EN, items)
            elif op == "standardize":
                _judge_coefs(case, "standardize_aberration_coefs (step %s)" % tag, {k: float(v) for k, v in cp.standardize_aberration_coefs(c).items()}, 32, EN, items)
            elif op == "direct_init":
                _judge_coefs(case, "DirectPtychography.aberration_coefs (step %s)" % tag, {k: float(v) for k, v in _tiny_direct(torch, c).aberration_coefs.items()}, 64, EN, items)
            elif op == "direct_override":
                res = _tiny_direct(torch, {}).hyperparameter_state.current_aberrations(c)
                _judge_coefs(case, "current_aberrations(override) (step %s)" % tag, {k: float(v) for k, v in res.items()}, 64, EN, items)
            else:
                raise core.HarnessError("unknown history op %r" % op)
        # after EVERY use: every model built so far still carries the meaning of the dictionary it was built from
        judge_models(tag)


# ------------------------------------------------------------------------------------------------
# kind: fit
# ------------------------------------------------------------------------------------------------
def _wavelength(energy):
    """relativistic electron wavelength [A] (CODATA constants), for the harness's own forward model."""
    m, e, c, h = 9.1093837015e-31, 1.602176634e-19, 299792458.0, 6.62607015e-34
    return h / math.sqrt(2 * m * e * energy * (1 + e * energy / (2 * m * c * c))) * 1e10


def _check_fit_history(ctx, case):
    torch, cp, du = _q()
    from quantem.core.datastructures import Dataset2d, Dataset3d
    from quantem.diffractive_imaging.direct_ptychography import DirectPtychography, OptimizationParameter

    C10, C12, phi12, rot = (float(case[k]) for k in ("C10", "C12", "phi12", "rot"))
    steps = list(case["steps"])
    nfit = steps.count("fit")
    classes = ["fit_history", "fit_history:" + "->".join(steps), "fit_history_method:" + case["method"]]
    if steps[0] != "fit":
        classes.append("fit_history_optimise_then_fit")
    if nfit >= 2:
        classes.append("fit_history_fit_then_fit")
    ctx.record(case, len(steps) >= 2 and nfit >= 1 and C12 != 0.0, classes)

    # synthetic stack (harness model, float64): image i = object displaced by -s_i, s = A R(rot) k lambda
    d0, d1 = case["det"]
    rs = float(case["rs"])
    ss = [float(v) for v in case["ss"]]
    scan = tuple(int(v) for v in case["scan"])
    lam = _wavelength(float(case["energy"]))
    K0, K1 = np.meshgrid(np.fft.fftfreq(d0, 1.0 / d0), np.fft.fftfreq(d1, 1.0 / d1), indexing="ij")
    mask = (K0 * K0 + K1 * K1) <= float(case["radius"]) ** 2  # point-symmetric disc
    a, b, c = R.abc(C10, C12, phi12)
    kx, ky = K0[mask] * rs * lam, K1[mask] * rs * lam
    rx = kx * math.cos(rot) - ky * math.sin(rot)
    ry = kx * math.sin(rot) + ky * math.cos(rot)
    sx, sy = a * rx + b * ry, b * rx + c * ry
    rng = np.random.default_rng(int(case["data_seed"]))
    QX, QY = np.meshgrid(np.fft.fftfreq(scan[0], ss[0]), np.fft.fftfreq(scan[1], ss[1]), indexing="ij")
    O = np.fft.fft2(rng.normal(size=scan)) * np.exp(-(QX**2 + QY**2) / (2 * 0.25**2))
    O[0, 0] = 0
    o = np.fft.ifft2(O).real
    Oh = np.fft.fft2(1.0 + 0.2 * o / np.abs(o).max())
    stack = np.stack(
        [np.fft.ifft2(Oh * np.exp(2j * np.pi * (QX * sx[i] + QY * sy[i]))).real for i in range(int(mask.sum()))]
    ).astype(np.float32)
    vd = Dataset3d.from_array(stack, name="vbf", units=("index", "A", "A"), sampling=(1, ss[0], ss[1]))
    md = Dataset2d.from_array(mask, name="mask", units=("A^-1", "A^-1"), sampling=(rs, rs))
    with ctx.sut(case, "DirectPtychography.from_virtual_bfs"):
        dp = DirectPtychography.from_virtual_bfs(
            vd, md, energy=float(case["energy"]), rotation_angle=0.0, aberration_coefs={},
            semiangle_cutoff=20.0, crop_bf_mask=False, verbose=False,
        )  # fmt: skip

    done = []
    for i, (op, seed) in enumerate(zip(steps, case["seeds"])):
        done.append(op)
        if op == "fit":
            kw = dict(
                bin_factors=tuple(case["bin_factors"]), alignment_method=case["method"],
                regularize_shifts=bool(case["regularize"]), dft_upsample_factor=int(case["upsample"]), verbose=False,
            )  # fmt: skip
            if seed is not None:
                kw.update(aberration_coefs={"C10": C10 * float(seed[0])}, rotation_angle=rot + float(seed[1]))
            with ctx.sut(case, "fit_hyperparameters_cross_correlation (step %d of %s)" % (i + 1, "->".join(steps))):
                dp.fit_hyperparameters_cross_correlation(**kw)
                co = {k: float(v) for k, v in dp.aberration_coefs.items()}
                frot = float(dp.rotation_angle)
            fa, fb, fc = R.abc(co.get("C10", 0.0), co.get("C12", 0.0), co.get("phi12", 0.0))
            ea = max(abs(fa - a), abs(fb - b), abs(fc - c)) / (abs(C10) + abs(C12))
            er = abs(frot - rot)
            _note(ctx, "max_err_e2e_fit", max(ea, er))
            if not (ea <= TOL_E2E and er <= TOL_E2E):
                raise core.Violation(
                    "history %s on one DirectPtychography object: cross-correlation fit number %d (step %d) of a stack displaced by "
                    "the model shifts of C10=%.6g C12=%.6g phi12=%.4g rotation=%.4g returned %r, rotation %.4g "
                    "(aberration matrix off by %.3g relative, rotation off by %.3g rad)"
                    % ("->".join(done), done.count("fit"), i + 1, C10, C12, phi12, rot, co, frot, ea, er),
                    case,
                )
        else:
            lo, hi = sorted((0.5 * C10, 1.5 * C10))
            with ctx.sut(case, "%s (step %d)" % (op, i + 1)):
                if op == "grid":
                    dp.grid_search_hyperparameters(
                        aberration_coefs={"C10": OptimizationParameter(lo, hi, n_points=2)}, rotation_angle=rot + 0.1, verbose=False
                    )
                else:
                    import optuna

                    optuna.logging.set_verbosity(optuna.logging.ERROR)
                    dp.optimize_hyperparameters(
                        aberration_coefs={"C10": OptimizationParameter(lo, hi)}, rotation_angle=rot + 0.1, n_trials=2,
                        sampler=optuna.samplers.TPESampler(seed=int(case["sampler_seed"])), verbose=False,
                    )  # fmt: skip


def _bf_mask(case):
    """The bright-field pixel set of a fit case (corner-centred, like quantem's bf_mask) and its classes.  When the
    drawn set does not determine the 2x2 matrix well (fewer than 4 pixels, or the least-squares basis k*lambda has
    a condition number above MAX_COND), pixels are added by construction: first the half disc of the same radius on
    the side of the set's centroid, then the full disc."""
    n0, n1 = case["gpts"]
    rs0, rs1 = (float(v) for v in case["rs"])
    K0, K1 = np.meshgrid(np.fft.fftfreq(n0, 1.0 / n0), np.fft.fftfreq(n1, 1.0 / n1), indexing="ij")
    r2 = K0 * K0 + K1 * K1
    Rr = float(case["radius"])
    disc = r2 <= Rr * Rr
    m = case.get("mask") or {"type": "disc"}
    t = m["type"]
    mask = disc.copy()
    if t in ("annulus", "half_annulus"):
        mask &= r2 > float(m["rin"]) ** 2
    if t in ("half_disc", "half_annulus"):
        K = K0 if int(m["axis"]) == 0 else K1
        mask &= (K * int(m["sign"]) > 0) if m.get("strict", True) else (K * int(m["sign"]) >= 0)
    if t == "wedge":
        d = np.angle(np.exp(1j * (np.arctan2(K1, K0) - float(m["phi0"]))))
        mask &= (np.abs(d) <= float(m["width"]) / 2) & (r2 > 0)
    if t == "random":
        mask &= np.random.default_rng(int(m["seed"])).random((n0, n1)) < float(m["p"])
    if case.get("extra_seed") is not None:
        mask |= np.random.default_rng(int(case["extra_seed"])).random((n0, n1)) < 0.15
    if m.get("drop_origin"):
        mask[0, 0] = False

    def cond(mk):
        if mk.sum() < 4:
            return float("inf")
        sv = np.linalg.svd(np.stack([K0[mk] * rs0, K1[mk] * rs1], 1), compute_uv=False)
        return float(sv[0] / sv[-1]) if sv[-1] > 0 else float("inf")

    fallback = None
    if cond(mask) > MAX_COND:
        c0 = float(K0[mask].sum()) if mask.any() else 1.0
        c1 = float(K1[mask].sum()) if mask.any() else 0.0
        big = r2 <= max(Rr, 2.0) ** 2
        half = big & ((K0 * c0 + K1 * c1) > 0) if (c0 or c1) else big & (K0 > 0)
        mask = mask | half
        fallback = "half_disc_added"
        if cond(mask) > MAX_COND:
            mask = mask | big
            fallback = "disc_added"
            if m.get("drop_origin"):
                mask[0, 0] = False
    cnd = cond(mask)
    sym = bool(np.array_equal(mask, np.roll(mask[::-1, ::-1], (1, 1), (0, 1))))
    first_is_axis = bool(mask[0, 0])
    classes = [
        "mask:" + t,
        "mask_point_symmetric" if sym else "mask_not_point_symmetric",
        "mask_first_pixel_is_axis" if first_is_axis else "mask_first_pixel_off_axis",
    ]
    if not sym and not first_is_axis:
        classes.append("mask_asymmetric_and_off_axis")
    if fallback:
        classes.append("mask_" + fallback)
    return mask, cnd, classes, K0, K1


def _check_fit(ctx, case):
    torch, cp, du = _q()
    from quantem.core.datastructures import Dataset2d, Dataset3d
    from quantem.diffractive_imaging.direct_ptychography import DirectPtychography

    n0, n1 = case["gpts"]
    C10, C12, phi12, rot = float(case["C10"]), float(case["C12"]), float(case["phi12"]), float(case["rot"])
    mode = case.get("mode", "dp")
    mask, cnd, mclasses, K0, K1 = _bf_mask(case)
    usable = cnd <= MAX_COND  # false only when even the full disc is ill-conditioned (extreme anisotropy)
    identifiable = usable and abs(C12) < abs(C10) and abs(rot) < math.pi / 2 - 0.005
    classes = [
        "fit",
        "fit_mode:" + mode,
        "identifiable" if identifiable else "field_only",
        "C10>0" if C10 > 0 else "C10<0",
        "square" if n0 == n1 and case["rs"][0] == case["rs"][1] else "anisotropic_grid",
    ] + mclasses
    if not usable:
        classes.append("fit_ill_conditioned_not_judged")
    ctx.record(case, usable and C12 != 0.0, classes)
    if not usable:
        return

    gen = {"C10": C10, "C12": C12, "phi12": phi12}
    rs = tuple(float(v) for v in case["rs"])
    tmask = torch.tensor(mask)

    def forward64(c10, c12, p12, th, lam):
        """harness model of the shifts: s = A R(th) k lambda with A = [[a, b], [b, c]], R = [[cos, -sin], [sin, cos]]."""
        a, b, c = R.abc(c10, c12, p12)
        kx = K0[mask] * rs[0] * lam
        ky = K1[mask] * rs[1] * lam
        rx = kx * math.cos(th) - ky * math.sin(th)
        ry = kx * math.sin(th) + ky * math.cos(th)
        return np.stack([a * rx + b * ry, b * rx + c * ry], 1)

    if mode == "dp":
        vbf = np.ones((int(mask.sum()), 4, 4), dtype=np.float32)
        vd = Dataset3d.from_array(vbf, name="vbf", units=("index", "A", "A"), sampling=(1, 1.0, 1.0))
        md = Dataset2d.from_array(mask, name="mask", units=("A^-1", "A^-1"), sampling=rs)
        with ctx.sut(case, "DirectPtychography.from_virtual_bfs"):
            dp = DirectPtychography.from_virtual_bfs(
                vd, md, energy=float(case["energy"]), rotation_angle=0.0, aberration_coefs={},
                semiangle_cutoff=20.0, crop_bf_mask=False, verbose=False,
            )  # fmt: skip
        lam, gpts, sampling, bfm = dp.wavelength, dp.gpts, dp.sampling, dp.bf_mask
        if not np.array_equal(_np(bfm) != 0, mask):
            raise core.HarnessError("DirectPtychography changed the mask although crop_bf_mask=False")

        def predict(c10, c12, p12, th):
            return dp._return_lateral_shifts(th, {"C10": c10, "C12": c12, "phi12": p12}, bfm)

        with ctx.sut(case, "_return_lateral_shifts"):
            shifts = predict(C10, C12, phi12, rot)
    else:
        lam = _wavelength(float(case["energy"]))
        gpts = (n0, n1)
        sampling = tuple(1.0 / (rs[i] * gpts[i]) for i in range(2))
        bfm = tmask

        def predict(c10, c12, p12, th):
            return torch.tensor(forward64(c10, c12, p12, th, lam), dtype=torch.float32)

        shifts = predict(C10, C12, phi12, rot)
    with ctx.sut(case, "fit_aberrations_from_shifts"):
        fit = du.fit_aberrations_from_shifts(shifts, bfm, lam, gpts, sampling)
    for k in ("C10", "C12", "phi12", "rotation_angle"):
        if k not in fit or not math.isfinite(float(fit[k])):
            raise core.Violation("fit_aberrations_from_shifts returned %r" % (fit,), case)
    f10, f12, fphi, frot = (float(fit[k]) for k in ("C10", "C12", "phi12", "rotation_angle"))

    # representation-independent: the fitted parameters predict the shift field they were fitted to
    with ctx.sut(case, "_return_lateral_shifts (refitted parameters)"):
        shifts2 = predict(f10, f12, fphi, frot)
    s1 = _np(shifts)
    s2 = _np(shifts2)
    smax = float(np.max(np.abs(s1)))
    ef = float(np.max(np.abs(s1 - s2))) / smax if smax > 0 else 0.0
    _note(ctx, "max_rel_err_fit_field", ef)
    definite = abs(C12) < abs(C10)
    if definite and not ef <= TOL_FIT:
        raise core.Violation(
            "shifts predicted from the fitted parameters %r differ from the shifts that were fitted (generated by %r, rotation %r, "
            "%d bright-field pixels, mask %r): max difference %.3g of the largest shift"
            % (fit, gen, rot, int(mask.sum()), case.get("mask"), ef),
            case,
        )
    if identifiable:
        a, b, c = R.abc(C10, C12, phi12)
        fa, fb, fc = R.abc(f10, f12, fphi)
        amax = abs(C10) + abs(C12)
        ea = max(abs(fa - a), abs(fb - b), abs(fc - c)) / amax
        er = abs(frot - rot)
        _note(ctx, "max_rel_err_fit_coefs", ea)
        _note(ctx, "max_abs_err_fit_rotation", er)
        if not (ea <= TOL_FIT and er <= TOL_FIT):
            raise core.Violation(
                "fit of the shifts generated by C10=%r C12=%r phi12=%r rotation=%r on %d bright-field pixels (mask %r) returned %r "
                "(aberration matrix off by %.3g relative, rotation off by %.3g rad)"
                % (C10, C12, phi12, rot, int(mask.sum()), case.get("mask"), fit, ea, er),
                case,
            )
        e10 = abs(f10 - C10) / amax
        e12 = abs(abs(f12) - abs(C12)) / amax
        if not (e10 <= TOL_FIT and e12 <= TOL_FIT):
            raise core.Violation("fitted C10/C12 = %r/%r, generated by %r/%r" % (f10, f12, C10, C12), case)
        target(min(1.0, max(ea, er) / TOL_FIT), label="fit_err")


# ------------------------------------------------------------------------------------------------
def check(ctx, case):
    kind = case["kind"]
    if kind == "surface":
        return _check_surface(ctx, case)
    if kind == "cart":
        return _check_cart(ctx, case)
    if kind == "alias":
        return _check_alias(ctx, case)
    if kind == "alias_history":
        return _check_history(ctx, case)
    if kind == "fit":
        return _check_fit(ctx, case)
    if kind == "fit_history":
        return _check_fit_history(ctx, case)
    raise core.HarnessError("unknown case kind %r" % kind)


def _singletons(ctx):
    """Every one of the 25 polar symbols and 25 Cartesian labels isolated, exhaustively (deterministic values)."""
    lams = [0.0197, 0.0418]
    for i, sym in enumerate(R.POLAR_SYMBOLS):
        n = int(sym[-2])
        cname = "C" + sym[-2:]
        for j, lam in enumerate(lams):
            val = (1.0 + 0.37 * i) * 0.03 ** (-(n - 1)) * (-1.0 if (i + j) % 3 == 0 else 1.0)
            coefs = {cname: val}
            if sym.startswith("phi"):
                coefs[sym] = [0.7, -2.1][j]
            for ctype in ("float", "tensor"):
                check(ctx, {
                    "kind": "surface", "coefs": coefs, "regime": "singleton", "delta": [], "wavelength": lam,
                    "ctype": ctype, "pts_seed": 1000 + i, "npts": 64, "singleton": sym,
                })  # fmt: skip
    for i, lab in enumerate(R.CART_LABELS):
        n = R.parse_label(lab)[0]
        for j, lam in enumerate(lams):
            val = (1.0 + 0.21 * i) * 0.03 ** (-(n - 1)) * (-1.0 if (i + j) % 2 == 0 else 1.0)
            check(ctx, {"kind": "cart", "items": [[lab, val]], "wavelength": lam, "pts_seed": 2000 + i, "npts": 64, "singleton": lab})
    # every alias alone at every site
    for site in SITES + [XCORR]:
        if site == XCORR and ctx.is_open(K_XCORR):
            ctx.exclude(K_XCORR, 2)
            continue
        for alias in R.ALIASES:
            case = {"kind": "alias", "site": site, "items": [[alias, 123.5]]}
            if site == XCORR and alias not in ("defocus", "astigmatism_angle"):
                continue  # ~1 s per case; one code path for all aliases (the random xcorr cases draw the others)
            if site == XCORR:
                case.update(rot=0.1, method="reference", regularize=True, data_seed=0)
            if site == "probe_check_params":
                if alias == "defocus":
                    continue
                case["items"].append(["C10", 250.0])
            if site in ("probe_pixelated", "probe_parametric", "probe_reassign"):
                for nst in (False, True):
                    check(ctx, dict(case, nested=[nst], **({"first_defocus": None} if site == "probe_reassign" else {})))
            else:
                check(ctx, case)
    for site in SEARCH:
        if ctx.is_open(K_SEARCH):
            ctx.exclude(K_SEARCH, 2)
            continue
        for alias in R.ALIASES:
            if alias not in (("defocus",) if site == "optuna_search" else ("defocus", "Cs", "coma_angle")):
                continue  # ~1 s per case; one write-back code path for all aliases (the random cases draw the others)
            rng_ = {"low": 0.2, "high": 0.9, "n": 2} if alias.endswith("angle") else {"low": 100.0, "high": 300.0, "n": 2}
            if site == "optuna_search":
                rng_["n"] = None
            check(ctx, {"kind": "alias", "site": site, "items": [[alias, rng_]], "rot": 0.1, "data_seed": 0, "sampler_seed": 0})
    ctx.extra["singletons_enumerated"] = 50


def search(ctx):
    if ctx.widx == 0:
        _singletons(ctx)
    core.run_given(ctx, "surface", surface_cases(), lambda c: check(ctx, c), ctx.n(600, 7000))
    core.run_given(ctx, "cart", cart_cases(), lambda c: check(ctx, c), ctx.n(300, 3000))
    core.run_given(ctx, "alias", alias_cases(), lambda c: check(ctx, c), ctx.n(900, 9000))
    core.run_given(ctx, "history", history_cases(), lambda c: check(ctx, c), ctx.n(400, 4000))
    core.run_given(ctx, "fit", fit_cases(), lambda c: check(ctx, c), ctx.n(500, 6000))
    # end-to-end fit histories on one live object: 1-2 s per case; not shrunk (each attempt costs as much)
    core.run_given(ctx, "fit_history", fit_history_cases(), lambda c: check(ctx, c), ctx.n(6, 60), shrink=False)
    # whole alignments / searches: ~0.5 s per case
    if ctx.is_open(K_XCORR):
        ctx.exclude(K_XCORR, ctx.n(6, 120))
    else:
        core.run_given(ctx, "xcorr", xcorr_cases(), lambda c: check(ctx, c), ctx.n(6, 120))
    if ctx.is_open(K_SEARCH):
        ctx.exclude(K_SEARCH, ctx.n(8, 140))
    else:
        core.run_given(ctx, "search", search_cases(), lambda c: check(ctx, c), ctx.n(8, 140))

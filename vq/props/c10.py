"""C10 — object and probe constraints always yield physically admissible models.

Four case kinds, all judged by invariants computed by the harness in float64 from the tensors that
quantem returns (never by re-running quantem code):

  obj    ptychography ObjectPixelated: raw parameters -> obj_model.obj / apply_hard_constraints
  tomo   tomography ObjectVoxelwise under positivity (+ shrinkage)
  ortho  ProbePixelated.probe / _probe_orthogonalization_constraint on mode stacks whose Gram matrix is
         prescribed by construction
  init   ProbePixelated.set_initial_probe (-> _apply_weights): total intensity and mode weights
  obj_multi / tomo_multi   2-3 models of one family alive together, constructed / configured / read in
         a drawn interleaving; every model is judged against its OWN requested settings (shared or
         aliased constraint state only shows when instances are interleaved)
  recon  end to end: a tiny Ptychography object and a drawn history of reconstruct() calls (reset flag,
         object and probe constraints per call, real optimiser steps); after every call the object handed
         to the forward model (obj_model.obj and the forward patches) and the probe are judged against
         what that call requested
"""

from __future__ import annotations

import math

import numpy as np
from hypothesis import strategies as st

from vq import core
from vq.gen import c10_build as B

# Known-finding keys: while a finding with that key is open the generator avoids exactly the recorded
# shape (counted with ctx.exclude); `check` itself always judges the literal statement.
#   KEY_PP  pure_phase + apply_fov_mask + some mask value < 1  =>  |o| = mask^2 != 1.  Repaired by
#           fix-pure-phase-fov-mask (replays/C10/pure-phase-*.json); the key only matters if that fix
#           is declined and the defect is recorded as a finding instead.
#   KEY_RE  complex + apply_fov_mask + some (effective: slice-mean under identical_slices) mask value strictly inside (0,1) + re-application:
#           every application multiplies the amplitude by mask^2 again.
KEY_PP = "fov-mask-pure-phase-amplitude"
KEY_RE = "fov-mask-reapply-amplitude"

# ---- tolerances (float32 / complex64 code under test) --------------------------------------------
# "measured" = largest clean-tree deviation over 3 x 52 000 thorough-scale cases (seeds 1 and 7)
EPS_AMP = 1e-5  # |o| <= 1 + EPS_AMP, ||o| - 1| <= EPS_AMP               (measured 1.1e-7 / 4.3e-8)
EPS_IDEM = 1e-5  # | |C(C(x))| - |C(x)| | <= EPS_IDEM, amplitudes <= 1    (measured 1.3e-7)
RT_INT = 1e-5  # relative: mode intensities / total intensity / weights   (measured 4.8e-7 / 5.1e-7 / 4.2e-7)
# relative Gram off-diagonal <= ORTH_FLOOR + ORTH_K * eps32 * cond(C): classical Gram-Schmidt loses
# orthogonality like eps * cond(A)^2 = eps * cond(C), C the prescribed correlation matrix of the input
# modes.  Measured <= 0.55 * eps32 * cond(C) for every structure (6.6e-8 at cond 1, 2.3e-6 at five
# modes with uniform correlation 0.99), so K = 10 leaves >= 18x; the floor covers cond(C) = 1.
ORTH_FLOOR = 1e-5
ORTH_K = 10.0
EPS32 = float(np.finfo(np.float32).eps)

OBJ_DEFAULTS = {
    "positivity": True,
    "fix_potential_baseline": False,
    "fix_potential_baseline_factor": 1.0,
    "identical_slices": False,
    "apply_fov_mask": False,
}


def _torch():
    import torch

    return torch


# ------------------------------------------------------------------------------------------------
# generators
# ------------------------------------------------------------------------------------------------
SEEDS = st.integers(0, 2**31 - 1)
# sizes are drawn from flat lists: Hypothesis' integer strategy favours the smallest value, which here
# would be the degenerate one (one slice, one mode, one pixel)
SIDES = st.sampled_from([1, 2, 3, 4, 5, 6, 7, 8, 9, 10, 11, 12])
SLICES = st.sampled_from([1, 2, 2, 3, 3, 4])
MODES = st.sampled_from([2, 3, 4, 5, 1, 2, 3, 5])


@st.composite
def _mag_range(draw):
    lo = draw(st.integers(-6, 5))
    hi = draw(st.integers(lo + 1, 6))
    if draw(st.integers(0, 3)) == 0:  # straddle 1 tightly
        lo, hi = -1, 1
    return [lo, hi]


@st.composite
def obj_cases(draw, ctx=None, obj_type=None, min_slices=1, force=None, max_side=12):
    """One ObjectPixelated model description.  `obj_type`, `min_slices` and `force` (constraint
    entries that must be present with that value) are used by the multi-instance generator."""
    obj_type = obj_type or draw(st.sampled_from(["complex", "pure_phase", "potential"]))
    S = max(draw(SLICES), min_slices)
    h = min(draw(SIDES), max_side)
    w = min(draw(SIDES), max_side)
    case = {
        "kind": "obj",
        "obj_type": obj_type,
        "S": S,
        "h": h,
        "w": w,
        "seed": draw(SEEDS),
        "mag": draw(_mag_range()),
        "special": draw(st.sampled_from(["none", "none", "zeros", "edge", "allzero"])),
        "phase": draw(st.sampled_from(["uniform", "uniform", "pi", "zero", "const"])),
        "via": draw(st.sampled_from(["from_array", "param_copy", "uniform_copy", "random_copy"])),
        "set_via": draw(st.sampled_from(["setter", "add"])),
    }
    if case["phase"] == "pi" and obj_type != "potential":
        case["negreal"] = draw(st.booleans())
    cons = {}
    if draw(st.booleans()):
        cons["positivity"] = draw(st.sampled_from([True, True, False]))
    if draw(st.booleans()):
        cons["fix_potential_baseline"] = draw(st.booleans())
        if draw(st.booleans()):
            cons["fix_potential_baseline_factor"] = draw(
                st.sampled_from([1.0, 0.5, 0.0, 2.0, 1]) | st.floats(0.0, 2.0, allow_nan=False)
            )
    if draw(st.booleans()):
        cons["identical_slices"] = draw(st.booleans())
    if draw(st.booleans()):
        cons["apply_fov_mask"] = draw(st.booleans())
    extra = draw(st.sampled_from(["", "", "filters_off", "soft"]))
    if extra == "filters_off":  # smoothing filters explicitly switched off (their default)
        cons.update({"gaussian_sigma": None, "q_lowpass": None, "q_highpass": None})
    elif extra == "soft":  # soft-constraint weights must not influence the hard constraints
        cons.update({"tv_weight_xy": 0.1, "tv_weight_z": 0.2, "surface_zero_weight": 0.3})
    cons.update(force or {})
    case["constraints"] = cons
    eff = dict(OBJ_DEFAULTS, **cons)

    mode = draw(st.sampled_from(["frac", "smooth", "binary", "none", "ones", "const", "zeros", "frac", "smooth"]))
    mask = {"mode": mode, "seed": draw(SEEDS)}
    if mode == "smooth":
        mask["sigma"] = draw(st.sampled_from([0.5, 1.0, 2.0]))
    if mode == "const":
        mask["value"] = draw(st.sampled_from([0.5, 0.25, 0.999]) | st.floats(0.0, 1.0, allow_nan=False))
    if S > 1 and mode in ("frac", "smooth", "binary") and draw(st.integers(0, 2)) == 0:
        # the mask setter also accepts one mask per slice (seeded change C10-13: slices tied BEFORE a slice-dependent
        # mask is applied are no longer identical)
        mask["per_slice"] = True
    case["mask"] = mask
    if mode == "none":
        # no mask exists: the property getter is only meaningful when nothing consults the mask
        needs = eff["apply_fov_mask"] or eff["fix_potential_baseline"]
        case["route"] = "direct" if needs else draw(st.sampled_from(["prop", "direct"]))
    else:
        case["route"] = draw(st.sampled_from(["prop", "prop", "direct"]))
    case["reapply"] = obj_type != "potential" and draw(st.booleans())

    # ---- open known findings: avoid exactly the recorded shapes ----
    if ctx is not None and eff["apply_fov_mask"] and mode != "none":
        m = B.fov_mask(case).astype(np.float32)
        if ctx.is_open(KEY_PP) and obj_type == "pure_phase" and float(m.min()) < 1.0:
            ctx.exclude(KEY_PP)
            case["mask"] = {"mode": "ones", "seed": mask["seed"]}
            m = np.ones_like(m)
        # ... under identical_slices the tied slices carry the slice-MEAN of per-slice masks, so binary masks that differ
        # between slices act like a fractional mask (same defect, found by the thorough tier after per-slice masks
        # were introduced)
        m_eff = m.mean(axis=0) if (m.ndim == 3 and eff["identical_slices"]) else m
        if ctx.is_open(KEY_RE) and case["reapply"] and obj_type == "complex" and bool(np.any((m > 0) & (m < 1)) or np.any((m_eff > 0) & (m_eff < 1))):
            ctx.exclude(KEY_RE)
            case["reapply"] = False
    return case


@st.composite
def tomo_cases(draw):
    shp = [draw(st.sampled_from([1, 2, 3, 4, 5, 6])) for _ in range(3)]
    shr = draw(st.sampled_from([None, False, 0.0, 0.5, 1e-3, 10.0]) | st.floats(1e-6, 1e3, allow_nan=False))
    return {
        "kind": "tomo",
        "shape": shp,
        "seed": draw(SEEDS),
        "mag": draw(_mag_range()),
        "special": draw(st.sampled_from(["none", "zeros", "edge"])),
        "positivity": draw(st.sampled_from([True, True, True, False])),
        "shrinkage": shr,
        "set_via": draw(st.sampled_from(["setter", "add"])),
    }


def _merge(draw, seqs):
    """A drawn interleaving of the per-model operation sequences (each keeps its own order)."""
    tokens = [i for i, q in enumerate(seqs) for _ in q]
    perm = draw(st.permutations(tokens)) if tokens else []
    pos = [0] * len(seqs)
    out = []
    for i in perm:
        out.append(seqs[i][pos[i]])
        pos[i] += 1
    return out


def _final_reads(ops, n):
    """Every model is read at the end, the first-built ones last."""
    built = []
    for op in ops:
        if op[0] == "construct" and op[1] not in built:
            built.append(op[1])
    return [["read", i] for i in reversed(built)]


@st.composite
def obj_multi_cases(draw, ctx=None):
    """2-3 ObjectPixelated models alive at the same time with different constraint settings,
    constructed / configured / read in a drawn interleaving."""
    n = draw(st.sampled_from([2, 2, 3]))
    contrast = draw(st.sampled_from(["identical_slices", "positivity", "identical_slices", "positivity", "free"]))
    a = draw(st.integers(0, n - 1))  # the model that requests the setting ...
    b = (a + 1 + draw(st.integers(0, n - 2))) % n  # ... and one that explicitly declines it
    models = []
    for i in range(n):
        kw = {}
        if contrast == "identical_slices":
            if i == a:
                kw = dict(min_slices=2, force={"identical_slices": True})
            elif i == b:
                kw = dict(force={"identical_slices": False})
        elif contrast == "positivity":
            if i == a:
                kw = dict(obj_type="potential", force={"positivity": True})
            elif i == b:
                kw = dict(obj_type=draw(st.sampled_from(["potential", "potential", "complex"])), force={"positivity": False})
        m = draw(obj_cases(ctx, max_side=6, **kw))  # small fields keep the group cheap
        models.append(m)
    seqs = []
    for i, m in enumerate(models):
        q = [["construct", i]]
        conf = []
        if m["set_via"] == "setter":
            conf.append(["set", i])
        else:
            conf += [["add", i, k] for k in m["constraints"]]
        if m["mask"]["mode"] != "none":
            conf.append(["mask", i])
        q += draw(st.permutations(conf)) if conf else []
        if draw(st.booleans()):  # an early read: A.obj, then others are built/configured, then A.obj again
            q.append(["read", i])
        seqs.append(q)
    ops = _merge(draw, seqs)
    ops += _final_reads(ops, n)
    return {"kind": "obj_multi", "contrast": contrast, "models": models, "ops": [list(o) for o in ops]}


@st.composite
def tomo_multi_cases(draw):
    """2-3 tomography ObjectVoxelwise models alive at the same time (see obj_multi_cases)."""
    n = draw(st.sampled_from([2, 2, 3]))
    models = []
    for i in range(n):
        m = draw(tomo_cases())
        m["shape"] = [min(v, 4) for v in m["shape"]]
        m["configure"] = draw(st.sampled_from([True, True, True, False]))  # False: left at its defaults
        models.append(m)
    # by construction one model requests positivity and another one does not
    a = draw(st.integers(0, n - 1))
    b = (a + 1 + draw(st.integers(0, n - 2))) % n
    models[a]["positivity"] = True
    models[a]["configure"] = True
    if models[b]["configure"]:
        models[b]["positivity"] = False
    seqs = []
    for i, m in enumerate(models):
        q = [["construct", i]]
        rest = [["param", i]]  # the optimiser writes the voxel values
        if m["configure"]:
            if m["set_via"] == "setter":
                rest.append(["set", i])
            else:
                rest += [["add", i, k] for k in ("positivity", "shrinkage")]
        q += draw(st.permutations(rest))
        if draw(st.booleans()):
            q.append(["read", i])
        seqs.append(q)
    ops = _merge(draw, seqs)
    ops += _final_reads(ops, n)
    return {"kind": "tomo_multi", "models": models, "ops": [list(o) for o in ops]}


def _fl2(lo, hi):
    return st.floats(lo, hi, allow_nan=False).map(lambda v: round(v, 2))


@st.composite
def recon_cases(draw, ctx=None):
    """End to end: a tiny Ptychography object and a drawn sequence of reconstruct() calls (real
    optimiser steps), each with its own reset flag and constraints for the object AND probe models."""
    t = draw(st.sampled_from(["complex", "pure_phase", "potential"]))
    side = st.sampled_from([6, 4, 5, 8])
    S = draw(st.sampled_from([2, 3, 2, 1]))
    M = draw(st.sampled_from([1, 2, 3, 2]))
    gs = st.sampled_from([1.0, 2.0])
    b = {
        "seed": draw(st.integers(0, 10**6)),
        "geom": {
            "R": draw(side),
            "C": draw(side),
            "gpts": [draw(st.sampled_from([2, 3])), draw(st.sampled_from([2, 3]))],
            "sampling": [0.4, 0.4],
            "step_px": [draw(gs), draw(gs)],
            "pad": [draw(st.sampled_from([0, 1, 2])), draw(st.sampled_from([0, 1, 2]))],
            "energy": draw(st.sampled_from([80e3, 300e3])),
            "counts": 100.0,
        },
        "M": M,
        "S": S,
        "thick": draw(st.sampled_from([2.0, 5.0, 10.0])),
        "obj_type": t,
        "obj_init": draw(st.sampled_from(["array", "uniform", "random"])),
    }
    for a in (0, 1):  # a field of view of exactly one object pixel is degenerate
        if b["geom"]["gpts"][a] == 2 and b["geom"]["step_px"][a] < 1.05:
            b["geom"]["step_px"][a] = 2.0
    calls = []
    for k in range(draw(st.sampled_from([1, 2, 2, 3]))):
        call = {"num_iters": draw(st.sampled_from([1, 2, 3])), "reset": draw(st.sampled_from([True, True, False]))}
        if k == 0 or draw(st.booleans()):
            okind = draw(st.sampled_from(["sgd", "adam"]))
            opt = {"object": {"type": okind, "lr": draw(st.sampled_from([0.5, 0.1, 0.02])) if okind == "sgd" else 0.02}}
            if draw(st.sampled_from([True, True, False])):
                opt["probe"] = {"type": okind, "lr": draw(st.sampled_from([0.05, 0.01])) if okind == "sgd" else 0.01}
            call["opt"] = opt
        if draw(st.sampled_from([True, True, True, False])):
            co = {}
            if draw(st.sampled_from([True, True, False])):
                co["identical_slices"] = draw(st.sampled_from([True, True, False]))
            if draw(st.booleans()):
                co["positivity"] = draw(st.sampled_from([True, True, False]))
            if draw(st.booleans()):
                co["apply_fov_mask"] = draw(st.booleans())
            if draw(st.integers(0, 3)) == 0:
                co["fix_potential_baseline"] = draw(st.booleans())
            if draw(st.integers(0, 3)) == 0:
                co["tv_weight_xy"] = 0.01
            if ctx is not None and ctx.is_open(KEY_PP) and t == "pure_phase" and co.get("apply_fov_mask"):
                ctx.exclude(KEY_PP)
                co["apply_fov_mask"] = False
            cp = {}
            if draw(st.sampled_from([True, True, False])):
                cp["orthogonalize_probe"] = draw(st.sampled_from([True, True, True, False]))
            if draw(st.integers(0, 3)) == 0:
                cp["tv_weight"] = 0.01
            cons = {}
            which = draw(st.sampled_from(["both", "both", "object", "probe"]))
            if which in ("both", "object"):
                cons["object"] = co
            if which in ("both", "probe"):
                cons["probe"] = cp
            call["constraints"] = cons
        if draw(st.integers(0, 2)) == 0:
            call["batch_size"] = draw(st.sampled_from([1, 2, 3]))
        calls.append(call)
    return {"kind": "recon", "build": b, "calls": calls}


@st.composite
def _stack(draw):
    M = draw(MODES)
    h = draw(SIDES)
    w = draw(SIDES)
    while h * w < M:  # M linearly independent modes need h*w >= M (construction, not rejection)
        if w < 12:
            w += 1
        else:
            h += 1
    ctype = draw(st.sampled_from(["uniform", "phased", "chain", "random"]))
    c = draw(st.sampled_from([0.0, 0.5, 0.9, 0.99, 0.6, 0.95]) | st.floats(0.0, 0.99, allow_nan=False))
    scale = 10.0 ** draw(st.integers(-3, 3))
    nmode = draw(st.sampled_from(["free", "ties", "equal", "spread"]))
    if nmode == "equal":
        norms = [1.0] * M
    elif nmode == "ties":
        pool = [draw(st.sampled_from([1.0, 0.5, 2.0])) for _ in range(2)]
        norms = [pool[draw(st.integers(0, 1))] for _ in range(M)]
    elif nmode == "spread":
        norms = [10.0 ** draw(st.integers(-2, 2)) for _ in range(M)]
    else:
        norms = [draw(st.floats(0.05, 20.0, allow_nan=False)) for _ in range(M)]
    return {
        "M": M,
        "h": h,
        "w": w,
        "seed": draw(SEEDS),
        "corr": {"type": ctype, "c": c, "seed": draw(st.integers(0, 10**6))},
        "norms": [scale * v for v in norms],
        "order": draw(st.permutations(list(range(M)))),
        "envelope": draw(st.booleans()),
    }


@st.composite
def ortho_cases(draw):
    case = draw(_stack())
    case["kind"] = "ortho"
    case["route"] = draw(st.sampled_from(["probe", "probe", "direct", "setter"]))
    case["as"] = draw(st.sampled_from(["numpy", "torch"]))
    return case


@st.composite
def init_cases(draw):
    src = draw(st.sampled_from(["array3d", "array3d", "array3d", "array2d", "params"]))
    if src == "array2d":
        case = draw(_stack())
        case["M"] = 1
        case["norms"] = case["norms"][:1]
        case["order"] = [0]
    elif src == "params":
        M = draw(MODES)
        h = draw(st.sampled_from([6, 7, 8, 9, 10, 11, 12]))
        w = draw(st.sampled_from([6, 7, 8, 9, 10, 11, 12]))
        case = {
            "M": M,
            "h": h,
            "w": w,
            "energy": draw(st.sampled_from([80e3, 200e3, 300e3])),
            "semiangle": draw(st.sampled_from([10.0, 20.0, 25.0])),
            "defocus": draw(st.sampled_from([0.0, 50.0, -100.0, 200.0])),
            "r_px": draw(st.floats(1.5, 3.0, allow_nan=False)),  # aperture radius in detector pixels
            "soft_edges": draw(st.booleans()),
        }
    else:
        case = draw(_stack())
    case["kind"] = "init"
    case["source"] = src
    M = case["M"]
    wm = draw(st.sampled_from(["none", "free", "equal", "steep", "int"]))
    if wm == "none":
        case["weights"] = None
    elif wm == "equal":
        case["weights"] = [1.0] * M
    elif wm == "steep":
        case["weights"] = [10.0 ** (-k) for k in range(M)]
    elif wm == "int":
        case["weights"] = [draw(st.integers(1, 9)) for _ in range(M)]
    else:
        case["weights"] = [draw(st.floats(1e-3, 1e3, allow_nan=False)) for _ in range(M)]
    case["weights_as"] = draw(st.sampled_from(["list", "ndarray"]))
    mi = draw(st.sampled_from([1.0, 1e-3, 1e6, 123.0]) | st.floats(1e-3, 1e6, allow_nan=False))
    if draw(st.booleans()):  # log-uniform
        mi = 10.0 ** draw(st.floats(-3, 6, allow_nan=False))
    case["mean_intensity"] = mi
    case["rng"] = draw(st.integers(0, 10**6))
    case["as"] = draw(st.sampled_from(["numpy", "torch"]))
    # a second preprocess re-runs set_initial_probe on the already scaled probe, possibly with
    # another measured intensity: the last call decides
    if draw(st.integers(0, 3)) == 0:
        case["then_mean_intensity"] = 10.0 ** draw(st.floats(-3, 6, allow_nan=False))
    return case


# ------------------------------------------------------------------------------------------------
# checks
# ------------------------------------------------------------------------------------------------
def _fin(case, what, arr):
    if not np.all(np.isfinite(arr)):
        raise core.Violation("%s: result is not finite" % what, case)


def _obj_facts(spec):
    """Harness-side facts about one ObjectPixelated description."""
    t = spec["obj_type"]
    raw = B.raw_object(spec)
    mask = B.fov_mask(spec)
    cons = dict(spec["constraints"])
    eff = dict(OBJ_DEFAULTS, **cons)
    # classification on the values as the model stores them (float32)
    if t == "potential":
        r32 = raw.astype(np.float32)
        nontrivial = bool((r32 < 0).any() and (r32 > 0).any())
    else:
        a32 = np.abs(raw.astype(np.complex64))
        nontrivial = bool((a32 > 1).any() and (a32 < 1).any())
    return {"raw": raw, "mask": mask, "cons": cons, "eff": eff, "nontrivial": nontrivial,
            "tie": bool(eff["identical_slices"]) and spec["S"] > 1}


def _obj_construct(spec, raw):
    torch = _torch()
    from quantem.diffractive_imaging.object_models import ObjectPixelated

    t, S = spec["obj_type"], spec["S"]
    thick = 1.0 if S > 1 else None
    if spec["via"] == "from_array":
        model = ObjectPixelated.from_array(raw, slice_thicknesses=thick, obj_type=t, rng=0)
        model._initialize_obj(raw.shape, (1.0, 1.0))
        return model
    # the optimiser has driven the parameters somewhere: overwrite them in place
    if spec["via"] == "param_copy":
        start = np.ones(raw.shape) * (0.5 if t == "potential" else 1.0 + 0.0j)
        model = ObjectPixelated.from_array(start, slice_thicknesses=thick, obj_type=t, rng=0)
    elif spec["via"] == "uniform_copy":
        model = ObjectPixelated.from_uniform(num_slices=S, slice_thicknesses=thick, obj_type=t, rng=0)
    else:
        model = ObjectPixelated.from_random(num_slices=S, slice_thicknesses=thick, obj_type=t, rng=0)
    model._initialize_obj(raw.shape, (1.0, 1.0))
    with torch.no_grad():
        model.params.copy_(torch.tensor(raw, dtype=model.params.dtype))
    return model


def _obj_read(model, spec, has_mask):
    marg = model.mask if has_mask else None
    if spec["route"] == "prop":
        o1t = model.obj
    else:
        o1t = model.apply_hard_constraints(model.params, mask=marg)
    o1t = o1t.detach().clone()
    o2t = None
    if spec["reapply"]:
        o2t = model.apply_hard_constraints(o1t.clone(), mask=marg).detach().clone()
    return o1t, o2t


def _obj_judge(ctx, case, spec, facts, o1t, o2t, who=""):
    """The laws of the property for one constrained object, against the settings requested for it."""
    t, S = spec["obj_type"], spec["S"]
    raw, mask, eff, tie = facts["raw"], facts["mask"], facts["eff"], facts["tie"]
    fov = bool(eff["apply_fov_mask"]) and mask is not None
    o1 = o1t.numpy()
    if tuple(o1.shape) != tuple(raw.shape):
        raise core.Violation("%sconstrained object has shape %s, parameters %s" % (who, o1.shape, raw.shape), case)
    _fin(case, who + "constrained object", o1)
    amp = np.abs(o1.astype(np.complex128))
    if t == "complex":
        ex = float(amp.max()) - 1.0
        ctx.extra["max_amp_excess"] = max(ctx.extra.get("max_amp_excess", -1.0), ex)
        if ex > EPS_AMP:
            raise core.Violation("%scomplex object: max |o| = %.9g > 1" % (who, amp.max()), case)
    elif t == "pure_phase":
        if not tie:  # slice tying is only claimed to tie slices (a mean of phasors is shorter)
            dev = float(np.max(np.abs(amp - 1.0)))
            ctx.extra["max_unit_dev"] = max(ctx.extra.get("max_unit_dev", 0.0), dev)
            if dev > EPS_AMP:
                i = np.unravel_index(int(np.argmax(np.abs(amp - 1.0))), amp.shape)
                extra = " (apply_fov_mask with mask=%.6g there)" % float(np.broadcast_to(mask, amp.shape)[i]) if fov else ""
                raise core.Violation("%spure_phase object: |o| = %.9g != 1 at %s%s" % (who, amp[i], tuple(int(v) for v in i), extra), case)
    else:
        if np.iscomplexobj(o1):
            raise core.Violation("%spotential object came back complex" % who, case)
        if eff["positivity"] and float(o1.min()) < 0.0:
            raise core.Violation("%spotential object under positivity has min %.9g < 0" % (who, o1.min()), case)
    if tie:
        if not all(np.array_equal(o1[s], o1[0]) for s in range(1, S)):
            d = max(float(np.max(np.abs(o1[s] - o1[0]))) for s in range(1, S))
            raise core.Violation("%sidentical_slices requested but slices differ by up to %.6g" % (who, d), case)
    if o2t is not None and not (t == "pure_phase" and tie):
        o2 = o2t.numpy()
        _fin(case, who + "re-constrained object", o2)
        amp2 = np.abs(o2.astype(np.complex128))
        d = float(np.max(np.abs(amp2 - amp)))
        ctx.extra["max_idem_dev"] = max(ctx.extra.get("max_idem_dev", 0.0), d)
        if d > EPS_IDEM:
            i = np.unravel_index(int(np.argmax(np.abs(amp2 - amp))), amp.shape)
            raise core.Violation(
                "%sre-applying the constraint changed the amplitude: |C(x)| = %.9g, |C(C(x))| = %.9g at %s"
                % (who, amp[i], amp2[i], tuple(int(v) for v in i)),
                case,
            )


def _check_obj(ctx, case):
    f = _obj_facts(case)
    cons, mask = f["cons"], f["mask"]
    classes = ["obj:" + case["obj_type"], "S>1" if case["S"] > 1 else "S=1", "route:" + case["route"], "mask:" + case["mask"]["mode"] + ("/per-slice" if case["mask"].get("per_slice") else "")]
    for k in ("positivity", "fix_potential_baseline", "identical_slices", "apply_fov_mask"):
        if k in cons:
            classes.append("%s=%s" % (k, cons[k]))
    if case["reapply"]:
        classes.append("reapply")
    if f["tie"]:
        classes.append("tied")
    ctx.record(case, f["nontrivial"], classes)

    with ctx.sut(case, "ObjectPixelated: build, set constraints/mask, read obj"):
        model = _obj_construct(case, f["raw"])
        if case["set_via"] == "setter":
            model.constraints = cons
        else:
            for k, v in cons.items():
                model.add_constraint(k, v)
        if mask is not None:
            model.mask = mask.astype(np.float32)
        o1t, o2t = _obj_read(model, case, mask is not None)
    _obj_judge(ctx, case, case, f, o1t, o2t)


def _multi_classes(prefix, ops, n):
    """Labels describing the interleaving (harness-side, from the op list only)."""
    cls = ["multi_instance:%s" % prefix, "multi_instance:%s:n=%d" % (prefix, n)]
    first_read = {}
    reread_after_other = False
    conf_after_other_built = False
    built = []
    for k, op in enumerate(ops):
        if op[0] == "construct":
            built.append(op[1])
        elif op[0] in ("set", "add", "mask", "param"):
            if built and built[-1] != op[1]:
                conf_after_other_built = True
        elif op[0] == "read":
            i = op[1]
            if i in first_read:
                between = ops[first_read[i] + 1 : k]
                if any(o[0] in ("construct", "set", "add") and o[1] != i for o in between):
                    reread_after_other = True
            else:
                first_read[i] = k
    if reread_after_other:
        cls.append("multi_instance:%s:read-other_changes-read_again" % prefix)
    if conf_after_other_built:
        cls.append("multi_instance:%s:configured_after_another_was_built" % prefix)
    return cls


def _check_obj_multi(ctx, case):
    specs = case["models"]
    facts = [_obj_facts(m) for m in specs]
    n = len(specs)
    settings = {tuple(sorted((k, repr(f["eff"][k])) for k in ("positivity", "identical_slices", "apply_fov_mask", "fix_potential_baseline"))) for f in facts}
    ctx.record(case, n >= 2 and len(settings) > 1 and any(f["nontrivial"] for f in facts),
               _multi_classes("obj", case["ops"], n) + ["multi_instance:obj:contrast=" + case.get("contrast", "free")])
    models = {}
    reads = []
    with ctx.sut(case, "several ObjectPixelated models alive together"):
        for op in case["ops"]:
            i = op[1]
            spec, f = specs[i], facts[i]
            if op[0] == "construct":
                models[i] = _obj_construct(spec, f["raw"])
            elif op[0] == "set":
                models[i].constraints = dict(f["cons"])
            elif op[0] == "add":
                models[i].add_constraint(op[2], f["cons"][op[2]])
            elif op[0] == "mask":
                models[i].mask = f["mask"].astype(np.float32)
            elif op[0] == "read":
                reads.append((i, _obj_read(models[i], spec, f["mask"] is not None)))
            else:
                raise core.HarnessError("unknown op %r" % (op,))
    seen = {}
    for i, (o1t, o2t) in reads:
        seen[i] = seen.get(i, 0) + 1
        who = "model %d of %d (read #%d, other models alive): " % (i, n, seen[i])
        _obj_judge(ctx, case, specs[i], facts[i], o1t, o2t, who)


def _tomo_raw(spec):
    shape = tuple(spec["shape"])
    rc = {"seed": spec["seed"], "S": shape[0], "h": shape[1], "w": shape[2], "mag": spec["mag"],
          "special": spec["special"], "phase": "uniform", "obj_type": "potential"}
    return B.raw_object(rc).astype(np.float32)


def _tomo_judge(case, spec, out, positivity, who=""):
    shape = tuple(spec["shape"])
    if tuple(out.shape) != shape:
        raise core.Violation("%stomography object changed shape %s -> %s" % (who, shape, out.shape), case)
    _fin(case, who + "tomography object", out)
    if positivity and float(out.min()) < 0.0:
        raise core.Violation("%stomography object under positivity has min %.9g < 0" % (who, out.min()), case)


def _check_tomo(ctx, case):
    torch = _torch()
    from quantem.tomography.object_models import ObjectVoxelwise

    shape = tuple(case["shape"])
    raw = _tomo_raw(case)
    shr = case["shrinkage"]
    nontrivial = bool((raw < 0).any() and (raw > 0).any())
    ctx.record(case, nontrivial, ["tomo", "tomo:positivity=%s" % case["positivity"], "tomo:shrinkage" if shr else "tomo:noshrink"])
    with ctx.sut(case, "tomography ObjectVoxelwise.obj"):
        model = ObjectVoxelwise(volume_shape=shape, device="cpu")
        hc = {"positivity": case["positivity"], "shrinkage": shr}
        if case["set_via"] == "setter":
            model.hard_constraints = hc
        else:
            for k, v in hc.items():
                model.add_hard_constraint(k, v)
        model.obj = torch.tensor(raw)
        out = model.obj.detach().numpy()
    _tomo_judge(case, case, out, case["positivity"])


def _check_tomo_multi(ctx, case):
    torch = _torch()
    from quantem.tomography.object_models import ObjectVoxelwise

    specs = case["models"]
    n = len(specs)
    raws = [_tomo_raw(m) for m in specs]
    # requested settings: what the model's own configuration says, else the documented defaults
    want_pos = [bool(m["positivity"]) if m["configure"] else False for m in specs]
    mixed = [bool((r < 0).any() and (r > 0).any()) for r in raws]
    ctx.record(case, n >= 2 and len(set(want_pos)) > 1 and any(p and x for p, x in zip(want_pos, mixed)),
               _multi_classes("tomo", case["ops"], n))
    models = {}
    reads = []
    with ctx.sut(case, "several tomography ObjectVoxelwise models alive together"):
        for op in case["ops"]:
            i = op[1]
            spec = specs[i]
            if op[0] == "construct":
                models[i] = ObjectVoxelwise(volume_shape=tuple(spec["shape"]), device="cpu")
            elif op[0] == "set":
                models[i].hard_constraints = {"positivity": spec["positivity"], "shrinkage": spec["shrinkage"]}
            elif op[0] == "add":
                models[i].add_hard_constraint(op[2], spec[op[2]])
            elif op[0] == "param":
                models[i].obj = torch.tensor(raws[i])
            elif op[0] == "read":
                # the settings requested for this model so far ("add" configures one key at a time)
                reads.append((i, models[i].obj.detach().numpy().copy(), _tomo_pos_so_far(case["ops"], op, i, spec)))
            else:
                raise core.HarnessError("unknown op %r" % (op,))
    seen = {}
    for i, out, pos in reads:
        seen[i] = seen.get(i, 0) + 1
        who = "model %d of %d (read #%d, other models alive): " % (i, n, seen[i])
        _tomo_judge(case, specs[i], out, pos, who)


def _ops_before(ops, op):
    k = next(j for j, o in enumerate(ops) if o is op)
    return ops[:k]


def _tomo_pos_so_far(ops, op, i, spec):
    """Has positivity been requested for model i by the time of this read?"""
    for o in _ops_before(ops, op):
        if o[1] == i and (o[0] == "set" or (o[0] == "add" and o[2] == "positivity")):
            return bool(spec["positivity"])
    return False


def _orth_tol(case):
    C = B.corr_matrix(case)
    ev = np.linalg.eigvalsh(C)
    cond = float(ev[-1] / max(ev[0], 1e-300))
    return ORTH_FLOOR + ORTH_K * EPS32 * cond, cond


def _max_offdiag(case):
    C = B.corr_matrix(case)
    if C.shape[0] < 2:
        return 0.0
    return float(np.max(np.abs(C - np.diag(np.diag(C)))))


def _judge_modes(ctx, case, out, I_in, what, tol_orth, hw=None):
    M = len(I_in)
    hw = tuple(hw) if hw is not None else (case["h"], case["w"])
    if tuple(out.shape) != (M,) + hw:
        raise core.Violation("%s: shape %s, expected %s" % (what, out.shape, (M,) + hw), case)
    _fin(case, what, out)
    G = B.gram(out)
    I_out = np.real(np.diag(G)).copy()
    # mutually orthogonal
    for i in range(M):
        for j in range(i + 1, M):
            rel = abs(G[i, j]) / math.sqrt(I_out[i] * I_out[j]) if I_out[i] > 0 and I_out[j] > 0 else float("inf")
            key = "max_orth_rel_over_tol"
            ctx.extra[key] = max(ctx.extra.get(key, 0.0), rel / tol_orth)
            if not rel <= tol_orth:
                raise core.Violation(
                    "%s: modes %d and %d are not orthogonal: |<p_i,p_j>|/(|p_i||p_j|) = %.3g (tolerance %.3g)" % (what, i, j, rel, tol_orth),
                    case,
                )
    # same multiset of intensities
    a = np.sort(I_out)[::-1]
    b = np.sort(np.asarray(I_in, dtype=np.float64))[::-1]
    rel = float(np.max(np.abs(a - b) / b))
    ctx.extra["max_int_rel"] = max(ctx.extra.get("max_int_rel", 0.0), rel)
    if not rel <= RT_INT:
        raise core.Violation(
            "%s: mode intensities changed: in (sorted) %s, out (sorted) %s" % (what, ["%.7g" % v for v in b], ["%.7g" % v for v in a]),
            case,
        )
    # descending order
    for k in range(M - 1):
        if I_out[k + 1] > I_out[k] * (1.0 + RT_INT):
            raise core.Violation("%s: mode intensities not in descending order: %s" % (what, ["%.7g" % v for v in I_out]), case)


def _check_ortho(ctx, case):
    torch = _torch()
    from quantem.diffractive_imaging.probe_models import ProbePixelated

    P = B.probe_stack(case).astype(np.complex64)
    M = case["M"]
    I_in = np.real(np.diag(B.gram(P)))
    tol, cond = _orth_tol(case)
    cmax = _max_offdiag(case)
    cls = ["ortho", "ortho:M=%d" % M, "ortho:route=" + case["route"], "ortho:corr=" + case["corr"]["type"]]
    if cmax > 0.9:
        cls.append("ortho:cmax>0.9")
    if len(set(case["norms"])) < M:
        cls.append("ortho:tied_norms")
    ctx.record(case, M >= 2 and cmax > 0.5, cls)
    with ctx.sut(case, "ProbePixelated orthogonalisation"):
        if case["route"] == "setter":  # an optimiser step replaced the parameters
            pm = ProbePixelated.from_array(np.ones_like(P), rng=0)
            pm.probe = P
            out = pm.probe
        else:
            pm = ProbePixelated.from_array(torch.tensor(P.copy()) if case.get("as") == "torch" else P.copy(), rng=0)
            if case["route"] == "probe":
                out = pm.probe
            else:
                out = pm._probe_orthogonalization_constraint(torch.tensor(P.copy()))
        out = out.detach().numpy().astype(np.complex128)
    _judge_modes(ctx, case, out, I_in, "orthogonalised probe", tol)


def _fft_int(modes):
    F = np.fft.fft2(np.asarray(modes, dtype=np.complex128), norm="ortho")
    return np.sum(np.abs(F) ** 2, axis=(-2, -1))


def _check_init(ctx, case):
    torch = _torch()
    from quantem.diffractive_imaging.probe_models import ProbePixelated

    M, h, w = case["M"], case["h"], case["w"]
    src = case["source"]
    wts = case["weights"]
    mi = float(case["mean_intensity"])
    if wts is None:
        exp_w = np.array([1 - 0.02 * (M - 1)] + [0.02] * (M - 1), dtype=np.float64)  # documented default
    else:
        exp_w = np.asarray(wts, dtype=np.float64) / float(np.sum(np.asarray(wts, dtype=np.float64)))
    wa = None if wts is None else (list(wts) if case["weights_as"] == "list" else np.asarray(wts, dtype=np.float64))
    nontrivial = M >= 2 and wts is not None and len(set(wts)) > 1
    ctx.record(case, nontrivial, ["init", "init:src=" + src, "init:M=%d" % M, "init:weights=" + ("default" if wts is None else "given")])

    with ctx.sut(case, "ProbePixelated.set_initial_probe"):
        if src == "params":
            from quantem.core.utils.utils import electron_wavelength_angstrom

            lam = float(electron_wavelength_angstrom(case["energy"]))
            rs = (case["semiangle"] * 1e-3 / lam) / case["r_px"]
            pp = {"energy": case["energy"], "semiangle_cutoff": case["semiangle"], "defocus": case["defocus"], "soft_edges": case["soft_edges"]}
            pm = ProbePixelated.from_params(pp, num_probes=M, initial_probe_weights=wa, rng=case["rng"])
        else:
            rs = 0.05
            P = B.probe_stack(case).astype(np.complex64)
            arr = P[0] if src == "array2d" else P
            if case.get("as") == "torch":
                arr = torch.tensor(arr.copy())
            pm = ProbePixelated.from_array(arr, initial_probe_weights=wa, rng=case["rng"])
        pm.set_initial_probe((h, w), np.array([rs, rs]), mi)
        if case.get("then_mean_intensity") is not None:
            mi = float(case["then_mean_intensity"])
            pm.set_initial_probe((h, w), np.array([rs, rs]), mi)
        ip = pm.initial_probe.detach().numpy().astype(np.complex128)
        live = pm._probe.detach().numpy().astype(np.complex128)
        pr = None
        if src == "array3d":
            pr = pm.probe.detach().numpy().astype(np.complex128)

    for name, arr in (("initial_probe", ip), ("probe parameters after set_initial_probe", live)):
        if tuple(arr.shape) != (M, h, w):
            raise core.Violation("%s has shape %s, expected %s" % (name, arr.shape, (M, h, w)), case)
        _fin(case, name, arr)
        Ik = _fft_int(arr)
        tot = float(Ik.sum())
        rel = abs(tot - mi) / mi
        ctx.extra["max_total_rel"] = max(ctx.extra.get("max_total_rel", 0.0), rel)
        if not rel <= RT_INT:
            raise core.Violation("%s: total diffraction intensity %.9g, measured mean intensity %.9g" % (name, tot, mi), case)
        fr = Ik / tot
        relw = float(np.max(np.abs(fr - exp_w) / exp_w))
        ctx.extra["max_weight_rel"] = max(ctx.extra.get("max_weight_rel", 0.0), relw)
        if not relw <= RT_INT:
            raise core.Violation(
                "%s: relative mode weights %s, requested %s" % (name, ["%.7g" % v for v in fr], ["%.7g" % v for v in exp_w]), case
            )
    if pr is not None:
        # the probe handed to the forward model: orthogonalisation keeps the multiset of mode
        # intensities, hence the total
        _fin(case, "probe", pr)
        tot = float(_fft_int(pr).sum())
        if not abs(tot - mi) / mi <= 2 * RT_INT:
            raise core.Violation("probe (after hard constraints): total intensity %.9g, measured mean intensity %.9g" % (tot, mi), case)


_RECON_READY = False


def _prep_recon():
    """One-time per process: warm quantem/torch up, then move everything allocated so far out of the
    garbage collector's sight.  reconstruct() calls gc.collect() twice per call, which costs ~0.2 s
    each with torch + hypothesis loaded and ~0 after gc.freeze(); freezing changes no behaviour."""
    global _RECON_READY
    if _RECON_READY:
        return
    import gc

    from vq.gen import c10_recon as RB

    warm = {"seed": 0, "M": 1, "S": 1, "thick": None, "obj_type": "complex", "obj_init": "uniform",
            "geom": {"R": 6, "C": 6, "gpts": [2, 2], "sampling": [0.4, 0.4], "step_px": [2.0, 2.0], "pad": [0, 0], "energy": 80e3, "counts": 100.0}}
    pt = RB.build(warm)
    pt.reconstruct(1, reset=True, optimizer_params={"object": {"type": "adam", "lr": 1e-3}})
    del pt
    gc.collect()
    gc.freeze()
    _RECON_READY = True


def _check_recon(ctx, case):
    import copy

    from vq.gen import c10_recon as RB

    b = case["build"]
    t, S, M = b["obj_type"], int(b["S"]), int(b["M"])
    calls = case["calls"]
    # what is requested, call by call (harness side)
    req_tie = [bool(c.get("constraints", {}).get("object", {}).get("identical_slices") is True) and S > 1 for c in calls]
    req_pos = [bool(c.get("constraints", {}).get("object", {}).get("positivity") is True) and t == "potential" for c in calls]
    req_orth = [bool(c.get("constraints", {}).get("probe", {}).get("orthogonalize_probe") is True) and M >= 2 for c in calls]
    same_call = any(c["reset"] and c.get("constraints", {}).get("object") for c in calls)
    cls = ["recon", "recon:calls=%d" % len(calls), "recon:obj=" + t, "recon:S=%d" % S, "recon:M=%d" % M]
    if same_call:
        cls.append("recon:reset_and_object_constraints_in_same_call")
    if any(c["reset"] and r for c, r in zip(calls, req_tie)):
        cls.append("recon:reset_and_identical_slices_in_same_call")
    if any((not c["reset"]) and c.get("constraints") for c in calls[1:]):
        cls.append("recon:constraints_changed_without_reset")
    ctx.record(case, any(req_tie) or any(req_pos) or any(req_orth), cls)

    _prep_recon()
    states = []
    with ctx.sut(case, "Ptychography: build, preprocess"):
        pt = RB.build(b)
        ip0 = pt.probe_model.initial_probe.detach().numpy().astype(np.complex128)
        mean_int = float(pt.dset.mean_diffraction_intensity)
    # the initial probe of the assembled reconstruction carries the measured mean intensity with the
    # default mode weights (no weights are requested here)
    Ik = _fft_int(ip0)
    if tuple(ip0.shape) != (M, b["geom"]["R"], b["geom"]["C"]):
        raise core.Violation("initial probe has shape %s" % (ip0.shape,), case)
    tot = float(Ik.sum())
    if not abs(tot - mean_int) <= RT_INT * mean_int:
        raise core.Violation("reconstruction set up: initial probe total diffraction intensity %.9g, measured mean intensity %.9g" % (tot, mean_int), case)
    exp_w = np.array([1 - 0.02 * (M - 1)] + [0.02] * (M - 1))
    if not np.max(np.abs(Ik / tot - exp_w) / exp_w) <= RT_INT:
        raise core.Violation("reconstruction set up: initial probe mode weights %s, default %s" % ((Ik / tot).tolist(), exp_w.tolist()), case)

    for k, c in enumerate(calls):
        kw = {"num_iters": int(c["num_iters"]), "reset": bool(c["reset"])}
        if c.get("opt"):
            kw["optimizer_params"] = copy.deepcopy(c["opt"])
        if "constraints" in c:
            kw["constraints"] = copy.deepcopy(c["constraints"])
        if c.get("batch_size"):
            kw["batch_size"] = int(c["batch_size"])
        with ctx.sut(case, "reconstruct() call %d" % (k + 1)):
            pt.reconstruct(**kw)
            om, pm = pt.obj_model, pt.probe_model
            raw_o = om.params.detach().numpy().copy()
            raw_p = pm.params[-1].detach().numpy().astype(np.complex128)
            obj = om.obj.detach().numpy().copy()
            pidx = pt.dset.forward(np.arange(int(pt.dset.num_gpts)), pt.obj_padding_px)[0]
            patches = om.forward(pidx).detach().numpy().copy()
            probe = pm.probe.detach().numpy().astype(np.complex128)
        states.append((raw_o, raw_p, obj, patches, probe))

    may_tie = False
    for k, (raw_o, raw_p, obj, patches, probe) in enumerate(states):
        who = "after reconstruct() call %d of %d (reset=%s): " % (k + 1, len(calls), calls[k]["reset"])
        may_tie = may_tie or req_tie[k]
        if not (np.all(np.isfinite(raw_o)) and np.all(np.isfinite(raw_p))):
            ctx.count("recon:diverged")  # the optimisation itself blew up: no admissible input any more
            return
        if tuple(obj.shape) != tuple(raw_o.shape):
            raise core.Violation("%sobj has shape %s, parameters %s" % (who, obj.shape, raw_o.shape), case)
        _fin(case, who + "obj", obj)
        _fin(case, who + "object patches handed to the forward model", patches)
        amp = np.abs(obj.astype(np.complex128))
        pamp = np.abs(patches.astype(np.complex128))
        if t == "complex":
            if float(amp.max()) - 1.0 > EPS_AMP or float(pamp.max()) - 1.0 > EPS_AMP:
                raise core.Violation("%scomplex object: max |o| = %.9g (patches %.9g) > 1" % (who, amp.max(), pamp.max()), case)
        elif t == "pure_phase":
            if not may_tie:  # a (possibly still active) slice tying shortens the phasors
                d = max(float(np.max(np.abs(amp - 1.0))), float(np.max(np.abs(pamp - 1.0))))
                if d > EPS_AMP:
                    raise core.Violation("%spure_phase object: |o| deviates from 1 by %.6g" % (who, d), case)
        else:
            if req_pos[k] and float(obj.min()) < 0.0:
                raise core.Violation("%spositivity requested in this call but the potential has min %.9g" % (who, obj.min()), case)
            if float(np.max(np.abs(pamp - 1.0))) > EPS_AMP:
                raise core.Violation("%stransmission exp(iV) handed to the forward model has |.| != 1" % who, case)
        if req_tie[k]:
            ctx.count("recon:tie_judged")
            spread_raw = float(np.max(np.abs(raw_o - raw_o[:1])))
            if spread_raw > 0:
                ctx.count("recon:tie_judged_with_untied_parameters")
            if not all(np.array_equal(obj[s], obj[0]) for s in range(1, S)):
                d = max(float(np.max(np.abs(obj[s] - obj[0]))) for s in range(1, S))
                raise core.Violation(
                    "%sidentical_slices=True was requested in this call but obj_model.obj slices differ by up to %.6g (raw parameters: %.6g)" % (who, d, spread_raw),
                    case,
                )
            if not all(np.array_equal(patches[s], patches[0]) for s in range(1, S)):
                d = max(float(np.max(np.abs(patches[s] - patches[0]))) for s in range(1, S))
                raise core.Violation("%sidentical_slices=True was requested in this call but the patches handed to the forward model differ between slices by up to %.6g" % (who, d), case)
        if req_orth[k]:
            G = B.gram(raw_p)
            I_in = np.real(np.diag(G)).copy()
            dd = np.sqrt(np.outer(I_in, I_in))
            Cn = G / dd
            ev = np.linalg.eigvalsh(Cn)
            off = np.abs(Cn - np.diag(np.diag(Cn)))
            if float(off.max()) > 0.99 or float(ev[0]) < 0.005:
                ctx.count("recon:orth_skipped_modes_outside_domain")
            else:
                ctx.count("recon:orth_judged")
                tol = ORTH_FLOOR + ORTH_K * EPS32 * float(ev[-1] / ev[0])
                _judge_modes(ctx, case, probe, I_in, who + "probe (orthogonalize_probe=True requested in this call)", tol, hw=(b["geom"]["R"], b["geom"]["C"]))


def check(ctx, case):
    k = case["kind"]
    if k == "obj":
        return _check_obj(ctx, case)
    if k == "tomo":
        return _check_tomo(ctx, case)
    if k == "ortho":
        return _check_ortho(ctx, case)
    if k == "init":
        return _check_init(ctx, case)
    if k == "obj_multi":
        return _check_obj_multi(ctx, case)
    if k == "tomo_multi":
        return _check_tomo_multi(ctx, case)
    if k == "recon":
        return _check_recon(ctx, case)
    raise core.HarnessError("unknown C10 case kind %r" % (k,))


def search(ctx):
    core.run_given(ctx, "obj", obj_cases(ctx), lambda c: check(ctx, c), ctx.n(1600, 16000))
    core.run_given(ctx, "obj_multi", obj_multi_cases(ctx), lambda c: check(ctx, c), ctx.n(350, 3500))
    core.run_given(ctx, "ortho", ortho_cases(), lambda c: check(ctx, c), ctx.n(1000, 10000))
    core.run_given(ctx, "init", init_cases(), lambda c: check(ctx, c), ctx.n(500, 5000))
    core.run_given(ctx, "tomo", tomo_cases(), lambda c: check(ctx, c), ctx.n(300, 3000))
    core.run_given(ctx, "tomo_multi", tomo_multi_cases(), lambda c: check(ctx, c), ctx.n(350, 3500))
    core.run_given(ctx, "recon", recon_cases(ctx), lambda c: check(ctx, c), ctx.n(150, 1500))

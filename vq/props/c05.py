"""C05 — checkpoint/resume equivalence for iterative ptychography (save, reload, clone).

Two case kinds.

resume   Differential on the *same call sequence*.  The iterations are cut into 2-3 segments.
         A  = a freshly built object that runs all segments without interruption (never saved or cloned).
         P  = a second, identically built object that runs segment 1 and is then saved and cloned.
         B  = Ptychography.from_file(saved P) -- re-saved and re-loaded at every later boundary (chain).
         C  = P.clone()                      -- re-cloned at every later boundary (chain).
         D  = P itself, continued after save()/clone() ("the original is unchanged").
         After every segment B, C and D must agree with A in loss history, learning-rate history, object,
         probe, iteration count and constraints (floating-point tolerance); immediately after a load or a
         clone the new object must report exactly what its source reported; save() must leave its source
         as it was (reported state, device, attribute set).
         The optimiser set may change along the sequence (a dataset / probe optimiser first attached by a
         call after an interruption), and in lineage cases the first interruption of the reload branch is a
         data-less checkpoint (save_raw_data=False + from_file(dset=...)) followed later by a with-data
         checkpoint and a clone of that object.  The batch order is outside the property: the harness
         re-installs the source's numpy generator state after every load/clone (see _set_rng_state) --
         except in SGD-only cases with align_rng False, which keep the library's own re-seeding so that a
         full-batch result depending on the drawn order is seen.  The gradient route may change from call to
         call (autograd <-> analytic gradients, descan_shifts_constant switched) under a dataset optimiser.
skip     History of Ptychography.save calls on ONE object with different skip= / save_raw_data= / store
         arguments.  Every save that is complete w.r.t. the property ("saved together with its data":
         save_raw_data=True, dataset not skipped) is reloaded and must report whatever that very call did
         not skip -- independent of what earlier calls skipped.  Every save that names something in skip=
         (str, type, list or tuple) is reloaded and what was named must be absent.

All inputs are pure functions of the JSON case (integer seeds + drawn parameters)."""

from __future__ import annotations

import contextlib
import copy
import gc
import io
import os

import numpy as np
from hypothesis import strategies as st

from vq import core
from vq.gen import c05_build as build

# ------------------------------------------------------------------------------------------------
# tolerances (see metas/c05.py for the measurements they are based on)
# ------------------------------------------------------------------------------------------------
LOSS_RTOL = 2e-5  # per-iteration loss, relative
LR_RTOL = 1e-6  # learning-rate history, relative
ARR_RTOL = 2e-4  # object / probe, relative to max|reference|
ARR_ATOL = 1e-6  # absolute floor (a potential object may be identically zero)
ADAM_REL = 2e-3  # x (sum of learning rates since the first interruption), Adam/AdamW-driven models only
# same, when a *fresh* Adam/AdamW takes its first step after the first interruption (k == 0, or a later call
# passes optimizer_params, which re-creates every optimizer): that step is lr*sign(g) exactly, so every
# component whose gradient lies below the float32 noise floor (or is analytically zero) moves by a full
# +-lr with a sign decided by the summation order; for k >= 1 that step lies in the bitwise-shared prefix.
# Measured: up to 1.7 % of the path on a well-illuminated pixel of a complex object starting at the |o| = 1
# clamp boundary.
ADAM_REL_FRESH = 5e-2
SAME_RTOL = 1e-7  # "reports the same object/probe" right after load/clone, relative to max
SAME_ATOL = 1e-12
# a reference run whose loss grows beyond this factor (or is not finite) is a diverging optimisation:
# rounding differences are amplified without bound, "same to floating-point tolerance" is undefined
DIVERGE_FACTOR = 50.0

STATS = {}  # label -> worst err/tol ratio seen in this process (reported in the evidence file)
_READY = False


def _prep():
    """One-time per process: warm quantem/torch up, then move everything allocated so far out of the
    garbage collector's sight.  reconstruct() calls gc.collect() twice per call, which costs 0.2 s each
    with torch + hypothesis loaded and ~0 after gc.freeze(); freezing changes no program behaviour."""
    global _READY
    if _READY:
        return
    warm = {
        "seed": 0,
        "geom": {"R": 6, "C": 6, "gpts": [2, 2], "sampling": [0.4, 0.4], "step_px": [2.0, 2.0], "pad": [0, 0], "energy": 80e3, "counts": 100.0},
        "M": 1,
        "S": 1,
        "thick": None,
        "obj_type": "complex",
        "obj_init": "uniform",
        "probe_init": "array",
    }
    pt = build.build(warm)
    pt.reconstruct(1, reset=True, optimizer_params={"object": {"type": "adam", "lr": 1e-3}})
    del pt
    gc.collect()
    gc.freeze()
    _READY = True


def _np(t):
    if isinstance(t, np.ndarray):
        return t
    if hasattr(t, "detach"):
        return t.detach().cpu().numpy()
    return np.asarray(t)


def _fail(case, msg):
    raise core.Violation(msg, case)


# ------------------------------------------------------------------------------------------------
# reported state
# ------------------------------------------------------------------------------------------------
def _norm(v):
    """Constraint values -> plain comparable python (tensors/arrays -> nested lists)."""
    if isinstance(v, dict):
        return {str(k): _norm(x) for k, x in v.items()}
    if isinstance(v, (list, tuple)):
        return [_norm(x) for x in v]
    if hasattr(v, "detach") or isinstance(v, np.ndarray):
        return _np(v).tolist()
    if isinstance(v, np.generic):
        return v.item()
    return v


def _report(pt, items=("num_iters", "iter_losses", "iter_lrs", "constraints", "obj", "probe")):
    r = {}
    if "num_iters" in items:
        r["num_iters"] = int(pt.num_iters)
    if "iter_losses" in items:
        r["iter_losses"] = np.array(pt.iter_losses, dtype=np.float64)
    if "iter_lrs" in items:
        r["iter_lrs"] = {str(k): np.array(v, dtype=np.float64) for k, v in pt.iter_lrs.items()}
    if "constraints" in items:
        r["constraints"] = _norm(pt.constraints)
    if "obj" in items:
        r["obj"] = np.array(pt.obj)
    if "probe" in items:
        r["probe"] = np.array(pt.probe)
    return r


def _stat(label, err, tol):
    r = float(err) / max(float(tol), 1e-300)
    if r > STATS.get(label, -1.0):
        STATS[label] = r
    return r


def _cmp_arr(case, who, name, got, want, rtol, atol, label):
    got = np.asarray(got)
    want = np.asarray(want)
    if got.shape != want.shape:
        _fail(case, "%s: %s has shape %s, expected %s" % (who, name, got.shape, want.shape))
    if got.size == 0:
        return
    if np.iscomplexobj(got) != np.iscomplexobj(want):
        _fail(case, "%s: %s is %s, expected %s" % (who, name, got.dtype, want.dtype))
    if not np.all(np.isfinite(got)):
        _fail(case, "%s: %s is not finite where the reference is" % (who, name))
    err = float(np.max(np.abs(got - want)))
    tol = atol + rtol * float(np.max(np.abs(want)))
    if _stat(label, err, tol) > 1.0:
        _fail(case, "%s: %s differs by %.3e (max|ref| = %.3e, tolerance %.3e)" % (who, name, err, float(np.max(np.abs(want))), tol))


def _cmp_series(case, who, name, got, want, rtol, label):
    """Element-wise relative comparison of a 1-D history."""
    got = np.asarray(got, dtype=np.float64)
    want = np.asarray(want, dtype=np.float64)
    if got.shape != want.shape:
        _fail(case, "%s: %s has %s entries, expected %s" % (who, name, got.shape, want.shape))
    if got.size == 0:
        return
    if not np.all(np.isfinite(got)):
        _fail(case, "%s: %s is not finite where the reference is" % (who, name))
    tol = rtol * np.abs(want) + (1e-300 if rtol else 0.0)
    err = np.abs(got - want)
    if rtol == 0.0:
        if np.any(err != 0):
            i = int(np.argmax(err))
            _fail(case, "%s: %s[%d] = %r, expected exactly %r" % (who, name, i, float(got[i]), float(want[i])))
        return
    ratio = err / np.maximum(tol, 1e-300)
    i = int(np.argmax(ratio))
    if _stat(label, err[i], max(tol[i], 1e-300)) > 1.0:
        _fail(case, "%s: %s[%d] = %.9g, expected %.9g (relative tolerance %.0e)" % (who, name, i, float(got[i]), float(want[i]), rtol))


def _illumination(pt):
    """Harness-side illumination map of the object grid: sum over scan positions of the initial probe
    intensity scattered to the patch indices (np.add.at).  Returns a boolean (H, W) mask of the
    well-illuminated pixels (> 5 % of the maximum)."""
    idx = _np(pt.dset.patch_indices).astype(np.int64)
    p = np.sum(np.abs(np.array(pt.probe)) ** 2, axis=0)
    shape = tuple(int(v) for v in pt.obj_shape_full[-2:])
    ill = np.zeros(shape[0] * shape[1])
    np.add.at(ill, idx.ravel(), np.broadcast_to(p, idx.shape).ravel())
    return (ill > 0.05 * ill.max()).reshape(shape)


def _adam_slack(want, view, key):
    """Extra absolute tolerance for a model driven by Adam/AdamW: ADAM_REL x the sum of its learning
    rates over the iterations run since the first interruption (0 for SGD)."""
    if not view.get(key + "_adam"):
        return 0.0
    lrs = np.asarray(want["iter_lrs"].get(key, []), dtype=np.float64)
    return (ADAM_REL_FRESH if view.get("fresh_adam") else ADAM_REL) * float(np.sum(lrs[view["k0"] :]))


def _cmp_obj(case, who, got, want_report, view):
    """Continuation comparison of the object.

    Pixel set.  Every pixel for an SGD-driven potential object (or analytic gradients).  Otherwise the
    well-illuminated pixels only:
      * Adam/AdamW normalises every pixel's step to ~lr whatever the size of its gradient, and the
        gradient comes back through float32 FFTs, whose rounding error is relative to the largest
        gradient of the array (measured 1e-7*max|g| per pixel, absolute).  A weakly illuminated pixel with
        |g| ~ 1e-5*max|g| therefore takes steps that differ by ~1e-2*lr between two summation orders --
        and the order legitimately differs after a reload (the pattern order is re-seeded).
      * complex / pure_phase objects with autograd: the mean phase is subtracted inside the forward model,
        so every pixel's gradient carries -mean(h) with sum(h) == 0 analytically (global-phase invariance):
        pure rounding noise, and all a never-illuminated pixel sees.  Through the mean-phase subtraction of
        the `obj` property those pixels shift the reported object by a global phase, which is removed.
    Tolerance.  ARR_ATOL + ARR_RTOL*max|ref| (+ ADAM_REL * sum of the object learning rates since the first
    interruption when the object is driven by Adam/AdamW)."""
    want = np.asarray(want_report["obj"])
    got = np.asarray(got)
    if got.shape != want.shape:
        _fail(case, "%s: obj has shape %s, expected %s" % (who, got.shape, want.shape))
    slack = _adam_slack(want_report, view, "object")
    if not (view["gauge"] or view.get("object_adam")):
        return _cmp_arr(case, who, "obj", got, want, ARR_RTOL, ARR_ATOL, "obj")
    W = view["W"]
    g = got[:, W]
    w = want[:, W]
    if not np.all(np.isfinite(got)):
        _fail(case, "%s: obj is not finite where the reference is" % who)
    ph = 1.0
    if view["gauge"]:
        z = np.sum(g * np.conj(w))
        ph = z / abs(z) if abs(z) > 0 else 1.0
    err = float(np.max(np.abs(g * np.conj(ph) - w)))
    tol = ARR_ATOL + ARR_RTOL * float(np.max(np.abs(w))) + slack
    if _stat("obj", err, tol) > 1.0:
        _fail(
            case,
            "%s: obj differs by %.3e on the well-illuminated pixels%s (tolerance %.3e)"
            % (who, err, " after removing a global phase" if view["gauge"] else "", tol),
        )


def _cmp_report(case, who, got, want, exact, view=None):
    """exact=True: 'reports the same' right after load/clone/save; else continuation tolerance."""
    for key in want:
        if key not in got:
            raise core.HarnessError("report item %s missing" % key)
    if "num_iters" in want and got["num_iters"] != want["num_iters"]:
        _fail(case, "%s: num_iters = %d, expected %d" % (who, got["num_iters"], want["num_iters"]))
    if "iter_losses" in want:
        _cmp_series(case, who, "iter_losses", got["iter_losses"], want["iter_losses"], 0.0 if exact else LOSS_RTOL, "loss")
    if "iter_lrs" in want:
        if sorted(got["iter_lrs"]) != sorted(want["iter_lrs"]):
            _fail(case, "%s: iter_lrs has keys %s, expected %s" % (who, sorted(got["iter_lrs"]), sorted(want["iter_lrs"])))
        for k in want["iter_lrs"]:
            _cmp_series(case, who, "iter_lrs[%s]" % k, got["iter_lrs"][k], want["iter_lrs"][k], 0.0 if exact else LR_RTOL, "lr")
    if "constraints" in want and got["constraints"] != want["constraints"]:
        diff = _dict_diff(got["constraints"], want["constraints"])
        _fail(case, "%s: constraints differ: %s" % (who, diff))
    for name in ("obj", "probe"):
        if name in want:
            if exact:
                _cmp_arr(case, who, name, got[name], want[name], SAME_RTOL, SAME_ATOL, "same_" + name)
            elif name == "obj":
                _cmp_obj(case, who, got[name], want, view)
            else:
                _cmp_arr(case, who, name, got[name], want[name], ARR_RTOL, ARR_ATOL + _adam_slack(want, view, "probe"), name)


def _dict_diff(a, b, prefix=""):
    out = []
    if isinstance(a, dict) and isinstance(b, dict):
        for k in sorted(set(a) | set(b)):
            if k not in a:
                out.append("%s%s missing" % (prefix, k))
            elif k not in b:
                out.append("%s%s unexpected" % (prefix, k))
            elif a[k] != b[k]:
                out.append(_dict_diff(a[k], b[k], prefix + k + "."))
    else:
        out.append("%s = %r, expected %r" % (prefix.rstrip("."), a, b))
    return "; ".join(out)[:400]


# ------------------------------------------------------------------------------------------------
# the call sequence
# ------------------------------------------------------------------------------------------------
def _common_kw(case):
    return {"autograd": bool(case["autograd"]), "loss_type": case["loss_type"]}


def _first_call(pt, case, n_iters):
    kw = _common_kw(case)
    kw.update(num_iters=int(n_iters), reset=True, optimizer_params=copy.deepcopy(case["opt"]), constraints=copy.deepcopy(case["constraints"]))
    if case.get("sched"):
        kw["scheduler_params"] = copy.deepcopy(case["sched"])
    if case.get("snap"):
        kw["store_snapshots_every"] = 1
    if case.get("batch") == "num":
        kw["batch_size"] = int(pt.dset.num_gpts)
    if case.get("device_arg"):
        kw["device"] = "cpu"
    pt.reconstruct(**kw)


def _later_call(pt, case, spec, n_iters):
    kw = _common_kw(case)
    kw["num_iters"] = int(n_iters)
    if "autograd" in spec:  # the gradient route may change from call to call
        kw["autograd"] = bool(spec["autograd"])
    if spec.get("constraints"):
        kw["constraints"] = copy.deepcopy(spec["constraints"])
    if spec.get("sched"):
        kw["scheduler_params"] = copy.deepcopy(spec["sched"])
    if spec.get("opt"):
        kw["optimizer_params"] = copy.deepcopy(spec["opt"])
    if spec.get("device_arg"):
        kw["device"] = "cpu"
    pt.reconstruct(**kw)


def _save_load(ctx, case, who, src, store, load_device, dataless=False, align=True):
    """save(src) -> from_file; checks that save left src as it was and that the loaded object reports
    what src reported.  Returns the loaded object.

    dataless=True: the documented route for checkpoints without raw data -- save() with its default
    save_raw_data=False, then from_file(path, dset=<the dataset, rebuilt and preprocessed by the caller>).
    Learned scan positions / descan shifts travel in the file; the dataset model's own optimiser, scheduler
    and constraints do not (the case never has any at that point, or re-states them in the next call)."""
    Q = build.q()
    before = _report(src)
    keys0 = set(vars(src))
    dev0 = src.device
    rng_state = _rng_state(src)
    path = ctx.tmp(".zip" if store == "zip" else "")
    what = "save_raw_data=False" if dataless else "save_raw_data=True"
    with ctx.sut(case, "%s: Ptychography.save(%s, store=%r)" % (who, what, store)):
        if dataless:
            src.save(path, store=store, verbose=0)
        else:
            src.save(path, save_raw_data=True, store=store, verbose=0)
    if not os.path.exists(path):
        _fail(case, "%s: save() returned without creating %s store" % (who, store))
    with ctx.sut(case, "%s: reading the state of the saved object after save()" % who):
        after = _report(src)
    _cmp_report(case, "%s: object after its own save()" % who, after, before, exact=True)
    if src.device != dev0:
        _fail(case, "%s: save() changed the device of the saved object from %r to %r" % (who, dev0, src.device))
    keys1 = set(vars(src))
    # (a data-less save of an object that was itself loaded from a data-less file drops the loaded
    # _dataset_metadata again: harmless, not judged)
    if keys1 - keys0 or (keys0 - keys1) - {"_dataset_metadata"}:
        _fail(case, "%s: save() changed the attribute set of the saved object (added %s, removed %s)" % (who, sorted(keys1 - keys0), sorted(keys0 - keys1)))
    kw = {"device": load_device} if load_device else {}
    if dataless:
        fresh = build.build_dataset(case)
        with ctx.sut(case, "%s: Ptychography.from_file(path, dset=<rebuilt dataset>)" % who):
            new = Q.Ptychography.from_file(path, dset=fresh, **kw)
    else:
        with ctx.sut(case, "%s: Ptychography.from_file" % who):
            new = Q.Ptychography.from_file(path, **kw)
    with ctx.sut(case, "%s: reading the state of the reloaded object" % who):
        got = _report(new)
    if align:
        _set_rng_state(new, rng_state)
    if dataless:
        got["constraints"].pop("dataset", None)
        before = dict(before, constraints={k: v for k, v in before["constraints"].items() if k != "dataset"})
    _cmp_report(case, "%s: reloaded object vs the one that was saved" % who, got, before, exact=True)
    _rm(path)
    return new


def _rng_state(pt):
    return copy.deepcopy(pt.rng.bit_generator.state)


def _set_rng_state(pt, state):
    """The order of the patterns inside the full batch is drawn from the object's numpy generator, whose
    state is not restored by a reload (and clone() may draw from its source's generator): the property
    excludes that order.  The harness therefore re-installs the state the source had (public `rng`
    property) so that every branch sums in the same order as the uninterrupted run and float32 rounding --
    and with it every noise-decided Adam step -- is identical instead of merely close.

    Cases with align_rng == False skip this: there every branch keeps the generator the library gives it
    (fresh and unseeded after a reload), which is the situation the property describes -- full-batch results
    must not depend on the order beyond float rounding.  Only drawn when every optimiser is SGD (rounding
    noise then stays at the 1e-7 level; Adam turns it into lr-sized steps, see ADAM_REL_FRESH)."""
    pt.rng.bit_generator.state = copy.deepcopy(state)


def _clone(ctx, case, who, src, align=True):
    before = _report(src)
    rng_state = _rng_state(src)
    with ctx.sut(case, "%s: clone()" % who):
        new = src.clone()
    if align:
        if new is not src:
            _set_rng_state(new, rng_state)
        _set_rng_state(src, rng_state)
    if new is src:
        _fail(case, "%s: clone() returned the object itself" % who)
    with ctx.sut(case, "%s: reading the state of the clone / the cloned object" % who):
        got = _report(new)
        after = _report(src)
    _cmp_report(case, "%s: clone vs the object that was cloned" % who, got, before, exact=True)
    _cmp_report(case, "%s: object after its own clone()" % who, after, before, exact=True)
    return new


def _rm(path):
    import shutil

    if os.path.isdir(path):
        shutil.rmtree(path, ignore_errors=True)
    elif os.path.exists(path):
        os.remove(path)


def _plan(case):
    """Every model that is optimised in some call -> the parameters it is first given."""
    plan = {k: v for k, v in case["opt"].items()}
    for sp in case["later"]:
        for k, v in (sp.get("opt") or {}).items():
            plan.setdefault(k, v)
    return plan


def _attached_later(case):
    """[(call index (1-based, >= 2), key)] for optimisers first attached after the first call."""
    seen = set(case["opt"])
    out = []
    for i, sp in enumerate(case["later"]):
        for k in sp.get("opt") or {}:
            if k not in seen:
                seen.add(k)
                out.append((i + 2, k))
    return out


def _stateful(opt):
    for v in opt.values():
        t = str(v.get("type", "adam")).lower()
        if t in ("adam", "adamw") or (t == "sgd" and v.get("momentum", 0)):
            return True
    return False


def _has_sched(s):
    return any(v and str(v.get("type", "none")).lower() != "none" for v in (s or {}).values())


def _finite_report(r):
    return bool(np.all(np.isfinite(r["iter_losses"])) and np.all(np.isfinite(r["obj"])) and np.all(np.isfinite(r["probe"])))


def _check_resume(ctx, case):
    _prep()
    segs = [int(s) for s in case["segments"]]
    n = sum(segs)
    k = segs[0]
    later = case["later"]
    interior = 0 < k < n
    carried_opt = not later[0].get("opt")
    nontrivial = bool(interior and ((_stateful(case["opt"]) and carried_opt) or (_has_sched(case["sched"]) and carried_opt and not later[0].get("sched"))))
    plan = _plan(case)
    attached = _attached_later(case)
    # an optimiser first attached in a call after an interruption, with iterations still to run
    if any(sum(segs[ci - 1 :]) > 0 for ci, _k in attached):
        nontrivial = True
    align = bool(case.get("align_rng", True))
    calls_autograd = [bool(case["autograd"])] + [bool(sp.get("autograd", case["autograd"])) for sp in later]
    stateful_ds = "dataset" in plan and _stateful({"dataset": plan["dataset"]})
    route = []
    for i in range(1, len(calls_autograd)):
        if calls_autograd[i] != calls_autograd[i - 1] and sum(segs[i:]) > 0:
            route.append("autograd_%s_to_%s" % (calls_autograd[i - 1], calls_autograd[i]))
    on_before = bool(((case.get("constraints") or {}).get("dataset") or {}).get("descan_shifts_constant"))
    for i, sp in enumerate(later):
        v = ((sp.get("constraints") or {}).get("dataset") or {}).get("descan_shifts_constant")
        if v is not None:
            if bool(v) != on_before and sum(segs[i + 1 :]) > 0 and "dataset" in plan:
                route.append("descan_shifts_constant_switched_%s" % ("on" if v else "off"))
            on_before = bool(v)
    # the route by which some optimised parameter receives its gradient changes between two calls, while a
    # stateful optimiser owns dataset parameters (analytic gradients fill object and probe only)
    if route and stateful_ds and sum(segs[:1]) > 0:
        nontrivial = True
    # continuation under the library's own re-seeding of the batch order, at least 2 iterations
    if not align and k > 0 and n - k >= 2:
        nontrivial = True
    lineage = bool(case.get("dataless_first"))
    # a data-less checkpoint earlier, a with-data checkpoint / clone later, a learned dataset in between
    if lineage and len(segs) == 3 and min(segs) > 0 and "dataset" in plan:
        nontrivial = True
    classes = ["resume", "store:" + case["store"], "obj:" + case["obj_type"], "obj_init:" + case["obj_init"], "M%d" % case["M"], "S%d" % case["S"]]
    classes += sorted({"opt:" + str(v.get("type")) + ("+momentum" if v.get("momentum") else "") for v in case["opt"].values()})
    classes += sorted({"sched:" + str(v.get("type")) for v in (case["sched"] or {}).values() if v} or {"sched:none"})
    classes.append("split:first" if k == 0 else "split:last" if k == n else "split:interior")
    classes.append("boundaries:%d" % (len(segs) - 1))
    if "dataset" in plan:
        classes.append("dataset_optimiser")
    for _ci, kk in attached:
        classes.append("later_call_attaches_%s_optimiser" % kk)
    if lineage:
        classes.append("lineage:dataless_checkpoint_then_full_checkpoint")
    for r_ in route:
        classes.append("route:" + r_ + ("+stateful_dataset_optimiser" if stateful_ds else ""))
    if not align:
        classes.append("rng_not_aligned")
        tvd = [((c_ or {}).get("dataset") or {}).get("descan_tv_weight", 0) for c_ in [case.get("constraints")] + [sp.get("constraints") for sp in later]]
        if any(tvd) and "dataset" in plan:
            classes.append("rng_not_aligned+descan_tv")
    if not all(calls_autograd):
        classes.append("analytic_gradients")
    if case["loss_type"] != "l2_amplitude":
        classes.append("loss:" + case["loss_type"])
    if case.get("snap"):
        classes.append("snapshots")
    if case.get("load_device"):
        classes.append("from_file(device=cpu)")
    for sp in later:
        for kk in ("constraints", "sched", "opt"):
            if sp.get(kk):
                classes.append("later_call_sets_" + kk)
    ctx.record(case, nontrivial, classes)

    # ---- reference run A: never saved, never cloned.  An exception here is not a C05 matter. -------
    try:
        A = build.build(case)
        P = build.build(case)
        init_obj = np.array(A.obj)
        view = {
            "gauge": case["obj_type"] != "potential" and any(calls_autograd),
            "W": _illumination(A),
            "k0": k,
            "fresh_adam": k == 0 or any(sp.get("opt") for sp in later),
            "object_adam": str(plan["object"]["type"]).lower() != "sgd",
            "probe_adam": "probe" in plan and str(plan["probe"]["type"]).lower() != "sgd",
        }
        _first_call(A, case, segs[0])
        refs = [_report(A)]
        for i in range(1, len(segs)):
            _later_call(A, case, later[i - 1], segs[i])
            refs.append(_report(A))
    except core.Violation:
        raise
    except Exception as e:  # noqa: BLE001
        ctx.count("reference_run_raises:" + type(e).__name__)
        return
    if not all(_finite_report(r) for r in refs):
        ctx.count("reference_run_not_finite")
        return
    losses = refs[-1]["iter_losses"]
    diverges = bool(losses.size and float(np.max(losses)) > DIVERGE_FACTOR * float(losses[0]))
    if diverges:
        # only the exact "reports the same" checks at the first boundary are meaningful
        ctx.count("reference_run_diverges")
    else:
        if float(np.max(np.abs(refs[-1]["obj"] - init_obj))) > 1e-4:
            ctx.count("object_moved")
        if nontrivial:
            ctx.count("nontrivial_and_compared")

    # ---- P: same first call, then interrupted -----------------------------------------------------
    with ctx.sut(case, "first reconstruct() call on the second, identically built object"):
        _first_call(P, case, segs[0])
        p0 = _report(P)
    # two identically built and identically driven objects agree (harness sanity: determinism)
    try:
        _cmp_report(case, "P", p0, refs[0], exact=False, view=view)
    except core.Violation as v:
        raise core.HarnessError("two identical uninterrupted runs disagree: %s" % v.msg)

    B = _save_load(ctx, case, "boundary 1", P, case["store"], case.get("load_device"), dataless=lineage, align=align)
    C = _clone(ctx, case, "boundary 1", P, align=align)
    D = P
    E = None  # lineage cases: a clone taken at a later boundary from the object that was loaded data-less
    if diverges:
        return
    for i in range(1, len(segs)):
        spec = later[i - 1]
        runs = [("reloaded object", B), ("clone", C), ("original after save()/clone()", D)]
        if E is not None:
            runs.insert(1, ("clone of the reloaded object", E))
        if case.get("orig_first"):
            runs = runs[::-1]
        for who, o in runs:
            with ctx.sut(case, "%s: reconstruct() call %d" % (who, i + 1)):
                _later_call(o, case, spec, segs[i])
                got = _report(o)
            _cmp_report(case, "%s after call %d vs the uninterrupted run" % (who, i + 1), got, refs[i], exact=False, view=view)
        if i + 1 < len(segs):
            store2 = "dir" if case["store"] == "zip" else "zip"
            if lineage:
                E = _clone(ctx, case, "boundary %d (object loaded from a data-less checkpoint)" % (i + 1), B, align=align)
            B = _save_load(ctx, case, "boundary %d (second-generation)" % (i + 1), B, store2, case.get("load_device"), align=align)
            C = _clone(ctx, case, "boundary %d (second-generation)" % (i + 1), C, align=align)
    del A, B, C, D, E, P


# ------------------------------------------------------------------------------------------------
# skip history
# ------------------------------------------------------------------------------------------------
SKIP_MENU = ["_iter_losses", "_iter_lrs", "_snapshots", "_iter_recon_types", "_iter_val_losses", "_obj_fov_mask", "_dset", "dset", "type:list", "type:dict"]
# which reported items need which top-level attribute
NEEDS = {
    "num_iters": {"_iter_losses", "type:list"},
    "iter_losses": {"_iter_losses", "type:list"},
    "iter_lrs": {"_iter_lrs", "type:dict"},
    "snapshots": {"_snapshots", "type:list"},
}


def _skip_arg(names, form):
    vals = [{"type:list": list, "type:dict": dict}.get(s, s) for s in names]
    if form == "str" and len(vals) == 1:
        return vals[0]
    if form == "tuple":
        return tuple(vals)
    return list(vals)


def _complete(sv):
    return bool(sv["raw"]) and "_dset" not in sv["skip"] and "dset" not in sv["skip"]


def _check_skip(ctx, case):
    _prep()
    Q = build.q()
    saves = case["saves"]
    # effective skip names per call (reuse => the very list object of the previous call)
    eff = []
    for i, sv in enumerate(saves):
        eff.append(list(eff[i - 1]) if (sv.get("reuse") and i > 0) else list(sv["skip"]))
    judged = [i for i, sv in enumerate(saves) if _complete({"raw": sv["raw"], "skip": eff[i]})]
    nontrivial = False
    for i in judged:
        earlier = set()
        for j in range(i):
            earlier |= set(eff[j])
            if not saves[j]["raw"]:
                earlier |= {"_dset", "dset"}
        if earlier - set(eff[i]):
            nontrivial = True
    classes = ["skip", "saves:%d" % len(saves)]
    if any(not sv["raw"] for sv in saves):
        classes.append("skip:history_has_save_without_raw_data")
    if any(sv.get("reuse") for sv in saves[1:]):
        classes.append("skip:caller_reuses_list")
    if any(s.startswith("type:") for e in eff for s in e):
        classes.append("skip:by_type")
    for sv, e in zip(saves, eff):
        if e:
            f_ = sv.get("form", "list")
            f_ = ("bare_" + ("type" if e[0].startswith("type:") else "str")) if (f_ == "str" and len(e) == 1) else ("list" if f_ == "str" else f_)
            classes.append("skip:form_" + f_)
    ctx.record(case, nontrivial, classes)

    try:
        P = build.build(case)
        _first_call(P, case, int(case["iters"]))
        ref = _report(P)
        ref["snapshots"] = [int(s["iteration"]) for s in P.snapshots]
    except Exception as e:  # noqa: BLE001
        ctx.count("reference_run_raises:" + type(e).__name__)
        return
    if not _finite_report(ref):
        ctx.count("reference_run_not_finite")
        return
    keys0 = set(vars(P))
    prev_arg = None
    for i, sv in enumerate(saves):
        names = eff[i]
        if sv.get("reuse") and i > 0 and isinstance(prev_arg, list):
            arg = prev_arg  # the caller passes its own list object again
        else:
            arg = _skip_arg(names, sv.get("form", "list"))
        prev_arg = arg
        path = ctx.tmp(".zip" if sv["store"] == "zip" else "")
        who = "save #%d (skip=%s, save_raw_data=%s)" % (i + 1, names, sv["raw"])
        with ctx.sut(case, "%s: Ptychography.save" % who):
            P.save(path, skip=arg, save_raw_data=bool(sv["raw"]), store=sv["store"], verbose=0)
        keys1 = set(vars(P))
        if keys1 != keys0:
            _fail(case, "%s changed the attribute set of the saved object (added %s, removed %s)" % (who, sorted(keys1 - keys0), sorted(keys0 - keys1)))
        with ctx.sut(case, "%s: reading the state of the saved object afterwards" % who):
            after = _report(P)
        _cmp_report(case, "%s: object after its own save()" % who, after, {k: v for k, v in ref.items() if k != "snapshots"}, exact=True)
        L = None
        if names or i in judged:
            with ctx.sut(case, "%s: Ptychography.from_file" % who):
                with contextlib.redirect_stdout(io.StringIO()):  # "Warning: No dataset metadata ..." for data-less files
                    L = Q.Ptychography.from_file(path)
        if names:
            # what the caller named in skip= (by attribute name or by type, in whatever documented form:
            # str | type | Sequence[str | type]) is not in the file, hence not on the reloaded object
            have = vars(L)
            present = [s_ for s_ in names if not s_.startswith("type:") and s_ in have]
            for s_ in names:
                if s_.startswith("type:"):
                    t_ = {"type:list": list, "type:dict": dict}[s_]
                    present += ["%s (a %s)" % (a_, t_.__name__) for a_, v_ in have.items() if type(v_) is t_]
            if present:
                _fail(case, "%s with skip given as %s: reloaded object still has %s" % (who, type(arg).__name__, sorted(present)))
        if i in judged:
            skipped = set(names)
            items = [k for k in ("num_iters", "iter_losses", "iter_lrs") if not (NEEDS[k] & skipped)] + ["constraints", "obj", "probe"]
            with ctx.sut(case, "%s: reading %s of the reloaded object (not skipped in this call)" % (who, items)):
                got = _report(L, items)
                snaps = None
                if not (NEEDS["snapshots"] & skipped):
                    snaps = [int(s["iteration"]) for s in L.snapshots]
            _cmp_report(case, "%s: reloaded object vs the one that was saved" % who, got, {k: ref[k] for k in got}, exact=True)
            if snaps is not None and snaps != ref["snapshots"]:
                _fail(case, "%s: reloaded object has snapshots of iterations %s, saved object %s" % (who, snaps, ref["snapshots"]))
            if case.get("continue") and not (skipped & {"_iter_losses", "_iter_lrs", "_snapshots", "_iter_recon_types", "_iter_val_losses", "_obj_fov_mask", "type:list", "type:dict"}):
                with ctx.sut(case, "%s: reconstruct() on the reloaded object" % who):
                    _later_call(L, case, {}, 1)
                if int(L.num_iters) != ref["num_iters"] + 1:
                    _fail(case, "%s: reloaded object reports %d iterations after one more, expected %d" % (who, int(L.num_iters), ref["num_iters"] + 1))
        del L
        _rm(path)
    del P


# ------------------------------------------------------------------------------------------------
# generators
# ------------------------------------------------------------------------------------------------
SEEDS = st.integers(0, 2**31 - 1)


def _fl(lo, hi, nd=4):
    return st.floats(lo, hi, allow_nan=False, allow_infinity=False).map(lambda v: round(v, nd))


def _lr(lo, hi):
    """log-uniform learning rate, 3 significant digits."""
    import math

    return st.floats(math.log10(lo), math.log10(hi)).map(lambda e: float("%.3g" % (10.0**e)))


def _rare(draw, n):
    """True with probability ~1/n; the simplest (shrunk / first) draw is False."""
    return draw(st.integers(0, n - 1)) == n - 1


@st.composite
def _geometry(draw, with_dataset_opt):
    side = st.sampled_from([8, 6, 4, 10, 12, 5, 7, 9])
    R, C = draw(side), draw(side)
    gpts = [draw(st.integers(2, 5)), draw(st.integers(2, 5))]
    if with_dataset_opt:
        # scan positions are learned: keep them at integer object pixels so that no position sits near a
        # rounding boundary (x.5), where rounding noise would legitimately move a patch by one pixel
        sp = st.integers(1, 3).map(float)
    else:
        sp = st.one_of(st.integers(1, 3).map(float), _fl(1.05, 3.0, 2))
    step = [draw(sp), draw(sp)]
    for a in (0, 1):
        if gpts[a] == 2 and step[a] < 1.05:
            step[a] = 2.0  # a field of view of exactly one object pixel is degenerate (build raises)
    return {
        "R": R,
        "C": C,
        "gpts": gpts,
        "sampling": [draw(_fl(0.2, 0.8, 2)), draw(_fl(0.2, 0.8, 2))],
        "step_px": step,
        "pad": [draw(st.integers(0, 4)), draw(st.integers(0, 4))],
        "energy": draw(st.sampled_from([80e3, 200e3, 300e3])),
        "counts": draw(st.sampled_from([100.0, 1.0, 1e4])),
    }


@st.composite
def _optimizer(draw, key, family=None, parametric=False):
    """family: None (free), 'sgd' or 'adam' (a later call keeps the family of the first, see _constraints)."""
    if family == "sgd":
        t = "sgd"
    elif family == "adam":
        t = draw(st.sampled_from(["adam", "adamw"]))
    else:
        t = draw(st.sampled_from(["adam", "adamw", "sgd", "adam", "adamw"]))
    if key == "probe" and parametric:
        # parameters are aberration coefficients in Angstrom / radians
        lr = draw(_lr(1e-2, 1.0)) if t != "sgd" else draw(_lr(1e-1, 10.0))
    elif t == "sgd":
        if _rare(draw, 4):
            lr = 1  # a Python int: the textbook unit step; iter_lrs then mixes ints and floats
        else:
            # dataset: scan positions then move <= 0.1 px in 6 iterations (measured), far from x.5
            lr = draw(_lr(1e-3, 5e-2) if key != "dataset" else _lr(1e-2, 0.2))
    else:
        # dataset/Adam: <= 1.6*lr px per iteration, <= 0.3 px in 6 iterations
        lr = draw({"object": _lr(1e-3, 5e-2), "probe": _lr(1e-3, 2e-2), "dataset": _lr(1e-3, 3e-2)}[key])
    d = {"type": t, "lr": lr}
    if t == "sgd" and lr != 1 and draw(st.booleans()):
        d["momentum"] = draw(st.sampled_from([0.5, 0.9]))
    if t != "sgd":
        extra = draw(st.sampled_from(["", "", "betas", "amsgrad", "weight_decay"]))
        if extra == "betas":
            d["betas"] = draw(st.sampled_from([[0.8, 0.99], [0.5, 0.9], [0.9, 0.999]]))
        elif extra == "amsgrad":
            d["amsgrad"] = True
        elif extra == "weight_decay":
            d["weight_decay"] = draw(st.sampled_from([0.01, 0.1]))
    return d


@st.composite
def _scheduler(draw, n, need=False):
    """need=True: never 'none'.  Parameters are chosen so that every scheduler acts within 6 iterations."""
    kinds = ["exp", "linear", "cyclic", "plateau"] + ([] if need else ["none"])
    t = draw(st.sampled_from(kinds))
    if t == "none":
        return draw(st.sampled_from([{}, {"type": "none"}]))
    if t == "exp":
        if draw(st.booleans()):
            return {"type": draw(st.sampled_from(["exp", "gamma"])), "gamma": draw(st.sampled_from([0.5, 0.8, 0.9, 0.95]))}
        return {"type": "exp", "factor": draw(st.sampled_from([0.01, 0.1, 0.5])), "_needs_iters": True}
    if t == "linear":
        d = {"type": "linear", "start_factor": draw(st.sampled_from([0.1, 0.5, 1.0])), "end_factor": draw(st.sampled_from([1.0, 0.2, 0.5]))}
        if draw(st.booleans()):
            d["total_iters"] = draw(st.integers(1, max(1, n)))
        else:
            d["_needs_iters"] = True
        return d
    if t == "cyclic":
        d = {"type": "cyclic", "step_size_up": draw(st.integers(1, 3))}
        if draw(st.booleans()):
            d["step_size_down"] = draw(st.integers(1, 3))
        d["mode"] = draw(st.sampled_from(["triangular2", "triangular", "exp_range"]))
        return d
    return {
        "type": "plateau",
        "patience": draw(st.integers(0, 1)),
        "cooldown": draw(st.integers(0, 1)),
        "factor": draw(st.sampled_from([0.5, 0.1])),
        "threshold": draw(st.sampled_from([1e-3, 0.2, 0.5])),
    }


def _strip(d):
    return {k: v for k, v in d.items() if not k.startswith("_")}


def _tv_ok(c):
    """Which total-variation weights may be non-zero.

    TV is mean|diff|: its gradient is sign(diff), discontinuous where neighbours are equal -- and TV pulls
    neighbours towards equality.  Under Adam/AdamW (gradient normalisation) the values move in steps of
    order lr, reach ties up to rounding within a few iterations, and the sign of a tie is decided by
    rounding noise, which legitimately differs between a run and its reloaded continuation (the pattern
    order inside the full batch is re-seeded).  Measured: deviations up to 0.7e-4 at weight 0.01.  Under
    SGD a tie needs |diff| < 1e-8 by chance (never observed) and a flipped sign moves a pixel by
    2*lr*w/N <= 2e-6.  So TV weights are drawn only for a model driven by SGD (in every call), and for
    the object only from a random-array start (a uniform start is all ties)."""
    fam = {k: ("sgd" if v["type"] == "sgd" else "adam") for k, v in c["opt"].items()}
    return {
        "object": fam.get("object") == "sgd" and c["obj_init"] == "array",
        "probe": fam.get("probe", "sgd") == "sgd" and c["probe_init"] != "parametric",
        "dataset": fam.get("dataset") == "sgd",
    }


@st.composite
def _constraints(draw, c):
    S = c["S"]
    tv = _tv_ok(c)
    out = {}
    o = {}
    if draw(st.booleans()):
        o["positivity"] = draw(st.booleans())
    if S > 1 and draw(st.booleans()):
        o["identical_slices"] = draw(st.booleans())
    if tv["object"] and draw(st.booleans()):
        o["tv_weight_xy"] = draw(st.sampled_from([1e-3, 1e-4, 0]))
    if tv["object"] and S > 1 and draw(st.booleans()):
        o["tv_weight_z"] = draw(st.sampled_from([1e-3, 1e-4, 0]))
    if o:
        out["object"] = o
    p = {}
    if draw(st.booleans()):
        p["orthogonalize_probe"] = draw(st.booleans())
    if tv["probe"] and draw(st.booleans()):
        p["tv_weight"] = draw(st.sampled_from([1e-3, 1e-4, 0.0]))
    if p:
        out["probe"] = p
    if "dataset" in c["opt"]:
        d = {}
        if draw(st.booleans()):
            d["descan_shifts_constant"] = draw(st.booleans())
        if tv["dataset"] and draw(st.booleans()):
            d["descan_tv_weight"] = draw(st.sampled_from([1e-3, 1e-4, 0.0]))
        if d:
            out["dataset"] = d
    return out


@st.composite
def _problem(draw, force_ds=False, family=None):
    with_ds = force_ds or draw(st.integers(0, 2)) == 2
    # (ProbeParametric is not drawn: its aberration-coefficient gradients are float32 sums with heavy
    # cancellation, 1e-3 relative noise between two summation orders, amplified by Adam: continuation after
    # a reload then agrees only to ~1e-3, a property of that model, not of checkpointing)
    probe_init = draw(st.sampled_from(["array", "array", "params"]))
    # two modes only from the harness' own, well separated mode stack: from_params starts mode 2 as a
    # sub-pixel shifted copy of mode 1, and Gram-Schmidt on two nearly parallel modes amplifies float32
    # rounding ~100x (continuations then agree only to ~1e-5 in the losses whatever the checkpointing)
    M = 1 if probe_init != "array" else draw(st.sampled_from([1, 2, 1]))
    S = draw(st.sampled_from([1, 2, 1]))
    keys = ["object"] + (["probe"] if (probe_init == "parametric" or not _rare(draw, 5)) else []) + (["dataset"] if with_ds else [])
    c = {
        "seed": draw(SEEDS),
        "geom": draw(_geometry(with_ds)),
        "M": M,
        "S": S,
        "thick": draw(_fl(2.0, 20.0, 1)) if S > 1 else None,
        "obj_type": draw(st.sampled_from(["complex", "pure_phase", "potential"])),
        "obj_init": draw(st.sampled_from(["array", "array", "random", "uniform"])),
        "probe_init": probe_init,
        "semiangle": draw(st.sampled_from([20.0, 15.0, 25.0])),
        "defocus": draw(st.sampled_from([50.0, 0.0, 150.0])),
        "learn_tilt": probe_init != "parametric" and _rare(draw, 6),
        "opt": {k: draw(_optimizer(k, family=family, parametric=probe_init == "parametric")) for k in keys},
        "autograd": True,
        "loss_type": "l2_amplitude",
    }
    return c


def _family(v):
    return "sgd" if v["type"] == "sgd" else "adam"


@st.composite
def resume_cases(draw, mode="mixed"):
    """mode 'mixed': the general generator (an optimiser is attached late in ~1 of 5 cases);
    'attach': always attaches the dataset (or probe) optimiser in a call after the first interruption;
    'lineage': three segments, the first interruption is a data-less checkpoint (save_raw_data=False +
    from_file(dset=...)), the second a with-data checkpoint / clone, and the dataset is learned in between."""
    lineage = mode == "lineage"
    order = mode == "order"
    # 'route': the gradient route of the dataset parameters changes between two calls (autograd <-> analytic
    #          gradients, or descan_shifts_constant switched) while a stateful optimiser owns them;
    # 'order': every optimiser is SGD, the dataset is learned, TV weights are likely, and the harness does
    #          NOT align the generators (align_rng False): branches run with the library's own re-seeding.
    route_mode = mode == "route" or (mode == "mixed" and _rare(draw, 8))
    c = draw(_problem(force_ds=lineage or order or mode == "route" or (mode == "attach" and draw(st.booleans())), family="sgd" if order else None))
    n = draw(st.integers(3 if (lineage or order) else 2, 6))
    nb = 2 if (lineage or (n >= 3 and _rare(draw, 5))) else 1
    if nb == 1:
        k = draw(st.one_of(st.integers(1, n - 1), st.integers(0, n)))
        if mode in ("attach", "route"):
            k = min(k, n - 1)  # iterations must remain after the later call
        if order:
            k = min(max(k, 1), n - 2)  # >= 2 iterations under the re-seeded order
        if mode == "route":
            k = max(k, 1)
        segs = [k, n - k]
    else:
        k1 = draw(st.integers(1, n - 2))
        k2 = draw(st.integers(1, n - k1 - 1))
        segs = [k1, k2, n - k1 - k2]
    keys = list(c["opt"])  # the full plan: every model that is optimised in some call
    # ---- which optimisers are only attached in a later call -----------------------------------------
    movable = [k_ for k_ in ("dataset", "probe") if k_ in keys]
    attach_at = {}
    flavour_b = False
    if lineage:
        ds = c["opt"]["dataset"]
        # the scan positions must really move between the two checkpoints
        if _family(ds) == "adam":
            ds["lr"] = max(float(ds["lr"]), 1e-2)
        elif not isinstance(ds["lr"], int):
            ds["lr"] = max(float(ds["lr"]), 0.1)
        flavour_b = draw(st.booleans())
        if flavour_b:
            # learned before the data-less checkpoint as well: the next call re-states every optimiser (the
            # dataset model's own optimiser is not part of a data-less file), no dataset scheduler
            if isinstance(ds["lr"], int):
                ds["lr"] = 0.1
        else:
            attach_at["dataset"] = 1
    elif movable and (mode == "attach" or _rare(draw, 5)):
        pick = draw(st.sampled_from(movable + (["both"] if len(movable) == 2 else [])))
        for k_ in movable if pick == "both" else [pick]:
            j = draw(st.integers(1, len(segs) - 1))
            while j > 1 and sum(segs[j:]) == 0:
                j -= 1
            attach_at[k_] = j
    before_attach = sum(segs[: attach_at.get("dataset", 0)])
    if "dataset" in keys and _family(c["opt"]["dataset"]) == "adam" and before_attach == 0:
        # With a (nearly) uniform object the exit waves do not depend on the scan positions: their gradient
        # is analytically zero at the first iteration, what float32 delivers is rounding noise, and a fresh
        # Adam turns its sign into a +-lr step.  After >= 1 shared iteration that step lies in the
        # bitwise-shared prefix; otherwise it is taken after the reload with another summation order.
        c["obj_init"] = "array"
    if lineage:
        c["obj_init"] = "array"
    sched = {}
    for key in keys:
        int_lr = isinstance(c["opt"][key]["lr"], int)
        if int_lr or draw(st.booleans()):
            s = draw(_scheduler(n, need=int_lr))
            if s.get("_needs_iters") and segs[0] == 0:
                # defaults derived from num_iters divide by zero for a 0-iteration call in the uninterrupted
                # run as well: outside this property
                s = {"type": "exp", "gamma": 0.5}
            if s:
                sched[key] = _strip(s)
    if flavour_b:
        sched.pop("dataset", None)
    c["sched"] = sched
    c["constraints"] = draw(_constraints(c))
    if lineage:
        # dataset-model constraints are not part of a data-less file: state them after that checkpoint only
        c["constraints"].pop("dataset", None)
    later = []
    for i in range(len(segs) - 1):
        sp = {}
        r = draw(st.sampled_from([0, 0, 0, 0, 0, 0, 1, 1, 2, 3]))
        if r == 1:
            sp["constraints"] = draw(_constraints(c))
        elif r == 2 and segs[i + 1] > 0:
            key = draw(st.sampled_from(keys))
            s = draw(_scheduler(n, need=True))
            if not s.get("_needs_iters"):
                sp["sched"] = {key: _strip(s)}
        elif r == 3:
            key = draw(st.sampled_from(keys))
            sp["opt"] = {key: draw(_optimizer(key, family=_family(c["opt"][key]), parametric=c["probe_init"] == "parametric"))}
        later.append(sp)
    # ---- move late optimisers out of the first call -----------------------------------------------
    plan = copy.deepcopy(c["opt"])
    for k_, j in attach_at.items():
        spec = c["opt"].pop(k_)
        c["sched"].pop(k_, None)
        sp = later[j - 1]
        sp.setdefault("opt", {})[k_] = spec
        if isinstance(spec["lr"], int) and segs[j] > 0:
            sp.setdefault("sched", {})[k_] = {"type": "exp", "gamma": 0.5}
    for sp in later:  # a scheduler for a model that has no optimiser yet would wait for it with stale defaults
        have = set(c["opt"])
        for sp2 in later[: later.index(sp) + 1]:
            have |= set(sp2.get("opt") or {})
        if sp.get("sched"):
            sp["sched"] = {k_: v for k_, v in sp["sched"].items() if k_ in have}
            if not sp["sched"]:
                del sp["sched"]
    if flavour_b:
        later[0]["opt"] = copy.deepcopy(plan)
        if "constraints" not in later[0] and draw(st.booleans()):
            later[0]["constraints"] = {"dataset": {"descan_shifts_constant": draw(st.booleans())}}
    c["later"] = later
    c["segments"] = segs
    if lineage:
        c["dataless_first"] = True
    if order:
        c["align_rng"] = False
        c["obj_init"] = c["obj_init"] if c["obj_init"] != "uniform" else "array"
        if draw(st.booleans()):
            # descan TV is only evaluated with a learned dataset; SGD keeps its kink harmless (see _tv_ok)
            w = draw(st.sampled_from([0.1, 1e-2, 1.0]))
            tgt = c["constraints"] if draw(st.booleans()) else later[0].setdefault("constraints", {})
            tgt.setdefault("dataset", {})["descan_tv_weight"] = w
    elif mode == "mixed" and all(_family(v) == "sgd" for v in plan.values()) and segs[0] > 0 and draw(st.booleans()):
        c["align_rng"] = False
    if route_mode and "dataset" in plan and not lineage:
        ds_first = c["opt"].get("dataset") or next(sp["opt"]["dataset"] for sp in later if "dataset" in (sp.get("opt") or {}))
        if mode == "route" and not _stateful({"dataset": ds_first}):
            ds_first["momentum"] = 0.9  # a stateful optimiser owns the dataset parameters
            if isinstance(ds_first["lr"], int):
                ds_first["lr"] = 0.05
        j = draw(st.integers(1, len(segs) - 1))
        while j > 1 and sum(segs[j:]) == 0:
            j -= 1
        how = draw(st.sampled_from(["analytic", "analytic", "constant_on", "analytic_then_autograd"]))
        if how == "constant_on":
            c["constraints"].setdefault("dataset", {})["descan_shifts_constant"] = False
            later[j - 1].setdefault("constraints", {}).setdefault("dataset", {})["descan_shifts_constant"] = True
        else:
            for jj in range(j, len(segs)):
                later[jj - 1]["autograd"] = False
            if how == "analytic_then_autograd" and j < len(segs) - 1:
                later[-1]["autograd"] = True
    elif c["M"] == 1 and "dataset" not in keys and c["probe_init"] != "parametric" and not c["learn_tilt"] and _rare(draw, 6):
        c["autograd"] = False  # analytic gradients throughout
    elif _rare(draw, 6):
        # (the poisson loss is not drawn: log(pred + 1e-6) where the predicted intensity is ~0 turns float32
        # FFT rounding into O(1e-4) loss noise between two summation orders; l1 has a kink at pred == target)
        c["loss_type"] = "l2_intensity"
    if not c.get("align_rng", True):
        # the intensity loss scales the SGD step with the dose (x1e4 at 1e4 counts): an unstable iteration that
        # amplifies rounding differences by orders of magnitude; the amplitude loss is dose-invariant
        c["loss_type"] = "l2_amplitude"
    c.update(
        kind="resume",
        store=draw(st.sampled_from(["zip", "dir"])),
        load_device=draw(st.sampled_from([None, None, "cpu"])),
        snap=_rare(draw, 4),
        batch=draw(st.sampled_from(["none", "none", "num"])),
        device_arg=_rare(draw, 5),
        orig_first=draw(st.booleans()),
    )
    return c


@st.composite
def skip_cases(draw):
    c = draw(_problem())
    c["geom"]["R"] = min(c["geom"]["R"], 8)
    c["geom"]["C"] = min(c["geom"]["C"], 8)
    c["sched"] = {}
    keys = list(c["opt"])
    for key in keys:
        if isinstance(c["opt"][key]["lr"], int) or draw(st.booleans()):
            c["sched"][key] = {"type": "exp", "gamma": 0.5}
    c["constraints"] = draw(_constraints(c))
    c["iters"] = draw(st.integers(1, 3))
    ns = draw(st.integers(2, 3))
    saves = []
    for i in range(ns):
        last = i == ns - 1
        names = draw(st.lists(st.sampled_from(SKIP_MENU), min_size=0 if i == ns - 1 else 1, max_size=2, unique=True))
        raw = draw(st.booleans())
        if last:
            # the last call is always one the property speaks about
            raw = True
            names = [s for s in names if s not in ("_dset", "dset")]
            if draw(st.booleans()):
                names = []
        saves.append(
            {
                "skip": names,
                "form": draw(st.sampled_from(["list", "tuple", "str"])),
                "raw": raw,
                "store": draw(st.sampled_from(["zip", "dir"])),
                "reuse": False,
            }
        )
    if _rare(draw, 4):
        # the caller keeps one list object and passes it to every call, including the final complete one
        names = [s for s in saves[0]["skip"] if s not in ("_dset", "dset")]
        for i, sv in enumerate(saves):
            sv["form"] = "list"
            sv["skip"] = list(names)
            sv["reuse"] = i > 0
        saves[-1]["raw"] = True
    c.update(kind="skip", saves=saves, snap=True, batch="none", device_arg=False)
    c["continue"] = draw(st.booleans())
    return c


# ------------------------------------------------------------------------------------------------
CHECKS = {"resume": _check_resume, "skip": _check_skip}


def check(ctx, case):
    return CHECKS[case["kind"]](ctx, case)


def search(ctx):
    shrink = ctx.thorough
    # ~0.8 s per case: quick = 4 workers x 65 cases, thorough = 16 workers x 580 cases
    core.run_given(ctx, "skip", skip_cases(), lambda c: check(ctx, c), ctx.n(10, 80), shrink=shrink)
    core.run_given(ctx, "resume", resume_cases(), lambda c: check(ctx, c), ctx.n(32, 320), shrink=shrink)
    core.run_given(ctx, "route", resume_cases("route"), lambda c: check(ctx, c), ctx.n(8, 60), shrink=shrink)
    core.run_given(ctx, "order", resume_cases("order"), lambda c: check(ctx, c), ctx.n(8, 60), shrink=shrink)
    core.run_given(ctx, "attach", resume_cases("attach"), lambda c: check(ctx, c), ctx.n(8, 60), shrink=shrink)
    core.run_given(ctx, "lineage", resume_cases("lineage"), lambda c: check(ctx, c), ctx.n(8, 60), shrink=shrink)
    for k, v in STATS.items():
        ctx.extra["max_err_over_tol: " + k] = round(v, 6)

"""C15 — drift correction starts from an exact, shape-independent resampling geometry.

Three clauses, each judged against something that is not quantem:
 (1) DriftInterpolator.transform_coordinates(initial knots) == float64 closed form
     centre + (c-(C-1)/2)*fast + (r-(R-1)/2)*slow  (vq/refs/c15_geometry.py) for 1..4 knots;
 (2) the weight map returned by warp_image sums to R*C for every pad fraction / KDE width /
     warp upsampling factor (and, when nothing touches the canvas border, its centroid is the
     canvas centre: bilinear splatting and a symmetric KDE both preserve first moments);
 (3) a stack of identical images with one scan direction is a fixed point of align_translation.
"""

from __future__ import annotations

import numpy as np
from hypothesis import strategies as st
from hypothesis import target

from vq import core
from vq.refs import c15_geometry as ref

# ---- tolerances (justification: measured clean-tree errors, see vq/metas/c15.py) ----------------
TOL_COORD = 1e-9  # px, float64 closed form; measured <= 2e-14
RTOL_WSUM = 1e-4  # float32 accumulators; measured <= 3e-7
TOL_CENTROID = 1e-4  # px, float32 map; measured <= 7e-8
# knots of an identical stack: zero to within the rounding noise of the correlation quantem computes.
# align_translation correlates float32 canvases (complex64 FFTs), so the sub-pixel vertex of the
# zero-lag peak is only defined to ~ eps32 * peak / curvature px; ref.xcorr_noise_px computes that figure
# in float64 from the warped image.  Measured: movement <= 0.93 * that figure over 1200 stacks.
KNOT_NOISE_FACTOR = 20.0
TOL_KNOT_FLOOR = 1e-6  # px
IMG_ATOL = 2e-5  # float32 round-off of values in [0, 2]
# |d image / d shift| / value range, for a uniform shift of all knots (derivation in vq/metas/c15.py):
IMG_LIP_INTERIOR = 10.0  # where the KDE count is >= 0.5 before the call; measured <= 1.2
IMG_LIP_ANY = 6000.0  # anywhere (count threshold 1e-3 amplifies the count's slope); measured <= 190

PAD_VALUES = ["median", "mean", "min", "max", 0.25]
# align_translation(upsample_factor=...): default 8; cross_correlation_shift documents an int, C13 claims 1..64;
# values around powers of two and beyond 1.5*up = 48 on purpose (window-size arithmetic)
ALIGN_UPS = [1, 2, 3, 4, 7, 8, 16, 31, 32, 33, 40, 48, 64, 100]
# containers / dtypes for scan_direction_degrees that from_data and the property setter accept (probed on the
# clean tree: all of these are accepted; the geometry is float64-exact for the first group and single-precision
# for the second, where np.deg2rad itself returns float32).  float16 / int8 / uint8 arrays are accepted too but
# np.deg2rad turns them into float16 radians (errors up to ~0.05 px): not judged.
ANGLE_KINDS_EXACT = ["list", "list_int", "tuple", "nd:float64", "nd:int64", "nd:int32", "nd:uint32", "nd:uint64"]
ANGLE_KINDS_SINGLE = ["nd:float32", "nd:int16", "nd:uint16"]
ANGLE_KINDS = ["list"] * 4 + ["nd:float64"] * 2 + ANGLE_KINDS_EXACT[1:3] + ANGLE_KINDS_EXACT[4:] + ANGLE_KINDS_SINGLE
TOL_COORD_SINGLE = 1e-4  # px; bound ~ (eps32 * 2 pi + eps32) * half-diagonal(17 px) ~ 7e-6, measured <= 1.3e-6
KEY_UPSAMPLE = "xcorr-upsample-identical"  # numpy cross_correlation_shift(upsample_factor > 1), owned by C13


def _q():
    from quantem.imaging.drift import DriftCorrection

    return DriftCorrection


# ------------------------------------------------------------------------------------------------
# generator
# ------------------------------------------------------------------------------------------------
def _angles(kind="list"):
    """Scan directions (as floats) representable in the container `kind`."""
    special = st.sampled_from([0.0, 90.0, 180.0, 270.0, 45.0, 30.0, 135.0, 200.0, 315.0])
    whole = st.integers(0, 359).map(float)
    if kind in ("list_int",) or (kind.startswith("nd:") and "int" in kind):
        return st.one_of(special, whole)
    width = 32 if kind == "nd:float32" else 64
    return st.one_of(special, st.floats(0.0, 360.0, exclude_max=True, allow_nan=False, width=width), whole)


def _angle_container(kind, angles):
    if kind == "list":
        return [float(a) for a in angles]
    if kind == "list_int":
        return [int(a) for a in angles]
    if kind == "tuple":
        return tuple(float(a) for a in angles)
    dt = np.dtype(kind.split(":", 1)[1])
    if dt.kind in "iu":
        return np.array([int(a) for a in angles], dtype=dt)
    return np.array([float(a) for a in angles], dtype=dt)


def _tol_coord(kind):
    return TOL_COORD_SINGLE if kind in ANGLE_KINDS_SINGLE else TOL_COORD


@st.composite
def _plot_spec(draw, with_align):
    """Which displays run.  None = everything off (show_merged=False passed explicitly to align_*)."""
    if draw(st.integers(0, 19)) < 16:
        return None
    # one display per spec as a rule (each figure costs 15-60 ms): the default-on display of align_*, a display
    # flag of preprocess, or a public plot_* call between the steps
    what = draw(st.sampled_from(["align", "align", "pre", "between", "between", "mix"]))
    spec = {"pre": "off", "between": []}
    if with_align:
        spec["align"] = "off"
    if what in ("align", "mix") and with_align:
        spec["align"] = draw(st.sampled_from(["default", "default", "default", "images", "both"]))
    if what in ("pre", "mix") or (what == "align" and not with_align):
        spec["pre"] = draw(st.sampled_from(["merged", "merged", "images"]))
    if what in ("between", "mix"):
        spec["between"] = draw(st.lists(st.sampled_from(["merged", "merged", "transformed", "convergence"]), min_size=1, max_size=2))
    return spec


@st.composite
def cases(draw, same=None, allow_upsampled_align=True):
    R = draw(st.integers(6, 24))
    C = R if draw(st.integers(0, 3)) == 0 else draw(st.integers(6, 24))
    n = draw(st.integers(2, 4))
    same = draw(st.booleans()) if same is None else same
    kind = draw(st.sampled_from(ANGLE_KINDS))
    if same:
        angles = [draw(_angles(kind))] * n
    else:
        angles = [draw(_angles(kind)) for _ in range(n)]
    case = {
        "R": R,
        "C": C,
        "n": n,
        "same": bool(same),
        "angles": angles,
        "angles_as": kind,
        "plot": draw(_plot_spec(with_align=bool(same))),
        "pad": draw(_pads()),
        "pad_value": draw(st.sampled_from(PAD_VALUES)),
        "knots": draw(st.integers(1, 4)),
        "sigma": draw(_sigmas()),
        "warp_up": draw(st.integers(1, 3)),
        "seed": draw(st.integers(0, 2**31 - 1)),
        "contrast": draw(st.sampled_from([0.3, 0.5, 0.9]) | st.floats(0.3, 0.9, allow_nan=False)),
    }
    if same:
        case["align_up"] = draw(st.sampled_from(ALIGN_UPS)) if allow_upsampled_align else 1
    return case


def _pads():
    return st.sampled_from([0.0, 0.25, 0.5, 1.0]) | st.floats(0.0, 1.0, allow_nan=False)


def _sigmas():
    return st.sampled_from([0.5, 0.3, 1.0, 2.0]) | st.floats(0.3, 2.0, allow_nan=False)


@st.composite
def history_cases(draw):
    """preprocess() -> [alignment step] -> preprocess() again (same or changed settings), 1..2 rounds.
    The stack holds circularly shifted copies of one image so the alignment measures a real shift and
    moves the knots in place before the object is re-initialised."""
    R = draw(st.integers(6, 24))
    C = R if draw(st.integers(0, 3)) == 0 else draw(st.integers(6, 24))
    n = draw(st.integers(2, 4))
    kind = draw(st.sampled_from(ANGLE_KINDS))
    if draw(st.integers(0, 3)) == 0:
        angles = [draw(_angles(kind)) for _ in range(n)]
    else:
        angles = [draw(_angles(kind))] * n
    shifts = [[0, 0]] + [[draw(st.integers(-3, 3)), draw(st.integers(-3, 3))] for _ in range(n - 1)]
    if all(sh == [0, 0] for sh in shifts):
        shifts[1] = [1, -2]  # construction, not rejection: at least one real shift
    k0 = draw(st.integers(1, 4))
    draw_k = k0  # number of knots in force when a round's alignment runs
    rounds = []
    for _ in range(draw(st.integers(1, 2))):
        align = draw(
            st.sampled_from(
                [None, None]
                + [{"op": "translation", "up": u} for u in (1, 1, 1, 2, 2, 8)]
                + [{"op": "affine"}, {"op": "nonrigid"}]
            )
        )
        # the slow public steps only on small problems (cost: nonrigid ~ rows x images x knots optimisations)
        if align is not None and align["op"] == "nonrigid" and R * n * draw_k > 40:
            align = {"op": "translation", "up": 1}
        if align is not None and align["op"] == "affine" and R * C * n > 700:
            align = {"op": "translation", "up": 2}
        # settings changed before the re-preprocess: none, any subset, or (often) the combination "new scan
        # directions through the setter + a single knot", the only path where the interpolator's own copy of the
        # scan axes (not the knots) carries the direction
        change = {}
        mode = draw(st.sampled_from(["same", "same", "same", "angles+1knot", "angles+1knot", "angles+1knot", "subset", "subset"]))
        if mode == "angles+1knot":
            change["angles"] = [draw(_angles(kind)) for _ in range(n)]
            if draw_k != 1 or draw(st.booleans()):
                change["knots"] = 1
            if draw(st.integers(0, 3)) == 0:
                change["pad"] = draw(_pads())
            if draw(st.booleans()):
                align = None  # preprocess(); set angles; preprocess(number_knots=1) with nothing in between
        elif mode == "subset":
            picked = draw(st.lists(st.sampled_from(["pad", "knots", "sigma", "angles", "pad_value"]), min_size=1, max_size=3, unique=True))
            if "pad" in picked:
                change["pad"] = draw(_pads())
            if "knots" in picked:
                change["knots"] = draw(st.integers(1, 4))
            if "sigma" in picked:
                change["sigma"] = draw(_sigmas())
            if "angles" in picked:
                change["angles"] = [draw(_angles(kind)) for _ in range(n)]
            if "pad_value" in picked:
                change["pad_value"] = draw(st.sampled_from(PAD_VALUES))
        if "knots" in change:
            draw_k = change["knots"]
        rounds.append({"align": align, "change": change, "plot": draw(_plot_spec(with_align=align is not None))})
    return {
        "kind": "history",
        "R": R,
        "C": C,
        "n": n,
        "angles": angles,
        "angles_as": kind,
        "plot": draw(_plot_spec(with_align=False)),
        "shifts": shifts,
        "pad": draw(_pads()),
        "pad_value": draw(st.sampled_from(PAD_VALUES)),
        "knots": k0,
        "sigma": draw(_sigmas()),
        "warp_up": draw(st.integers(1, 3)),
        "seed": draw(st.integers(0, 2**31 - 1)),
        "contrast": draw(st.sampled_from([0.3, 0.5, 0.9]) | st.floats(0.3, 0.9, allow_nan=False)),
        "rounds": rounds,
    }


# ------------------------------------------------------------------------------------------------
# judge
# ------------------------------------------------------------------------------------------------
def _is_axis(a):
    return float(a) % 90.0 == 0.0


def _new_metrics():
    return {"coord": 0.0, "coord_single": 0.0, "wsum": 0.0, "centroid": 0.0, "knot": 0.0, "knot_over_noise": 0.0, "img_interior_over_tol": 0.0, "img_any_over_tol": 0.0}


def _judge_initial_geometry(ctx, case, dc, images, angles, R, C, k, sigma, pad, up, metrics, stage="", tol_coord=TOL_COORD):
    """Clauses (1) and (2) on an object whose preprocess() has just returned.  Returns copies of
    (images_warped, weights_warped, knots) as they are at that moment."""
    n = len(images)
    with ctx.sut(case, "reading images_warped / weights_warped / knots" + stage):
        warped0 = np.array(dc.images_warped.array, copy=True)
        weights0 = np.array(dc.weights_warped.array, copy=True)
        knots0 = [np.array(kn, dtype=np.float64, copy=True) for kn in dc.knots]
    if warped0.ndim != 3 or warped0.shape[0] != n:
        raise core.Violation("images_warped has shape %s for a stack of %d%s" % (warped0.shape, n, stage), case)
    H, W = int(warped0.shape[1]), int(warped0.shape[2])
    if len(knots0) != n:
        raise core.Violation("%d knot arrays for a stack of %d%s" % (len(knots0), n, stage), case)

    for i in range(n):
        # ---- (1) coordinates of the initial knots == closed form ----------------------------------
        if knots0[i].shape != (2, R, k):
            raise core.Violation("image %d: knots have shape %s, expected (2, %d, %d)%s" % (i, knots0[i].shape, R, k, stage), case)
        with ctx.sut(case, "DriftInterpolator.transform_coordinates(initial knots)" + stage):
            xa, ya = dc.interpolator[i].transform_coordinates(dc.knots[i])
            xa = np.asarray(xa, dtype=np.float64)
            ya = np.asarray(ya, dtype=np.float64)
        if xa.shape != (R, C) or ya.shape != (R, C):
            raise core.Violation("image %d: coordinates have shapes %s/%s, expected (%d, %d)%s" % (i, xa.shape, ya.shape, R, C, stage), case)
        X, Y = ref.closed_form(R, C, H, W, angles[i])
        ex, ey = np.abs(xa - X), np.abs(ya - Y)
        err = float(np.max(np.stack([ex, ey])))  # NaN propagates and fails the comparison below
        metrics["coord" if tol_coord == TOL_COORD else "coord_single"] = max(metrics["coord" if tol_coord == TOL_COORD else "coord_single"], err)
        if not err <= tol_coord:
            ax = "col" if ey.max() > ex.max() else "row"
            r, c = np.unravel_index(int(np.argmax(ex if ax == "row" else ey)), (R, C))
            raise core.Violation(
                "image %d (%dx%d, %g deg, %d knot(s), canvas %dx%d)%s: pixel (%d,%d) is placed at (%.6f, %.6f), "
                "closed form centre+rotation gives (%.6f, %.6f): %s coordinate off by %.3g px"
                % (i, R, C, angles[i], k, H, W, stage, r, c, xa[r, c], ya[r, c], X[r, c], Y[r, c], ax, err),
                case,
            )

        # ---- (2) unit weight per pixel -----------------------------------------------------------
        with ctx.sut(case, "DriftInterpolator.warp_image(upsample_factor=%d)%s" % (up, stage)):
            _im, w_up = dc.interpolator[i].warp_image(images[i], dc.knots[i], upsample_factor=up)
        for what, w in (("preprocess weights_warped", weights0[i]), ("warp_image(upsample_factor=%d) weights" % up, w_up)):
            w = np.asarray(w)
            if not np.all(np.isfinite(w)):
                raise core.Violation("image %d: %s contain non-finite values%s" % (i, what, stage), case)
            tot = float(np.sum(w, dtype=np.float64))
            rel = abs(tot / (R * C) - 1.0)
            metrics["wsum"] = max(metrics["wsum"], rel)
            if not rel <= RTOL_WSUM:
                raise core.Violation(
                    "image %d (%dx%d, %g deg, pad %g, sigma %g)%s: %s sum to %.6f, expected R*C = %d"
                    % (i, R, C, angles[i], pad, sigma, stage, what, tot, R * C),
                    case,
                )
        # centroid of the weight map: only when no splat or KDE tail can touch the canvas border
        m = int(4.0 * sigma + 0.5) + 2
        if X.min() >= m and Y.min() >= m and X.max() <= H - 1 - m and Y.max() <= W - 1 - m:
            ctx.count("centroid_checked")
            cx, cy = ref.centroid(weights0[i])
            cerr = max(abs(cx - (H - 1) / 2.0), abs(cy - (W - 1) / 2.0))
            metrics["centroid"] = max(metrics["centroid"], cerr)
            if not cerr <= TOL_CENTROID:
                raise core.Violation(
                    "image %d (%dx%d, %g deg, canvas %dx%d)%s: centroid of the weight map is (%.5f, %.5f), canvas centre is (%.1f, %.1f)"
                    % (i, R, C, angles[i], H, W, stage, cx, cy, (H - 1) / 2.0, (W - 1) / 2.0),
                    case,
                )
    return warped0, weights0, knots0


def _pre_kwargs(plot):
    mode = (plot or {}).get("pre", "off")
    return {"merged": {"show_merged": True}, "images": {"show_images": True}}.get(mode, {})


def _align_kwargs(plot):
    """'default' leaves show_merged at its default (True): what a user typing align_translation() gets."""
    mode = (plot or {}).get("align", "off")
    return {
        "off": {"show_merged": False},
        "default": {},
        "images": {"show_merged": False, "show_images": True},
        "both": {"show_images": True},
    }[mode]


def _between_plots(ctx, case, dc, plot, stage=""):
    """Public display methods called between steps: looking at the state must not change it."""
    for name in (plot or {}).get("between", []):
        if name == "convergence":
            try:  # no knot overlay, unrelated to the geometry: a failure of this plot is not a C15 matter
                dc.plot_convergence()
            except Exception:  # noqa: BLE001
                ctx.count("plot_convergence_raised")
            continue
        with ctx.sut(case, "plot_%s_images()%s" % (name, stage)):
            if name == "merged":
                dc.plot_merged_images()
            else:
                dc.plot_transformed_images()


def _plot_classes(ctx, plots, knots, H, W):
    on = any(p for p in plots)
    out = ["plotting_on" if on else "plotting_off"]
    if on:
        outside = any(
            bool(np.any(kn[0] < -0.5) or np.any(kn[0] > H - 0.5) or np.any(kn[1] < -0.5) or np.any(kn[1] > W - 0.5)) for kn in knots
        )
        out.append("plotting_on_knot_outside_canvas" if outside else "plotting_on_all_knots_inside")
    return out


def _describe(kind, plot):
    bits = []
    if kind != "list":
        bits.append("scan directions given as %s" % kind)
    pk = _pre_kwargs(plot)
    if pk:
        bits.append("preprocess(%s)" % ", ".join("%s=%s" % kv for kv in sorted(pk.items())))
    for b in (plot or {}).get("between", []):
        bits.append("plot_%s%s()" % (b, "" if b == "convergence" else "_images"))
    return " [%s]" % "; ".join(bits) if bits else ""


def _close_figs():
    import sys

    plt = sys.modules.get("matplotlib.pyplot")
    if plt is not None:
        plt.close("all")


def check(ctx, case):
    try:
        if case.get("kind") == "history":
            return _check_history(ctx, case)
        return _check_stack(ctx, case)
    finally:
        _close_figs()


def _check_stack(ctx, case):
    DriftCorrection = _q()
    R, C, n, k = int(case["R"]), int(case["C"]), int(case["n"]), int(case["knots"])
    angles = [float(a) for a in case["angles"]]
    same = bool(case["same"])
    sigma = float(case["sigma"])
    up = int(case["warp_up"])
    kind = case.get("angles_as", "list")
    plot = case.get("plot")
    if same:
        base = ref.content(R, C, case["seed"], case["contrast"])
        images = [base.copy() for _ in range(n)]
    else:
        images = [ref.content(R, C, int(case["seed"]) + i, case["contrast"]) for i in range(n)]

    oblique = any(not _is_axis(a) for a in angles)
    nontrivial = (R != C and oblique) or k >= 2
    classes = [
        "knots:%d" % k,
        "square" if R == C else "nonsquare",
        "oblique" if oblique else "axis_aligned",
        "stack:%d" % n,
        "same_images" if same else "distinct_images",
        "warp_up:%d" % up,
        "pad0" if case["pad"] == 0 else "pad>0",
        "odd_rows" if R % 2 else "even_rows",
        "odd_cols" if C % 2 else "even_cols",
        "angles_as:" + kind,
    ]
    if same:
        classes.append("align_up:%d" % int(case["align_up"]))
    ctx.record(case, nontrivial, classes)

    with ctx.sut(case, "DriftCorrection.from_data(...).preprocess(...)"):
        dc = DriftCorrection.from_data([im.copy() for im in images], _angle_container(kind, angles)).preprocess(
            pad_fraction=case["pad"],
            pad_value=case["pad_value"],
            kde_sigma=sigma,
            number_knots=k,
            **_pre_kwargs(plot),
        )
    _between_plots(ctx, case, dc, plot)
    metrics = _new_metrics()
    warped0, weights0, knots0 = _judge_initial_geometry(
        ctx, case, dc, images, angles, R, C, k, sigma, case["pad"], up, metrics, stage=_describe(kind, plot), tol_coord=_tol_coord(kind)
    )
    for c in _plot_classes(ctx, [plot], knots0, warped0.shape[1], warped0.shape[2]):
        ctx.count(c)

    # ---- (3) identical stack is a fixed point of translation alignment --------------------------
    if same:
        au = int(case["align_up"])
        akw = _align_kwargs(plot)
        with ctx.sut(case, "align_translation(upsample_factor=%d%s)" % (au, "".join(", %s=%s" % kv for kv in sorted(akw.items())))):
            dc.align_translation(upsample_factor=au, **akw)
        _between_plots(ctx, case, dc, plot, " after align_translation")
        with ctx.sut(case, "reading knots / images_warped after align_translation"):
            knots1 = [np.asarray(kn, dtype=np.float64) for kn in dc.knots]
            warped1 = np.asarray(dc.images_warped.array)
        noise = ref.xcorr_noise_px(warped0[0])
        tol_knot = max(TOL_KNOT_FLOOR, KNOT_NOISE_FACTOR * noise)
        if tol_knot > 0.05:
            ctx.count("fixed_point_allowance>0.05px")
        moved = 0.0
        for i in range(n):
            if knots1[i].shape != knots0[i].shape:
                raise core.Violation("image %d: knots changed shape in align_translation" % i, case)
            if not np.all(np.isfinite(knots1[i])):
                raise core.Violation("image %d: knots are not finite after align_translation(upsample_factor=%d)" % (i, au), case)
            moved = max(moved, core.maxerr(knots1[i], knots0[i]))
        metrics["knot"] = moved
        metrics["knot_over_noise"] = moved / noise
        if not moved <= tol_knot:
            i = int(np.argmax([core.maxerr(a, b) for a, b in zip(knots1, knots0)]))
            d = (knots1[i] - knots0[i]).reshape(2, -1)
            raise core.Violation(
                "%d identical %dx%d images, scan direction %g deg, %d knot(s): align_translation(upsample_factor=%d%s)%s moved the knots "
                "of image %d by up to %.3g px, first knot by (%.3g, %.3g) (expected no movement; rounding allowance %.2g px)"
                % (
                    n, R, C, angles[0], k, au,
                    "".join(", %s=%s" % kv for kv in sorted(akw.items())),
                    " + plot_* calls" if (plot or {}).get("between") else "",
                    i, moved, d[0, 0], d[1, 0], tol_knot,
                ),
                case,
            )
        rng_v = float(max(warped0.max(), images[0].max()) - min(warped0.min(), images[0].min()))
        diff = np.abs(np.asarray(warped1, dtype=np.float64) - warped0)
        interior = weights0 >= 0.5
        for what, sel, lip in (("where the KDE count is >= 0.5", interior, IMG_LIP_INTERIOR), ("anywhere", None, IMG_LIP_ANY)):
            d = diff if sel is None else diff[sel]
            if d.size == 0:
                continue
            tol_img = IMG_ATOL + lip * rng_v * moved
            derr = float(d.max())
            metrics["img_interior_over_tol" if sel is not None else "img_any_over_tol"] = derr / tol_img
            if not derr <= tol_img:
                raise core.Violation(
                    "identical stack: images_warped changed by %.3g %s (tolerance %.3g) in align_translation(upsample_factor=%d) "
                    "while the knots moved %.3g px" % (derr, what, tol_img, au, moved),
                    case,
                )
    return metrics


MOVED_MIN = 0.25  # px: knot displacement by an alignment step that makes a history case non-trivial


def _check_history(ctx, case):
    """Clauses (1)-(2) hold again after every repeated preprocess(): a preprocess() call re-initialises the
    geometry, so for the object it returns no drift has been estimated yet, whatever happened before."""
    DriftCorrection = _q()
    R, C, n = int(case["R"]), int(case["C"]), int(case["n"])
    up = int(case["warp_up"])
    cur = {
        "pad": case["pad"],
        "pad_value": case["pad_value"],
        "knots": int(case["knots"]),
        "sigma": float(case["sigma"]),
        "angles": [float(a) for a in case["angles"]],
    }
    base = ref.content(R, C, case["seed"], case["contrast"])
    images = [np.roll(base, (int(sh[0]), int(sh[1])), axis=(0, 1)) for sh in case["shifts"]]
    metrics = _new_metrics()
    kind = case.get("angles_as", "list")
    tol_coord = _tol_coord(kind)
    plot0 = case.get("plot")

    def _pre(dc, plot):
        return dc.preprocess(
            pad_fraction=cur["pad"], pad_value=cur["pad_value"], kde_sigma=cur["sigma"], number_knots=cur["knots"], **_pre_kwargs(plot)
        )

    with ctx.sut(case, "DriftCorrection.from_data(...).preprocess(...)"):
        dc = _pre(DriftCorrection.from_data([im.copy() for im in images], _angle_container(kind, cur["angles"])), plot0)
    _between_plots(ctx, case, dc, plot0, " [after first preprocess]")
    _w, _c, knots_init = _judge_initial_geometry(
        ctx, case, dc, images, cur["angles"], R, C, cur["knots"], cur["sigma"], cur["pad"], up, metrics, stage=" [first preprocess]" + _describe(kind, plot0), tol_coord=tol_coord
    )
    plot_cls = _plot_classes(ctx, [plot0] + [r.get("plot") for r in case["rounds"]], knots_init, _w.shape[1], _w.shape[2])

    moved_max = 0.0
    same_settings_after_move = False
    angles_then_one_knot = False
    multi_change = False
    ops = []
    for ri, rnd in enumerate(case["rounds"]):
        al = rnd.get("align")
        plot = rnd.get("plot")
        moved = 0.0
        if al is not None:
            op = al["op"]
            akw = _align_kwargs(plot)
            # the property says nothing about what the alignment does to this (arbitrary) stack, only that it
            # is a public step that may move the knots: an exception here is not a C15 violation -> the
            # history simply continues with whatever state the object is in
            try:
                if op == "translation":
                    dc.align_translation(upsample_factor=int(al["up"]), **akw)
                elif op == "affine":
                    dc.align_affine(num_tests=3, refine=False, upsample_factor=2, **akw)
                else:
                    dc.align_nonrigid(num_iterations=1, max_optimize_iterations=2, **akw)
                ops.append(op)
            except Exception:  # noqa: BLE001
                ctx.count("history_align_raised:" + op)
            try:
                moved = max(core.maxerr(np.asarray(a, dtype=np.float64), b) for a, b in zip(dc.knots, knots_init))
                if not np.isfinite(moved):
                    moved = float("inf")
            except Exception:  # noqa: BLE001
                moved = 0.0
        ch = rnd.get("change") or {}
        for key in ("pad", "pad_value", "knots", "sigma"):
            if key in ch:
                cur[key] = int(ch[key]) if key == "knots" else ch[key]
        if "angles" in ch:
            cur["angles"] = [float(a) for a in ch["angles"]]
            with ctx.sut(case, "scan_direction_degrees = ..."):
                dc.scan_direction_degrees = _angle_container(kind, cur["angles"])
        if "angles" in ch and cur["knots"] == 1:
            angles_then_one_knot = True
        if len(ch) >= 2:
            multi_change = True
        if moved >= MOVED_MIN:
            moved_max = max(moved_max, moved)
            if not ch:
                same_settings_after_move = True
        stage = " [preprocess #%d, after %s, %s]" % (
            ri + 2,
            "no alignment" if al is None else "align_%s moved the knots %.3g px" % (al["op"], moved),
            "same settings" if not ch else "changed " + ",".join(sorted(ch)),
        ) + _describe(kind, plot)
        with ctx.sut(case, "preprocess() again" + stage):
            _pre(dc, plot)
        _between_plots(ctx, case, dc, plot, stage)
        _w, _c, knots_init = _judge_initial_geometry(
            ctx, case, dc, images, cur["angles"], R, C, cur["knots"], cur["sigma"], cur["pad"], up, metrics, stage=stage, tol_coord=tol_coord
        )

    classes = [
        "history",
        "history_rounds:%d" % len(case["rounds"]),
        "history_knots_moved" if moved_max >= MOVED_MIN else "history_knots_not_moved",
    ]
    classes += sorted(set("history_align:" + o for o in ops))
    classes += ["angles_as:" + kind] + plot_cls
    if same_settings_after_move:
        classes.append("history_same_settings_after_move")
    if angles_then_one_knot:
        classes.append("history_new_angles_single_knot")
    if multi_change:
        classes.append("history_several_settings_changed")
    if any(not r.get("align") and not r.get("change") for r in case["rounds"]):
        classes.append("history_preprocess_twice")
    ctx.record(case, moved_max >= MOVED_MIN or angles_then_one_knot, classes)
    metrics["history_moved"] = moved_max if np.isfinite(moved_max) else 0.0
    return metrics


# ------------------------------------------------------------------------------------------------
def _body(ctx, case):
    m = check(ctx, case)
    for k, v in m.items():
        ctx.extra["max_" + k] = max(ctx.extra.get("max_" + k, 0.0), float(v))
    target(float(np.log10(m["coord"] + 1e-18)), label="log10 coordinate error")
    if case.get("same"):
        target(float(np.log10(m["knot_over_noise"] + 1e-18)), label="log10 knot movement / rounding noise")


def search(ctx):
    allow_up = not ctx.is_open(KEY_UPSAMPLE)
    n_fix = ctx.n(350, 3500)
    if not allow_up:
        ctx.exclude(KEY_UPSAMPLE, n_fix)
    core.run_given(ctx, "geometry", cases(same=False), lambda c: _body(ctx, c), ctx.n(500, 5000))
    core.run_given(ctx, "fixed-point", cases(same=True, allow_upsampled_align=allow_up), lambda c: _body(ctx, c), n_fix)
    core.run_given(ctx, "history", history_cases(), lambda c: _body(ctx, c), ctx.n(180, 1800))

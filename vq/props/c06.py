"""C06 — Dataset binning, Fourier resampling, padding and cropping obey conservation laws."""

from __future__ import annotations

import numpy as np
from hypothesis import strategies as st

from vq import core
from vq.refs import dataset_ref as ref

DTYPES = ["bool", "int8", "uint8", "int16", "uint16", "int32", "int64", "float32", "float64", "complex64", "complex128"]
DS_CLASSES = {1: ["Dataset"], 2: ["Dataset", "Dataset2d"], 3: ["Dataset", "Dataset3d"], 4: ["Dataset", "Dataset4d", "Dataset4dstem"]}
PAD_MODES = ["constant", "edge", "reflect", "symmetric", "wrap", "linear_ramp", "maximum", "mean", "minimum"]


def make_array(shape, dtype, seed):
    rng = np.random.default_rng(seed)
    dt = np.dtype(dtype)
    if dt.kind == "b":
        return rng.random(shape) > 0.4
    if dt.kind in "iu":
        info = np.iinfo(dt)
        lo, hi = max(info.min, -(2**31)), min(info.max, 2**31)
        # value regimes (chosen by the seed): full range with forced extremes; lopsided towards the minimum
        # (small maximum: one-sided overflow guards stay silent); lopsided towards the maximum; small values
        regime = int(rng.integers(0, 4))
        if regime == 0 or dt.kind == "u" and regime == 1:
            a = rng.integers(lo, hi, size=shape, endpoint=True)
            m = rng.random(shape)
            a = np.where(m < 0.25, hi, np.where(m > 0.85, lo, a))
        elif regime == 1:
            a = rng.integers(lo, lo // 2, size=shape, endpoint=True)
            a = np.where(rng.random(shape) < 0.2, rng.integers(0, 50, size=shape), a)
        elif regime == 2:
            a = rng.integers(hi // 2, hi, size=shape, endpoint=True)
            a = np.where(rng.random(shape) < 0.2, rng.integers(0, 50, size=shape), a)
        else:
            a = rng.integers(max(lo, -20), min(hi, 20), size=shape, endpoint=True)
        return np.asarray(a).astype(dt)
    if dt.kind == "f":
        return (rng.standard_normal(shape) * 10.0 ** rng.integers(-2, 3)).astype(dt)
    return (rng.standard_normal(shape) + 1j * rng.standard_normal(shape)).astype(dt)


def make_ds(cls_name, arr, origin, sampling):
    import quantem.core.datastructures as qd

    cls = getattr(qd, cls_name)
    return cls.from_array(arr, origin=origin, sampling=sampling, units=["u%d" % i for i in range(arr.ndim)])


# ------------------------------------------------------------------------------------------------
@st.composite
def base(draw, max_dims=4, min_side=1, max_side=9, dtypes=DTYPES):
    nd = draw(st.integers(1, max_dims))
    cap = {1: 12, 2: 9, 3: 6, 4: 4}[nd]
    shape = [draw(st.integers(min_side, min(cap, max_side))) for _ in range(nd)]
    return {
        "shape": shape,
        "dtype": draw(st.sampled_from(dtypes)),
        "seed": draw(st.integers(0, 10**6)),
        "cls": draw(st.sampled_from(DS_CLASSES[nd])),
        # calibration at very different unit scales (SI metres ~1e-10 ... detector counts ~1e9): nothing in
        # the laws depends on the unit
        **(lambda sc: {
            "origin": [draw(st.sampled_from([0.0, 1.5, -3.0, 10.25])) * sc for _ in range(nd)],
            "sampling": [draw(st.sampled_from([1.0, 0.5, 2.0, 0.125, 3.0])) * sc for _ in range(nd)],
        })(draw(st.sampled_from([1.0, 1.0, 1.0, 1e-10, 2e-7, 1e3, 1e9]))),
        "in_place": draw(st.booleans()),
    }


@st.composite
def axes_subset(draw, nd):
    if draw(st.integers(0, 2)) == 0:
        return None
    k = draw(st.integers(1, nd))
    ax = sorted(draw(st.lists(st.integers(0, nd - 1), min_size=k, max_size=k, unique=True)))
    if k > 1 and draw(st.booleans()):
        # the caller may list the axes in any order; factors / output lengths pair with them position by position
        # (seeded change C06-13: metadata updated for sorted(axes) with the factors in the caller's order)
        ax = list(draw(st.permutations(ax)))
    return ax


@st.composite
def bin_cases(draw):
    c = draw(base())
    nd = len(c["shape"])
    axes = draw(axes_subset(nd))
    n_ax = nd if axes is None else len(axes)
    facs = [draw(st.integers(1, 5)) for _ in range(n_ax)]
    c.update(
        kind="bin",
        axes=axes,
        axes_form=draw(st.sampled_from(["tuple", "list", "int"])) if (axes is not None and len(axes) == 1) else draw(st.sampled_from(["tuple", "list"])),
        factors=facs,
        factors_form=draw(st.sampled_from(["tuple", "list", "np", "int"])) if len(set(facs)) == 1 else draw(st.sampled_from(["tuple", "list", "np"])),
        reducer=draw(st.sampled_from(["sum", "mean", "SUM", "Mean"])),
    )
    return c


@st.composite
def resample_cases(draw):
    c = draw(base(max_side=9, min_side=1))
    nd = len(c["shape"])
    axes = draw(axes_subset(nd))
    ax_list = list(range(nd)) if axes is None else axes
    out = [draw(st.integers(1, 14)) for _ in ax_list]
    if draw(st.integers(0, 5)) == 0:
        out = [c["shape"][a] for a in ax_list]  # identity clause
    via = draw(st.sampled_from(["out_shape", "out_shape", "factors", "real_factors"]))
    if via == "real_factors":
        # arbitrary real factors: the output length is round(n * f) (generator avoids rounding ties)
        facs = []
        for i, a_ in enumerate(ax_list):
            f = draw(st.floats(0.15, 2.6).map(lambda v: round(v, 3)))
            n = c["shape"][a_]
            if abs(n * f - int(n * f) - 0.5) < 0.05:
                f = round(f + 0.07, 3)
            facs.append(f)
            out[i] = max(1, int(round(n * f)))
        if draw(st.booleans()):
            facs = [facs[0]] * len(facs)
            for i, a_ in enumerate(ax_list):
                n = c["shape"][a_]
                if abs(n * facs[0] - int(n * facs[0]) - 0.5) < 0.05:
                    via = "out_shape"
                out[i] = max(1, int(round(n * facs[0])))
        c["facs"] = facs
    c.update(kind="resample", axes=axes, out=out, via=via, seed2=draw(st.integers(0, 10**6)),
             a=draw(st.sampled_from([1.0, -2.0, 0.5, 3.25])), b=draw(st.sampled_from([1.0, 4.0, -0.75])))
    if draw(st.integers(0, 3)) == 0:
        # history: the dataset that is resampled is itself the product of earlier operations on the SAME object
        # (a resample, then a shape-changing step that ends at c["shape"]); the laws are judged against the
        # calibration the object reports right before the examined call (seeded change C06-12: a per-instance memo of
        # the field-of-view centre that in-place pad / bin do not invalidate)
        cap = {1: 12, 2: 9, 3: 6, 4: 4}[nd]
        c["dtype"] = "float64"
        rel = draw(st.sampled_from(["any", "smaller", "smaller", "larger"]))  # smaller: a pad can end at c["shape"]
        shape0 = [draw(st.integers(1, cap)) if rel == "any" else (max(1, n - draw(st.integers(0, 3))) if rel == "smaller" else n + draw(st.integers(0, 3))) for n in c["shape"]]
        r1 = [draw(st.integers(1, cap + 3)) for _ in range(nd)]
        # a copying first step leaves two objects with a past: its result, and its SOURCE (which must behave as if
        # nothing had happened to it)
        r1_mode = draw(st.sampled_from(["in_place", "copy_continue_result", "copy_continue_source", "copy_continue_source"]))
        cur = shape0 if r1_mode == "copy_continue_source" else r1
        last = ["resample"]
        if all(a_ <= b_ for a_, b_ in zip(cur, c["shape"])):
            last += ["pad", "pad"]
        if all(a_ >= b_ for a_, b_ in zip(cur, c["shape"])):
            last += ["crop", "crop"]
        c["prelude"] = {"shape0": shape0, "r1": r1, "r1_mode": r1_mode, "last": draw(st.sampled_from(last)), "last_in_place": draw(st.sampled_from([True, True, False]))}
    return c


@st.composite
def padcrop_cases(draw):
    c = draw(base(max_side=6))
    out = [n + draw(st.integers(0, 7)) for n in c["shape"]]
    nd = len(c["shape"])
    # crop either all axes at once (axes=None) or axis by axis / in groups, axes given explicitly in a drawn order
    order = draw(st.permutations(list(range(nd))))
    groups, i = [], 0
    while i < nd:
        k = draw(st.integers(1, nd - i))
        groups.append(list(order[i : i + k]))
        i += k
    c.update(kind="padcrop", out=out, mode=draw(st.sampled_from(PAD_MODES)), crop_in_place=draw(st.booleans()), stop_form=draw(st.sampled_from(["index", "zero_if_end", "negative"])),
             crop_groups=draw(st.sampled_from([None, None, groups])), axes_int=draw(st.booleans()))
    return c


# ------------------------------------------------------------------------------------------------
def _tol(dtype):
    k = np.dtype(dtype).kind
    if k in "iub":
        return 1e-12
    return 2e-5 if np.dtype(dtype) in (np.dtype("float32"), np.dtype("complex64")) else 1e-10


def _same_values(case, got, exp, what, rtol, scale=None):
    got = np.asarray(got)
    if tuple(got.shape) != tuple(np.shape(exp)):
        raise core.Violation("%s: shape %s, expected %s" % (what, tuple(got.shape), tuple(np.shape(exp))), case)
    if got.size == 0:
        return
    if np.asarray(exp).dtype == object:
        g = got.astype(object)
        bad = [(i, int(g[i]) if not isinstance(g[i], float) else g[i], exp[i]) for i in np.ndindex(*got.shape) if g[i] != exp[i]]
        if bad:
            raise core.Violation("%s: %d element(s) differ from the exact block sums, e.g. at %s: got %r expected %r" % (what, len(bad), bad[0][0], bad[0][1], bad[0][2]), case)
        return
    exp = np.asarray(exp)
    err = np.max(np.abs(got.astype(np.complex128) - exp.astype(np.complex128)))
    # `scale`: magnitude the rounding error of a correct implementation is relative to, when that is not max|exp|
    # (sums with cancellation: the sum of the absolute values)
    scale = max(1e-300, float(np.max(np.abs(exp))), float(scale or 0.0))
    if not err <= rtol * scale + 1e-300:
        raise core.Violation("%s: max error %.3g (relative %.3g) exceeds %.1g" % (what, err, err / scale, rtol), case)


def _meta(case, ds, origin, sampling, what, tol=1e-12):
    if len(ds.origin) != ds.ndim or len(ds.sampling) != ds.ndim or len(ds.units) != ds.ndim:
        raise core.Violation("%s: calibration length != ndim" % what, case)
    for name, got, exp in (("origin", ds.origin, origin), ("sampling", ds.sampling, sampling)):
        g = np.asarray(got, dtype=float)
        e = np.asarray(exp, dtype=float)
        scale = float(np.max(np.abs(np.asarray(case.get("sampling", [1.0]), dtype=float)))) * max(case.get("shape", [1])) if isinstance(case, dict) else 1.0
        scale = max(scale, float(np.max(np.abs(e), initial=0.0)), 1e-300)
        if g.shape != e.shape or np.max(np.abs(g - e), initial=0.0) > max(tol, 1e-9) * scale:
            raise core.Violation("%s: %s = %s, expected %s" % (what, name, g.tolist(), e.tolist()), case)


def _form(vals, form):
    if form == "int":
        return int(vals[0])
    if form == "list":
        return list(vals)
    if form == "np":
        return tuple(np.int64(v) for v in vals)
    return tuple(vals)


def _variants_equal(a, b):
    """In-place and copying variants run on arrays with possibly different memory layouts (the twin
    is a contiguous copy), so floating-point reductions may associate differently: integers must be
    identical, floats agree to a few ulp of the largest magnitude."""
    if a.dtype.kind not in "fc":
        return bool(np.array_equal(a, b))
    if a.size == 0:
        return True
    eps = float(np.finfo(a.real.dtype).eps)
    scale = max(float(np.max(np.abs(a))), float(np.max(np.abs(b))), 1e-300)
    return bool(np.max(np.abs(a - b)) <= 64 * eps * scale)


def _apply(ctx, case, ds, name, in_place, **kw):
    """Run an operation in the drawn variant AND in the other one on a copy; both must agree."""
    snap = (ds.array.tobytes(), ds.array.shape, str(ds.array.dtype), ds.origin.copy(), ds.sampling.copy(), list(ds.units))
    with ctx.sut(case, "Dataset.%s(modify_in_place=False)" % name):
        twin_src = ds.copy()
        out_copy = getattr(ds, name)(modify_in_place=False, **kw)
    now = (ds.array.tobytes(), ds.array.shape, str(ds.array.dtype))
    if now != snap[:3] or not np.array_equal(ds.origin, snap[3]) or not np.array_equal(ds.sampling, snap[4]) or list(ds.units) != snap[5]:
        raise core.Violation("%s(modify_in_place=False) modified its source dataset" % name, case)
    with ctx.sut(case, "Dataset.%s(modify_in_place=True)" % name):
        r = getattr(twin_src, name)(modify_in_place=True, **kw)
    if r is not None:
        raise core.Violation("%s(modify_in_place=True) returned %r, expected None" % (name, type(r).__name__), case)
    a, b = out_copy, twin_src
    if a.array.shape != b.array.shape or a.array.dtype != b.array.dtype or not _variants_equal(a.array, b.array):
        raise core.Violation("%s: in-place and copying variants give different arrays (shapes %s vs %s, dtypes %s vs %s)" % (name, b.array.shape, a.array.shape, b.array.dtype, a.array.dtype), case)
    if not (np.array_equal(np.asarray(a.origin, float), np.asarray(b.origin, float)) and np.array_equal(np.asarray(a.sampling, float), np.asarray(b.sampling, float)) and list(a.units) == list(b.units)):
        raise core.Violation("%s: in-place and copying variants give different calibration" % name, case)
    if type(a) is not type(ds):
        raise core.Violation("%s returned a %s for a %s source" % (name, type(a).__name__, type(ds).__name__), case)
    return b if in_place else a


def check(ctx, case):
    if case.get("_orig"):  # a stored violation of a case with a history: start again from the drawn calibration
        case = {k: v for k, v in dict(case, **case["_orig"]).items() if k != "_orig"}
    kind = case["kind"]
    arr = make_array(case["shape"], case["dtype"], case["seed"])
    with ctx.sut(case, "from_array"):
        ds = make_ds(case["cls"], arr.copy(), case["origin"], case["sampling"])
    nd = arr.ndim
    classes = ["kind:" + kind, "dtype:" + case["dtype"], "ndim:%d" % nd, "cls:" + case["cls"], "in_place" if case["in_place"] else "copying"]
    if case.get("prelude"):
        pre = case["prelude"]
        with ctx.sut(case, "history before the examined call: from_array%s -> fourier_resample(%s, %s) -> %s to %s" % (pre["shape0"], pre["r1"], pre["r1_mode"], pre["last"], case["shape"])):
            ds = make_ds(case["cls"], make_array(pre["shape0"], "float64", case["seed"] + 1), case["origin"], case["sampling"])
            r = ds.fourier_resample(out_shape=tuple(pre["r1"]), modify_in_place=pre["r1_mode"] == "in_place")
            ds = r if pre["r1_mode"] == "copy_continue_result" else ds
            tgt = tuple(case["shape"])
            if pre["last"] == "resample":
                r = ds.fourier_resample(out_shape=tgt, modify_in_place=pre["last_in_place"])
            elif pre["last"] == "pad":
                r = ds.pad(output_shape=tgt, modify_in_place=pre["last_in_place"])
            else:
                r = ds.crop(crop_widths=tuple((0, n) for n in tgt), modify_in_place=pre["last_in_place"])
            ds = ds if pre["last_in_place"] else r
        arr = np.array(ds.array)
        if arr.shape != tuple(case["shape"]) or str(arr.dtype) != "float64":
            ctx.count("prelude_ended_elsewhere")  # not this property's business (C03 judges histories): examine the plain case
            arr = make_array(case["shape"], case["dtype"], case["seed"])
            ds = make_ds(case["cls"], arr.copy(), case["origin"], case["sampling"])
        else:
            case = dict(case, origin=[float(v) for v in ds.origin], sampling=[float(v) for v in ds.sampling], _orig={"origin": case["origin"], "sampling": case["sampling"]})
            classes.append("after_history:" + pre["r1_mode"] + "+" + pre["last"] + ("_in_place" if pre["last_in_place"] else "_copy"))
    if kind == "bin":
        return _check_bin(ctx, case, ds, arr, classes)
    if kind == "resample":
        return _check_resample(ctx, case, ds, arr, classes)
    return _check_padcrop(ctx, case, ds, arr, classes)


def _check_bin(ctx, case, ds, arr, classes):
    nd = arr.ndim
    axes = list(range(nd)) if case["axes"] is None else case["axes"]
    fba = dict(zip(axes, case["factors"]))
    nondiv = any(arr.shape[a] % f for a, f in fba.items())
    over = any(f > arr.shape[a] for a, f in fba.items())
    subset = case["axes"] is not None and len(axes) < nd
    nontrivial = nondiv or subset or case["dtype"] not in ("float64", "float32")
    classes += ["reducer:" + case["reducer"].lower(), "nondividing" if nondiv else "dividing"]
    if over:
        classes.append("factor>length")
    if subset:
        classes.append("axis_subset")
    ctx.record(case, nontrivial, classes)
    kw = dict(bin_factors=_form(case["factors"], case["factors_form"]), reducer=case["reducer"])
    if case["axes"] is not None:
        kw["axes"] = _form(case["axes"], case["axes_form"])
    out = _apply(ctx, case, ds, "bin", case["in_place"], **kw)
    red = case["reducer"].lower()
    exp = ref.bin_ref(arr, fba, red)
    cond = None
    if arr.dtype.kind in "fc" and arr.size:
        # a float block sum is accurate relative to the sum of the magnitudes in the block, not to the (possibly
        # cancelling) result: thorough-tier false alarm, DESIGN section 7
        mags = np.asarray(ref.bin_ref(np.abs(arr).astype(np.float64), fba, red), dtype=np.float64)
        cond = float(np.max(mags)) if mags.size else None
    _same_values(case, out.array, exp, "bin(%s)" % red, _tol(case["dtype"]), scale=cond)
    eo, es = ref.bin_meta_ref(case["origin"], case["sampling"], fba)
    _meta(case, out, eo, es, "bin")
    # every block centre keeps its physical coordinate
    for a, f in fba.items():
        nb = arr.shape[a] // f
        for j in range(nb):
            old = np.mean([case["origin"][a] + (j * f + i) * case["sampling"][a] for i in range(f)])
            new = float(out.origin[a]) + j * float(out.sampling[a])
            if abs(old - new) > 1e-9 * max(abs(old), abs(case["sampling"][a]) * arr.shape[a]):
                raise core.Violation("bin: block %d on axis %d sits at %r, its pixels' mean coordinate is %r" % (j, a, new, old), case)
    # counts over the covered region are conserved (sum reducer)
    if red == "sum" and out.array.size:
        cov = tuple(slice(0, (arr.shape[a] // fba[a]) * fba[a]) if a in fba else slice(None) for a in range(nd))
        if arr.dtype.kind in "iub":
            tot_in = sum(int(v) for v in arr[cov].ravel())
            tot_out = sum(int(v) for v in np.asarray(out.array).ravel())
            if tot_in != tot_out:
                raise core.Violation("bin(sum): total counts %d -> %d over the covered region" % (tot_in, tot_out), case)


def _check_resample(ctx, case, ds, arr, classes):
    nd = arr.ndim
    axes = list(range(nd)) if case["axes"] is None else case["axes"]
    out = case["out"]
    oba = dict(zip(axes, out))
    up = any(o > arr.shape[a] for a, o in oba.items())
    down = any(o < arr.shape[a] for a, o in oba.items())
    parity = any((o % 2) != (arr.shape[a] % 2) for a, o in oba.items())
    subset = case["axes"] is not None and len(axes) < nd
    ctx.record(case, parity or subset or case["dtype"] not in ("float64", "float32"), classes + ["via:" + case["via"]] + (["up"] if up else []) + (["down"] if down else []) + (["parity_change"] if parity else []) + (["axis_subset"] if subset else []) + (["same_shape"] if not up and not down else []))
    kw = {}
    if case["axes"] is not None:
        kw["axes"] = tuple(axes)
    via = case["via"]
    if via == "factors":
        # a factor that reproduces the requested length without a rounding tie
        facs = []
        for a, o in oba.items():
            f = o / arr.shape[a]
            if max(1, int(round(arr.shape[a] * f))) != o or abs(arr.shape[a] * f - round(arr.shape[a] * f)) > 0.25:
                via = "out_shape"
                break
            facs.append(f)
        if via == "factors":
            kw["factors"] = tuple(facs) if len(set(facs)) > 1 or case["seed"] % 2 else (facs[0] if len(set(facs)) == 1 else tuple(facs))
    if via == "real_factors":
        facs = case["facs"]
        kw["factors"] = facs[0] if (len(set(facs)) == 1 and case["seed"] % 2) else tuple(facs)
    if via == "out_shape":
        kw["out_shape"] = tuple(out)
    res = _apply(ctx, case, ds, "fourier_resample", case["in_place"], **kw)
    exp_shape = tuple(oba.get(a, arr.shape[a]) for a in range(nd))
    if tuple(res.array.shape) != exp_shape:
        raise core.Violation("fourier_resample: shape %s, expected %s" % (res.array.shape, exp_shape), case)
    tol = _tol(case["dtype"]) if arr.dtype.kind not in "iub" else 1e-9
    x = arr.astype(np.complex128) if arr.dtype.kind == "c" else arr.astype(np.float64)
    y = np.asarray(res.array)
    scale = max(1e-300, float(np.max(np.abs(x))))
    # mean over the resampled axes preserved (for every index of the other axes)
    mi, mo = x.mean(axis=tuple(axes)), y.mean(axis=tuple(axes))
    if np.max(np.abs(mi - mo)) > 10 * tol * scale:
        raise core.Violation("fourier_resample: mean %r -> %r" % (np.ravel(mi)[:3].tolist(), np.ravel(mo)[:3].tolist()), case)
    eo, es = ref.resample_meta_ref(case["origin"], case["sampling"], arr.shape, oba)
    _meta(case, res, eo, es, "fourier_resample")
    for a in axes:
        c_old = case["origin"][a] + (arr.shape[a] - 1) / 2 * case["sampling"][a]
        c_new = float(res.origin[a]) + (y.shape[a] - 1) / 2 * float(res.sampling[a])
        e_old, e_new = arr.shape[a] * case["sampling"][a], y.shape[a] * float(res.sampling[a])
        if abs(c_old - c_new) > 1e-9 * max(abs(c_old), e_old) or abs(e_old - e_new) > 1e-9 * e_old:
            raise core.Violation("fourier_resample: centre/extent on axis %d: (%r, %r) -> (%r, %r)" % (a, c_old, e_old, c_new, e_new), case)
    if not up and not down:
        if np.max(np.abs(y - x)) > 10 * tol * scale:
            raise core.Violation("fourier_resample to the same shape is not the identity (max diff %.3g)" % np.max(np.abs(y - x)), case)
    # documented definition (centred crop / zero-pad of the shifted spectrum), complex128 matrix DFT
    exp = ref.resample_ref(arr, oba)
    if np.max(np.abs(y - exp)) > 50 * tol * scale:
        raise core.Violation("fourier_resample differs from the matrix-DFT reference by %.3g (scale %.3g)" % (np.max(np.abs(y - exp)), scale), case)
    # linearity
    arr2 = make_array(case["shape"], case["dtype"] if arr.dtype.kind in "fc" else "float64", case["seed2"])
    xa = (arr.astype(arr2.dtype) if arr.dtype.kind in "iub" else arr)
    with ctx.sut(case, "fourier_resample (linearity operands)"):
        kw2 = {k: v for k, v in kw.items()}
        r1 = make_ds(case["cls"], xa.copy(), case["origin"], case["sampling"]).fourier_resample(**kw2).array
        r2 = make_ds(case["cls"], arr2.copy(), case["origin"], case["sampling"]).fourier_resample(**kw2).array
        comb = (case["a"] * xa.astype(np.complex128 if xa.dtype.kind == "c" else np.float64) + case["b"] * arr2).astype(np.complex128 if xa.dtype.kind == "c" else np.float64)
        r3 = make_ds(case["cls"], comb, case["origin"], case["sampling"]).fourier_resample(**kw2).array
    lin = case["a"] * r1 + case["b"] * r2
    s3 = max(1e-300, float(np.max(np.abs(lin))), scale)
    if np.max(np.abs(r3 - lin)) > 50 * tol * s3:
        raise core.Violation("fourier_resample is not linear: |R(ax+by) - aR(x) - bR(y)| = %.3g" % np.max(np.abs(r3 - lin)), case)
    # up then down again returns a Nyquist-free signal
    if up and not down and arr.dtype.kind in "fc":
        lim = {a: (arr.shape[a] + 1) // 2 if arr.shape[a] % 2 else arr.shape[a] // 2 for a in axes}  # |k| < N/2 strictly
        z = ref.bandlimited(tuple(arr.shape), tuple(axes), lim, case["seed2"], arr.dtype.kind == "c").astype(arr.dtype)
        with ctx.sut(case, "fourier_resample up then down"):
            d0 = make_ds(case["cls"], z.copy(), case["origin"], case["sampling"])
            upd = d0.fourier_resample(out_shape=tuple(out), axes=tuple(axes))
            back = upd.fourier_resample(out_shape=tuple(arr.shape[a] for a in axes), axes=tuple(axes))
        zs = max(1e-300, float(np.max(np.abs(z))))
        if np.max(np.abs(back.array - z)) > 100 * tol * zs:
            raise core.Violation("down(up(x)) != x for a signal without Nyquist content: max diff %.3g" % np.max(np.abs(back.array - z)), case)
        _meta(case, back, case["origin"], case["sampling"], "down(up(x)) calibration", tol=1e-9)


def _check_padcrop(ctx, case, ds, arr, classes):
    nd = arr.ndim
    out = case["out"]
    widths = ref.pad_widths_for(arr.shape, out)
    mode = case["mode"]
    if mode in ("reflect",) and any(n == 1 and (w[0] or w[1]) for n, w in zip(arr.shape, widths)):
        mode = "symmetric"  # numpy cannot reflect a length-1 axis
    if arr.dtype.kind == "c" and mode in ("maximum", "minimum"):
        mode = "edge"
    if arr.dtype.kind == "b" and mode in ("linear_ramp", "mean"):
        mode = "edge"
    odd = any((m - n) % 2 for n, m in zip(arr.shape, out))
    ctx.record(case, odd or case["dtype"] not in ("float64", "float32"), classes + ["pad_mode:" + mode] + (["odd_surplus"] if odd else []) + ["crop_in_place" if case["crop_in_place"] else "crop_copying"])
    padded = _apply(ctx, case, ds, "pad", case["in_place"], output_shape=tuple(out), mode=mode)
    if tuple(padded.array.shape) != tuple(out):
        raise core.Violation("pad(output_shape=%s) gives shape %s" % (out, padded.array.shape), case)
    _meta(case, padded, case["origin"], case["sampling"], "pad (metadata is documented as not modified)")
    cw = []
    for (b, a_), n, m in zip(widths, arr.shape, out):
        stop = b + n
        if case["stop_form"] == "zero_if_end" and stop == m:
            stop = 0
        elif case["stop_form"] == "negative" and stop < m:
            stop = stop - m
        cw.append((b, stop))
    if case.get("crop_groups"):
        cropped = padded
        for g in case["crop_groups"]:
            ax = g[0] if (len(g) == 1 and case.get("axes_int")) else tuple(g)
            cropped = _apply(ctx, case, cropped, "crop", case["crop_in_place"], crop_widths=tuple(cw[a] for a in g), axes=ax)
        classes_extra = "crop_by_axis_groups"
        ctx.count(classes_extra)
    else:
        cropped = _apply(ctx, case, padded, "crop", case["crop_in_place"], crop_widths=tuple(cw))
    if cropped.array.shape != arr.shape or cropped.array.dtype != arr.dtype or cropped.array.tobytes() != np.ascontiguousarray(arr).tobytes():
        raise core.Violation("crop(pad(x, output_shape)) != x (shape %s dtype %s; expected %s %s)" % (cropped.array.shape, cropped.array.dtype, arr.shape, arr.dtype), case)
    _meta(case, cropped, case["origin"], case["sampling"], "crop(pad(x))")


def search(ctx):
    core.run_given(ctx, "bin", bin_cases(), lambda c: check(ctx, c), ctx.n(700, 6000))
    core.run_given(ctx, "resample", resample_cases(), lambda c: check(ctx, c), ctx.n(500, 4000))
    core.run_given(ctx, "padcrop", padcrop_cases(), lambda c: check(ctx, c), ctx.n(500, 4000))

"""C01 — serializer round-trip fidelity: load(save(x)) is structurally equal to x, independent of
store / compression / path type / write mode, and re-saving the loaded object is a fixed point."""

from __future__ import annotations

import contextlib
import io
import os
import pathlib
import shutil

from hypothesis import strategies as st

from vq import core
from vq.gen import graphs as gg


def configs():
    return st.fixed_dictionaries(
        {
            "store": st.sampled_from(["zip", "dir", "auto_zip", "auto_dir"]),
            "compression": st.sampled_from([None, 0, 1, 4, 9]) | st.integers(0, 9),
            "path_kind": st.sampled_from(["str", "Path"]),
            "mode": st.sampled_from(["w", "o"]),
            "pre": st.sampled_from(["fresh", "fresh", "existing_zip", "existing_dir", "existing_store", "existing_store"]),
            # explicit store="zip": the target may be written without the ".zip" suffix, which save() appends
            "ext": st.sampled_from(["given", "appended"]),
        }
    ).map(_fix_cfg)


def _fix_cfg(c):
    if c["mode"] == "w":
        c["pre"] = "fresh"  # write-once onto an existing target is a legal rejection (checked by C08)
    return c


def cases(depth=3, force=None):
    cfg = configs() if force is None else configs().map(lambda c: dict(c, **force))
    return st.fixed_dictionaries(
        {
            "kind": st.just("roundtrip"),
            "root": gg.objects(depth, min_attrs=2, max_attrs=6),
            "cfg1": cfg,
            "cfg2": cfg,
        }
    )


def leaf_kinds():
    """One strategy per value kind (the systematic tier enumerates ALL of them in every run)."""
    J = st.just
    I = st.integers(0, 10**6)
    ks = {
        "bool": st.booleans().map(lambda v: {"t": "bool", "v": v}),
        "int-small": st.integers(-9, 9).map(lambda v: {"t": "int", "v": v}),
        "int-huge": st.integers(2**64, 2**70).map(lambda v: {"t": "int", "v": v}),
        "float": st.floats(allow_nan=False, allow_infinity=False).map(lambda v: {"t": "float", "v": v}),
        "float-special": st.sampled_from([float("nan"), float("inf"), float("-inf"), -0.0]).map(lambda v: {"t": "float", "v": v}),
        "none": J({"t": "none"}),
        "str": st.text(st.characters(exclude_categories=["Cs"]), max_size=8).map(lambda v: {"t": "str", "v": v}),
        "complex": J({"t": "complex", "v": [1.5, -2.0]}),
        "path": gg.paths(),
        "rng": gg.misc_leaves().filter(lambda v: v["t"] == "rng"),
        "logger": gg.misc_leaves().filter(lambda v: v["t"] == "logger"),
        "numeric-list": gg.numeric_seq(True),
        "numeric-mixed": gg.numeric_seq(False),
        "set": gg.sets(),
        "empty-list": J({"t": "list", "items": []}),
        "empty-tuple": J({"t": "tuple", "items": []}),
        "empty-dict": J({"t": "dict", "items": []}),
        "empty-set": J({"t": "set", "items": []}),
    }
    for dt in gg.NP_SCALAR_DTYPES + ["complex64", "complex128"]:
        ks["npscalar-" + dt] = gg.np_scalars().filter(lambda v, dt=dt: v["dtype"] == dt)
    for name, dt, shape, lay in [
        ("0d-f8", "float64", [], "C"), ("0d-bool", "bool", [], "C"), ("0d-c8", "complex64", [], "C"), ("0d-i2", "int16", [], "C"),
        ("empty-1", "float32", [0], "C"), ("empty-2", "int64", [2, 0, 3], "C"), ("one-elem", "uint8", [1], "C"), ("one-elem-2d", "float64", [1, 1], "C"),
        ("1d-i8", "int64", [5], "C"), ("2d-f4-F", "float32", [3, 4], "F"), ("3d-c16-strided", "complex128", [2, 3, 2], "strided"),
        ("neg-u2", "uint16", [4], "neg"), ("big-endian-i4", ">i4", [3], "C"), ("big-endian-f8", ">f8", [2, 2], "C"), ("unicode", "<U5", [3], "C"),
        ("bytes", "S3", [2, 2], "C"), ("datetime", "M8[s]", [3], "C"), ("timedelta", "m8[ms]", [2], "C"), ("f2", "float16", [3], "C"), ("u8", "uint64", [3], "C"),
    ]:  # fmt: skip
        ks["nd-" + name] = I.map(lambda sd, dt=dt, shape=shape, lay=lay: {"t": "nd", "dtype": dt, "shape": shape, "seed": sd, "layout": lay})
    for name, dt, shape, grad, param in [
        ("f4", "float32", [2, 3], False, False), ("f4-grad", "float32", [3], True, False), ("f8-param", "float64", [2], True, True),
        ("f4-param-nograd", "float32", [2], False, True), ("i8", "int64", [3], False, False), ("bool", "bool", [2, 2], False, False),
        ("c8-grad", "complex64", [2], True, False), ("bf16", "bfloat16", [3], False, False), ("0d-grad", "float64", [], True, False),
        ("empty", "float32", [0, 2], False, False), ("f2", "float16", [2], False, False), ("u1", "uint8", [4], False, False),
    ]:  # fmt: skip
        ks["tensor-" + name] = I.map(lambda sd, dt=dt, shape=shape, grad=grad, param=param: {"t": "tensor", "dtype": dt, "shape": shape, "seed": sd, "grad": grad, "param": param})
    for name, shape, grad, param, view in [
        ("rows-grad", [2, 3], True, False, "rows"), ("index-grad", [3], True, False, "index"), ("rows-param", [2, 2], True, True, "rows"),
        ("transpose-grad", [2, 3], True, False, "transpose"), ("rows-nograd", [4], False, False, "rows"), ("0d-index-grad", [], True, False, "index"),
        ("rows-live-grad", [2, 3], True, False, "rows_live"), ("index-live-grad", [3], True, False, "index_live"), ("rows-live-nograd", [2], False, False, "rows_live"),
    ]:  # fmt: skip
        ks["tensor-view-" + name] = I.map(lambda sd, shape=shape, grad=grad, param=param, view=view: {"t": "tensor", "dtype": "float32", "shape": shape, "seed": sd, "grad": grad, "param": param, "view": view})
    for cls in ("NodeA", "NodeB"):
        ks["obj-other-module-" + cls] = I.map(lambda sd, cls=cls: {"t": "obj", "cls": cls, "mod": 2, "attrs": [["a", {"t": "int", "v": sd % 7}]]})
        ks["obj-first-module-" + cls] = I.map(lambda sd, cls=cls: {"t": "obj", "cls": cls, "attrs": [["a", {"t": "int", "v": sd % 7}]]})
    for c in ("pickle-bytes", "gzip-dill-bytes", "gzip-bytes", "zip-magic", "json-bytes"):
        ks["nd-lookalike-" + c] = I.map(lambda sd, c=c: {"t": "nd", "dtype": "uint8", "shape": [1], "seed": sd, "layout": "C", "content": c})
    for kind in ("linear", "sequential", "modulelist"):
        ks["module-" + kind] = I.map(lambda sd, kind=kind: {"t": "module", "kind": kind, "seed": sd})
    return ks


@st.composite
def matrix_cases(draw, leaf_strategy=None):
    """Systematic tier: ONE drawn leaf placed in EVERY nesting context at once (attribute, list,
    tuple, dict value, dict in list, list in dict, object in list / dict / attribute, and inside a
    long heterogeneous sequence at a two-digit index), so that every value kind meets every decoder
    branch within a few dozen cases."""
    leaf = draw(leaf_strategy if leaf_strategy is not None else gg.leaves())
    f = {"t": "str", "v": "f"}

    def o(*attrs):
        return {"t": "obj", "cls": draw(st.sampled_from(["NodeA", "NodeB", "NodeC"])), "attrs": [list(a) for a in attrs]}

    n = draw(st.integers(11, 16))
    pos = draw(st.integers(9, n - 1))
    long_items = [{"t": "str", "v": "s%d" % i} if i % 3 else {"t": "int", "v": i} for i in range(n)]
    long_items[pos] = leaf
    kind = draw(st.sampled_from(["list", "tuple"]))
    attrs = [
        ("direct", leaf),
        ("in_list", {"t": "list", "items": [leaf, f]}),
        ("in_tuple", {"t": "tuple", "items": [f, leaf]}),
        ("in_dict", {"t": "dict", "items": [["k", leaf], ["z", f]]}),
        ("dict_in_list", {"t": "list", "items": [{"t": "dict", "items": [["k", leaf]]}, f]}),
        ("list_in_dict", {"t": "dict", "items": [["k", {"t": "list", "items": [leaf, f]}]]}),
        # a 1-tuple of a number is an all-numeric sequence: ints there must fit int64 (quantifier)
        ("tuple_in_tuple", {"t": "tuple", "items": [{"t": "tuple", "items": [leaf] if not (leaf["t"] == "int" and not -(2**63) <= leaf["v"] < 2**63) else [leaf, f]}, f]}),
        ("in_tuple_last", {"t": "tuple", "items": [f, f, leaf]}),
        ("obj_in_list", {"t": "list", "items": [o(("a", leaf)), f]}),
        ("obj_in_dict", {"t": "dict", "items": [["o", o(("a", leaf), ("b", {"t": "list", "items": [leaf, f]}))]]}),
        ("child", o(("a", leaf), ("d", {"t": "dict", "items": [["k", leaf]]}))),
        ("long", {"t": kind, "items": long_items}),
    ]
    # ONE child instance reachable along several paths (acyclic sharing): two attributes, a list holding it three
    # times, a dict value
    shared = dict(o(("a", leaf), ("n", {"t": "int", "v": 5})), alias="s1")
    attrs += [("twin1", shared), ("twin2", shared), ("thrice", {"t": "list", "items": [shared, shared, shared]}), ("in_dict_again", {"t": "dict", "items": [["s", shared]]})]
    return {"kind": "roundtrip", "tier": "matrix", "root": o(*attrs), "cfg1": draw(configs()), "cfg2": draw(configs())}


# ------------------------------------------------------------------------------------------------
NONTRIVIAL_MARKS = ("nd:0d@", "nd:empty@", "set@", "none@", "path@", "npscalar@", "dict@seq", "obj@seq", "obj@dict", "obj@set", "tensor:grad@")


def _nontrivial(kinds):
    has_container = any(k.split("@")[0].split(":")[0] in ("list", "tuple", "dict", "set") for k in kinds)
    special = any(k.startswith(NONTRIVIAL_MARKS) for k in kinds)
    return has_container and special


def _target(d, cfg, tag):
    zipped = cfg["store"] in ("zip", "auto_zip")
    p = os.path.join(d, "t_%s%s" % (tag, ".zip" if zipped else ""))
    return p, zipped


def _decoy(root):
    attrs = []
    for name, v in root["attrs"]:
        if v.get("t") == "nd" and "content" not in v:
            attrs.append([name, dict(v, seed=v["seed"] + 1)])  # same dtype/shape, other contents
        elif v.get("t") in ("list", "tuple", "dict", "obj"):
            attrs.append([name, {"t": "nd", "dtype": "float64", "shape": [2], "seed": 3, "layout": "C"}])
        else:
            attrs.append([name, {"t": "int", "v": 41}])
    attrs.append(["stale_extra", {"t": "str", "v": "old"}])
    return {"t": "obj", "cls": "NodeB" if root.get("cls") != "NodeB" else "NodeA", "attrs": attrs}


def save_load(ctx, case, obj, cfg, tag, what):
    """save obj under cfg into a fresh directory, load it back, remove the files."""
    from quantem.core.io.serialize import load

    d = ctx.fresh_dir()
    try:
        p, zipped = _target(d, cfg, tag)
        if cfg["pre"] == "existing_zip":
            with open(p, "wb") as f:
                f.write(b"old content")
        elif cfg["pre"] == "existing_dir":
            os.makedirs(p)
            with open(os.path.join(p, "junk.txt"), "w") as f:
                f.write("old")
        store = {"zip": "zip", "dir": "dir", "auto_zip": "auto", "auto_dir": "auto"}[cfg["store"]]
        target = pathlib.Path(p) if cfg["path_kind"] == "Path" else p
        save_target = target
        if store == "zip" and cfg.get("ext") == "appended":
            save_target = pathlib.Path(p[:-4]) if cfg["path_kind"] == "Path" else p[:-4]
        sink = io.StringIO()
        if cfg["pre"] == "existing_store":
            # history: a valid store of ANOTHER object (other class, same attribute names with other contents, one
            # extra attribute) already sits at the target; mode="o" must replace it completely (seeded change C01-11)
            with ctx.sut(case, "%s: earlier save of a decoy object at the same target" % what):
                with contextlib.redirect_stdout(sink):
                    gg.build(_decoy(case["root"])).save(save_target, mode="w", store=store)
                    load(target)  # ... which was also read once (seeded change C01-12: a load-side cache of the last archive)
        with ctx.sut(case, "%s: save(store=%s, compression=%r, mode=%s, pre=%s)" % (what, store, cfg["compression"], cfg["mode"], cfg["pre"])):
            with contextlib.redirect_stdout(sink):
                obj.save(save_target, mode=cfg["mode"], store=store, compression_level=cfg["compression"])
        if not os.path.exists(p):
            raise core.Violation("%s: save() returned but target %s does not exist" % (what, os.path.basename(p)), case)
        if zipped != os.path.isfile(p):
            raise core.Violation("%s: store kind mismatch on disk (expected %s)" % (what, "zip file" if zipped else "directory"), case)
        with ctx.sut(case, "%s: load" % what):
            with contextlib.redirect_stdout(sink):
                out = load(target)
        return out
    finally:
        shutil.rmtree(d, ignore_errors=True)


def check(ctx, case):
    root = case["root"]
    kinds = gg.kinds(root)
    classes = sorted(set(kinds))
    classes += ["store:" + case["cfg1"]["store"], "comp:%r" % (case["cfg1"]["compression"],), "mode:%s/%s" % (case["cfg1"]["mode"], case["cfg1"]["pre"])]
    ctx.record(case, _nontrivial(kinds), classes)

    x = gg.build(root)
    y = save_load(ctx, case, x, case["cfg1"], "a", "first save")
    d = gg.diff(x, y)
    if d:
        raise core.Violation("load(save(x)) != x: %s" % d, case)
    # the original must still be equal to a freshly built copy (save must not alter the object)
    d = gg.diff(gg.build(root), x)
    if d:
        raise core.Violation("save() modified the saved object: %s" % d, case)
    if case.get("tier") == "matrix":
        return  # systematic tier: one save/load per graph; the rest is the random tier's job
    y2 = save_load(ctx, case, x, case["cfg2"], "b", "second configuration")
    d = gg.diff(x, y2)
    if d:
        raise core.Violation("result depends on store/compression/path configuration: cfg2 gives %s" % d, case)
    d = gg.diff(y, y2)
    if d:
        raise core.Violation("the two configurations load different objects: %s" % d, case)
    z = save_load(ctx, case, y, case["cfg2"], "c", "re-save of the loaded object")
    d = gg.diff(y, z) or gg.diff(x, z)
    if d:
        raise core.Violation("re-saving the loaded object is not a fixed point: %s" % d, case)


def search(ctx):
    kinds = leaf_kinds()
    for i, (name, strat) in enumerate(sorted(kinds.items())):
        if ctx.thorough and i % ctx.nworkers != ctx.widx % ctx.nworkers and ctx.nworkers > 1:
            pass  # every worker still runs every kind (different seeds): cheap and deepens coverage
        core.run_given(ctx, "matrix-" + name, matrix_cases(strat), lambda c: check(ctx, c), ctx.n(2, 12), shrink=True)
    ctx.extra["matrix_kinds_enumerated"] = len(kinds)
    core.run_given(ctx, "graphs", cases(3), lambda c: check(ctx, c), ctx.n(55, 800))
    # overwrite histories, one stratum per way of naming the target: mode="o" onto a valid store of another object that
    # was saved AND loaded before (a uniform draw left zip + appended suffix + overwrite out of whole quick runs)
    for store, ext in (("zip", "given"), ("zip", "appended"), ("dir", "given"), ("auto_zip", "given"), ("auto_dir", "given")):
        core.run_given(ctx, "overwrite-%s-%s" % (store, ext), cases(2, {"store": store, "ext": ext, "mode": "o", "pre": "existing_store"}), lambda c: check(ctx, c), ctx.n(2, 40))
    if ctx.thorough:
        core.run_given(ctx, "deep-graphs", cases(4), lambda c: check(ctx, c), ctx.n(0, 200))

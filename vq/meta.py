"""Static per-property metadata (level, rule text, assumptions, worker counts).  Imported by the
runner without importing quantem; MANIFEST.json is generated from it by vq/mkmanifest.py."""

META = {}
ERRORS = {}


def _m(pid, level, rule, assumptions, workers=(1, 16), technique="", text="", note="", design="", title=""):
    META[pid] = dict(
        level=level,
        rule=rule,
        assumptions=assumptions,
        workers={"quick": workers[0], "thorough": workers[1]},
        technique=technique,
        text=text,
        note=note,
        design=design,
    )


def _load():
    import importlib
    import os
    import pkgutil

    d = os.path.join(os.path.dirname(__file__), "metas")
    for mi in sorted(pkgutil.iter_modules([d]), key=lambda m: m.name):
        try:
            importlib.import_module("vq.metas." + mi.name)
        except Exception as e:  # noqa: BLE001 - a broken entry must only take its own property down
            ERRORS[mi.name.upper()] = "%s: %s" % (type(e).__name__, e)


_load()

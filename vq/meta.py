"""Static per-property metadata (level, rule text, assumptions, worker counts).  Imported by the
runner without importing quantem; MANIFEST.json is generated from it by vq/mkmanifest.py."""

META = {}


def _m(pid, level, rule, assumptions, workers=(1, 16), technique="", text="", note="", design="", title=""):
    META[pid] = dict(
        level=level,
        rule=rule,
        assumptions=assumptions,
        workers={"quick": workers[0], "thorough": workers[1]},
        technique=technique,
        text=text,
        note=note,
        design=design,
    )


_m(
    "C20",
    "exploration",
    "Hypothesis draws (array of dtype int8..uint64/float32/float64, size 2..40, 1-3 dims, >=2 distinct finite values, "
    "NaN/inf sprinkled in float arrays, integer regimes full-range/narrow/near-max) x interval (quantile lo<hi | manual "
    "vmin/vmax given or None, python ints or floats | centered vcenter int/float, half_range or None) x stretch (linear | "
    "power p in [1/30,30] | logarithmic a in [1e-3,1e6] | asinh a in [2e-3,1e3]) x construction route (direct, limits "
    "frozen from data= as show_2d does, every named preset through _resolve_normalization) x optional second array for the "
    "frozen norm; plus stretch/inverse round-trip cases over t in [0,1].  A case is NON-TRIVIAL when the data dtype is an "
    "integer type, or the data contain a NaN, or the stretch is non-linear with a non-default parameter; distinct = SHA-1 "
    "of the canonical JSON of the whole case.",
    [
        "oracle limits are computed in float64 by the harness (own linear-interpolation quantile); implementation limits "
        "must agree to 1e-11 relative (1e-5 for float32 data)",
        "tolerance 16 ulp of the working dtype at 1.0 for range/monotonicity (libm log/pow/asinh are not guaranteed monotone "
        "to the last bit); 1e-9 absolute for stretch round-trips",
        "data magnitudes are bounded (1e30 float32, 1e150 float64) so vmax - vmin cannot overflow: overflow of the span is "
        "outside the claimed domain",
    ],
    workers=(1, 16),
    technique="property-based testing (Hypothesis): range/monotonicity/limit laws and inverse round-trips over generated arrays x interval x stretch configurations, float64 limit oracle",
    text="Generated-input search: every case is judged against the laws in the property (range, monotone, limits -> 0/1, NaN masked, "
    "stretch o inverse = id) with limits from an independent float64 oracle.  Exploration only: no absence claim.",
    note="Trusts numpy float64 arithmetic for the oracle limits; span overflow and float16 excluded from the domain.",
    design="DESIGN.md §3 C20",
)

_m(
    "C19",
    "exploration",
    "Hypothesis draws histories (1..20 steps) over the real module-level store: set (mapping / keyword '__' / mixed forms, 1-3 items, "
    "dotted keys, leaf values or nested-mapping values at interior paths), update_defaults (nested mappings), refresh, with-blocks "
    "(optionally nested, optionally left through an exception) and device requests (23 unavailable/malformed, 4 cpu forms; via "
    "set_device / set mapping / set kwargs / update_defaults / with).  Keys come from a fixed 3-level schema of 19 paths (own keys and "
    "real default keys such as viz.cmap, cupy.fft-cache-size) with every component spelled all-'-' or all-'_' at random.  After every "
    "step every schema path is read with get() in both spellings (+ get(key, default)) and the whole store is compared with a "
    "reference model.  A history is NON-TRIVIAL when it contains an update_defaults after a set on the same path followed by a "
    "refresh, or a with-block; distinct = SHA-1 of the canonical JSON of the step list.",
    [
        "reference model written from the docstrings: set replaces the addressed subtree, update_defaults overrides a leaf only if absent "
        "or equal to the previous merged default, refresh = merged defaults in order",
        "documented ambiguity modelled as an allowed-outcome set: a value written by set that equals the previous default may be kept or "
        "replaced by the next update_defaults (counted as ambiguous_default_override)",
        "CPU-only sandbox: every cuda/mps/gpu/index request is 'unavailable'; the accepted-GPU direction cannot be exercised",
        "mixed '-'/'_' spellings inside one key component and leaf-under-scalar assignments are outside the domain",
    ],
    workers=(1, 16),
    technique="model-based property testing (Hypothesis-generated operation histories against a dictionary reference model, invariant after every step)",
    text="Generated histories against an independent reference model with an invariant (all paths, both spellings, whole store) after every "
    "step; exploration only.",
    note="Trusts the reference model's reading of the docstrings; see assumptions for the one allowed-outcome ambiguity.",
    design="DESIGN.md §3 C19",
)

"""Shared machinery for the quantem property checks: case recording, evidence, known findings,
Hypothesis drivers.  Nothing here imports quantem."""

from __future__ import annotations

import contextlib
import hashlib
import json
import math
import os
import shutil
import sys
import tempfile
import time
import traceback
from collections import Counter

VERIF = os.path.dirname(os.path.dirname(os.path.abspath(__file__)))
MAX_SAMPLE_CHARS = 3000


class Violation(Exception):
    """The code under test broke the property on `case` (a JSON-able dict)."""

    def __init__(self, msg, case=None, key=None):
        super().__init__(msg)
        self.msg = msg
        self.case = case
        self.key = key


class HarnessError(Exception):
    """Something is wrong with the harness itself (exit 2, never a violation)."""


def _default(o):
    # JSON encoding for numpy scalars / arrays / misc that may end up in case dicts
    try:
        import numpy as np

        if isinstance(o, np.generic):
            return o.item()
        if isinstance(o, np.ndarray):
            return {"__nd__": o.tolist(), "dtype": str(o.dtype)}
    except Exception:
        pass
    if isinstance(o, complex):
        return {"__c__": [o.real, o.imag]}
    if isinstance(o, (set, frozenset)):
        return {"__set__": sorted(map(repr, o))}
    if isinstance(o, bytes):
        return {"__b__": o.hex()}
    return repr(o)


def canon(case) -> str:
    return json.dumps(case, sort_keys=True, default=_default, allow_nan=True)


def digest(case) -> str:
    return hashlib.sha1(canon(case).encode("utf-8", "surrogatepass")).hexdigest()[:16]


class Ctx:
    """Per-worker run context: counters, scratch dir, budget helpers."""

    def __init__(self, prop_id, tier, seed, widx=0, nworkers=1, open_findings=()):
        self.prop_id = prop_id
        self.tier = tier
        self.seed = int(seed)
        self.widx = widx
        self.nworkers = nworkers
        self.evaluations = 0
        self.digests = set()
        self.classes = Counter()
        self.excluded = Counter()
        self.first_samples = []
        self.low_samples = []  # (digest, sample) with the smallest digests: a seed-independent pick
        self.extra = {}
        self.open_findings = {f["key"]: f for f in open_findings}
        self.scratch = tempfile.mkdtemp(prefix="vq-%s-" % prop_id)
        self._tmpn = 0

    # -- budgets -----------------------------------------------------------------------------
    def n(self, quick, thorough):
        """Examples for this worker.  `quick`/`thorough` are per-worker counts."""
        v = quick if self.tier == "quick" else thorough
        scale = float(os.environ.get("VQ_SCALE", "1"))
        return max(1, int(v * scale))

    @property
    def thorough(self):
        return self.tier == "thorough"

    def subseed(self, label):
        h = hashlib.sha1(("%d/%d/%s" % (self.seed, self.widx, label)).encode()).hexdigest()
        return int(h[:12], 16)

    def is_open(self, key):
        return key in self.open_findings

    # -- scratch -----------------------------------------------------------------------------
    def tmp(self, suffix=""):
        self._tmpn += 1
        return os.path.join(self.scratch, "t%06d%s" % (self._tmpn, suffix))

    def fresh_dir(self):
        p = self.tmp()
        os.makedirs(p)
        return p

    def cleanup(self):
        shutil.rmtree(self.scratch, ignore_errors=True)

    # -- recording ---------------------------------------------------------------------------
    def record(self, case, nontrivial, classes=()):
        self.evaluations += 1
        for c in classes:
            self.classes[c] += 1
        if nontrivial:
            self.classes["_nontrivial"] += 1
            d = digest(case)
            if d not in self.digests:
                self.digests.add(d)
                s = _sample(case)
                if len(self.first_samples) < 3:
                    self.first_samples.append(s)
                else:
                    self.low_samples.append((d, s))
                    self.low_samples.sort(key=lambda t: t[0])
                    del self.low_samples[3:]

    def count(self, cls, n=1):
        self.classes[cls] += n

    def exclude(self, key, n=1):
        self.excluded[key] += n

    @contextlib.contextmanager
    def sut(self, case, what, legal=()):
        """Run code under test; any exception that is not a declared legal rejection is a violation
        of the property on `case`.  Legal rejections re-raise for the caller to handle."""
        try:
            yield
        except Violation:
            raise
        except legal:
            raise
        except Exception as e:  # noqa: BLE001 - deliberate: classified, not swallowed
            tb = traceback.extract_tb(e.__traceback__)
            where = ""
            for fr in reversed(tb):
                if "quantem" in fr.filename:
                    where = " at %s:%d" % (fr.filename.split("quantem/")[-1], fr.lineno)
                    break
            if not where and tb:
                # raised outside quantem: if no quantem frame is on the stack at all this is ours
                if not any("quantem" in fr.filename for fr in tb):
                    raise
            raise Violation("%s raised %s: %s%s" % (what, type(e).__name__, str(e)[:300], where), case)

    def result(self):
        return {
            "evaluations": self.evaluations,
            "digests": sorted(self.digests),
            "classes": dict(self.classes),
            "excluded": dict(self.excluded),
            "first_samples": self.first_samples,
            "low_samples": self.low_samples,
            "extra": self.extra,
        }


def _sample(case):
    s = canon(case)
    if len(s) <= MAX_SAMPLE_CHARS:
        return json.loads(s)
    return {"truncated_case_json": s[:MAX_SAMPLE_CHARS] + "...", "full_length": len(s)}


# ------------------------------------------------------------------------------------------------
# Hypothesis drivers
# ------------------------------------------------------------------------------------------------
def hyp_settings(max_examples, shrink=True, stateful_step_count=None):
    from hypothesis import HealthCheck, Phase, Verbosity, settings

    # no Phase.target: hypothesis.target() hill-climbs over wide integer draws (case seeds in 0..2^32) for tens of
    # minutes without running a test (seen in C13/C18 early on and again in a C12 thorough worker at seed 2); modules
    # that still call target() only feed a score that is then ignored
    phases = [Phase.explicit, Phase.generate]
    if shrink:
        phases.append(Phase.shrink)
    kw = dict(
        max_examples=max_examples,
        database=None,
        deadline=None,
        derandomize=False,
        report_multiple_bugs=False,
        suppress_health_check=list(HealthCheck),
        phases=phases,
        print_blob=False,
        verbosity=Verbosity.quiet,
    )
    if stateful_step_count is not None:
        kw["stateful_step_count"] = stateful_step_count
    return settings(**kw)


def run_given(ctx, label, strategy, body, max_examples, shrink=True):
    """Drive `body(case)` over `strategy` with a seed derived from VERIF_SEED, worker and label."""
    from hypothesis import given, seed

    @seed(ctx.subseed(label))
    @hyp_settings(max_examples, shrink=shrink)
    @given(strategy)
    def _t(case):
        try:
            body(case)
        except (Violation, HarnessError):
            raise
        except Exception as e:  # noqa: BLE001
            where = raised_inside_quantem(e)
            if where is None:
                raise
            # an observation / operation outside a ctx.sut block made the code under test raise
            raise Violation("unexpected %s raised inside quantem (%s): %s" % (type(e).__name__, where, str(e)[:300]), case if isinstance(case, (dict, list)) else {"case": repr(case)[:2000]})

    _run_hyp(_t)


def raised_inside_quantem(e):
    """'file:line' of the innermost first-party frame if that frame is quantem code (the exception was raised by the
    code under test or by a library call it made), None if it is harness code or a Hypothesis control exception."""
    try:
        import hypothesis.errors as he

        if isinstance(e, he.HypothesisException):
            return None
    except ImportError:
        pass
    for fr in reversed(traceback.extract_tb(e.__traceback__)):
        fn = fr.filename
        if "site-packages" in fn or "/lib/python" in fn or fn.startswith("<"):
            continue
        if "/quantem/" in fn and "/verif/" not in fn:
            return "%s:%d" % (fn.split("quantem/")[-1], fr.lineno)
        return None
    return None


def run_machine(ctx, label, machine_cls, max_examples, steps, shrink=True):
    from hypothesis import seed
    from hypothesis.stateful import run_state_machine_as_test

    m = seed(ctx.subseed(label))(machine_cls)
    _run_hyp(
        lambda: run_state_machine_as_test(
            m, settings=hyp_settings(max_examples, shrink=shrink, stateful_step_count=steps)
        )
    )


def _run_hyp(fn):
    import hypothesis.errors as he

    try:
        fn()
    except Violation:
        raise
    except he.FlakyFailure as e:  # includes Flaky (non-reproducible failure)
        # a failure that does not reproduce from the same generated data: report the underlying
        # violation if there is one, else inconclusive
        for sub in getattr(e, "exceptions", ()):
            if isinstance(sub, Violation):
                raise sub
        raise HarnessError("flaky: %s" % e)
    except he.Flaky as e:
        raise HarnessError("flaky: %s" % e)
    except he.Unsatisfiable as e:
        raise HarnessError("generator unsatisfiable: %s" % e)
    except he.HypothesisException as e:
        raise HarnessError("hypothesis: %s: %s" % (type(e).__name__, e))


# ------------------------------------------------------------------------------------------------
# known findings
# ------------------------------------------------------------------------------------------------
def load_known(prop_id):
    p = os.path.join(VERIF, "known_findings.json")
    if not os.path.exists(p):
        return [], []
    with open(p) as f:
        d = json.load(f)
    ents = [e for e in d.get("entries", []) if e.get("property") == prop_id]
    return ([e for e in ents if e.get("status") == "finding"], [e for e in ents if e.get("status") == "fixed"])


# ------------------------------------------------------------------------------------------------
# numeric helpers shared by property modules
# ------------------------------------------------------------------------------------------------
def close(a, b, rtol=0.0, atol=0.0):
    """max|a-b| <= atol + rtol*max|b| (array-norm based, NaN-unsafe: NaN => False)."""
    import numpy as np

    a = np.asarray(a)
    b = np.asarray(b)
    if a.shape != b.shape:
        return False
    if a.size == 0:
        return True
    err = np.max(np.abs(a - b))
    ref = np.max(np.abs(b))
    return bool(err <= atol + rtol * ref) and not math.isnan(float(err))


def maxerr(a, b):
    import numpy as np

    a = np.asarray(a)
    b = np.asarray(b)
    if a.shape != b.shape:
        return float("inf")
    if a.size == 0:
        return 0.0
    return float(np.max(np.abs(a - b)))


def write_json(path, obj):
    os.makedirs(os.path.dirname(path), exist_ok=True)
    tmp = path + ".tmp%d" % os.getpid()
    with open(tmp, "w") as f:
        json.dump(obj, f, indent=1, sort_keys=True, default=_default)
    os.replace(tmp, path)


def now():
    return time.time()

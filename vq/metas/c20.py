from vq.meta import _m

_m(
    "C20",
    "exploration",
    "Hypothesis draws (array of dtype int8..uint64/float32/float64, size 2..40, 1-3 dims, >=2 distinct finite values, "
    "NaN/inf sprinkled in float arrays, integer regimes full-range/narrow/near-max) x interval (quantile lo<hi | manual "
    "vmin/vmax given or None, python ints or floats | centered vcenter int/float, half_range or None) x stretch (linear | "
    "power p in [1/30,30] | logarithmic a in [1e-3,1e6] | asinh a in [2e-3,1e3]) x construction route (direct, limits "
    "frozen from data= as show_2d does, every named preset through _resolve_normalization) x optional second array for the "
    "frozen norm; plus stretch/inverse round-trip cases over t in [0,1].  A case is NON-TRIVIAL when the data dtype is an "
    "integer type, or the data contain a NaN, or the stretch is non-linear with a non-default parameter; distinct = SHA-1 "
    "of the canonical JSON of the whole case.",
    [
        "oracle limits are computed in float64 by the harness (own linear-interpolation quantile); implementation limits "
        "must agree to 1e-11 relative (1e-5 for float32 data)",
        "tolerance 16 ulp of the working dtype at 1.0 for range/monotonicity (libm log/pow/asinh are not guaranteed monotone "
        "to the last bit); 1e-9 absolute for stretch round-trips",
        "data magnitudes are bounded (1e30 float32, 1e150 float64) so vmax - vmin cannot overflow: overflow of the span is "
        "outside the claimed domain; likewise limit spans below 4x the smallest normal number of the working precision (subnormal "
        "divisor) are skipped and counted under excluded_by_construction",
    ],
    workers=(1, 16),
    technique="property-based testing (Hypothesis): range/monotonicity/limit laws and inverse round-trips over generated arrays x interval x stretch configurations, float64 limit oracle",
    text="Generated-input search: every case is judged against the laws in the property (range, monotone, limits -> 0/1, NaN masked, "
    "stretch o inverse = id) with limits from an independent float64 oracle.  Exploration only: no absence claim.",
    note="Trusts numpy float64 arithmetic for the oracle limits; span overflow and float16 excluded from the domain.",
    design="DESIGN.md §3 C20",
)

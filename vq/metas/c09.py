from vq.meta import _m

_m(
    "C09",
    "exploration",
    "Part 1 (pure Python).  BOUNDED-EXHAUSTIVE (this, and only this, is what coverage.exhaustive=true refers to): every "
    "SimpleBatcher configuration with n in 1..40, batch_size in {1..n+2, None}, val_ratio in {0} U {k/n, k=1..n-1} U "
    "{0.05, 0.10, .., 0.95}, val_mode in {grid, random}, shuffle in {False, True}, seed in {0, 1}, rng passed as "
    "np.random.default_rng(seed) the way reconstruct passes it (317 504 configurations), and every "
    "subdivide_batches/generate_batches call with num_items in 1..64, num_batches in 1..num_items or max_batch in "
    "1..num_items+2, start_index in {0, 7} (8 576 configurations); configuration i of the fixed enumeration order is "
    "judged by worker i mod nworkers, so the union over the workers is the whole space.  Plus Hypothesis-drawn larger "
    "cases: n <= 5000, any batch size in 1..n+2 (biased to divisors, n-1, n, n+1, small sizes) or None, any float "
    "val_ratio in [0, 1) (biased to k/n, 1/k, 1-1/k), seeds from {31-bit, 2**31-1, 2**32-1, 2**32, 2**32+17, 14-digit "
    "timestamps, 2**63-1, 2**64-1, any 64-bit} passed as int or as Generator; num_items <= 100 000.  Part 2 (Hypothesis, tiny "
    "Ptychography problems built through the public constructors from random positive intensities): roi 3..7 per axis, "
    "scan grid 2..5 per axis (J = 4..25 patterns), 1-2 slices, 1-2 probe modes, complex / pure_phase / potential object, "
    "padding 0..3, float32 or float64 configuration, the five loss types, val_ratio 0 or in {0.1 .. 0.75} with grid or "
    "random split, optimised models {object, probe, dataset} subsets.  invariance cases compare EVERY divisor b of the "
    "number of training patterns with the single full batch; about half of them run with ACTIVE soft constraints "
    "(object tv_weight_xy / tv_weight_z / surface_zero_weight, probe tv_weight, dataset descan_tv_weight with "
    "non-constant descan shifts; weights 0.5-5, 1-3 slices, random non-uniform object) passed through "
    "reconstruct(constraints=...).  determinism cases draw the seed from the large-seed set above (about half are >= "
    "2**32) given to every model as int or as a fresh np.random.default_rng(seed), and compare three histories: fresh "
    "instance WITHOUT reset, second fresh instance (first call with or without reset=True), first instance after "
    "reconstruct(reset=True); they draw optimiser (adam/adamw/sgd), lr, "
    "scheduler (none / exp with factor, i.e. gamma derived from the run length / exp with gamma / linear / cyclic / "
    "plateau), 2-3 epochs, batch_size in 1..J+2 or None; the re-run after reset re-passes both / only optimizer_params / "
    "only scheduler_params / NEITHER (both are sticky on the models); the second instance gets a drawn PRELUDE before "
    "the compared run (budget stratified): none (first call with or without reset) | a configuration-only "
    "reconstruct(num_iters=0) with another batch size | a reconstruct interrupted by an exception raised inside its "
    "k-th mini-batch, k in {1,1,1,2,3,5,8} (k=1: nothing recorded yet) | a completed run of another length and batch "
    "size | clone() or from_ptychography() of the never-run object -- each followed by the same run with reset=True, "
    "which must reproduce the fresh seeded history.  A case is NON-TRIVIAL when: batcher - the batch size does not divide n or "
    "val_ratio > 0; split - the items cannot be split evenly (num_batches does not divide num_items, or max_batch < "
    "num_items does not divide it); invariance - at least two training patterns are certain, J - round(J*val_ratio) >= 2 "
    "(batch size 1 then gives >= 2 batches against the one full batch); determinism - an epoch has >= 2 training batches (so the shuffle order influences the history).  distinct = "
    "SHA-1 of the canonical JSON of the whole case.",
    [
        "n >= 1 everywhere (SimpleBatcher(0, None) is a range() step-0 error: an empty dataset is not a claimed input); "
        "val_ratio in [0, 1); part 2 keeps J >= 4 and val_ratio <= 0.75 so that the training set is never empty (an empty "
        "training set makes reconstruct divide by zero batches - outside the property)",
        "'same seed => same split and same order' is judged between two batchers constructed identically (both from the "
        "int seed, or both from a fresh np.random.default_rng(seed)); int-vs-Generator equivalence is not asserted",
        "only membership, multiplicity, batch sizes, counts and order-determinism are asserted for the split; the number "
        "of validation items (round(n*ratio)) and which items the grid mode picks are not part of the property",
        "batch invariance is observed through reconstruct itself: every optimiser is a torch.optim.SGD subclass with lr=0 "
        "(public optimizer_params={'type': <class>} route) that copies .grad at each step, so parameters never move and "
        "iter_losses[0] is exactly the mean of the per-batch losses; autograd=True only (the analytic backward normalises "
        "by a batch-dependent probe intensity and is not linear in the batch); default constraints",
        "with a validation split the claim is read on the batched set: batch sizes are the divisors of the number of "
        "TRAINING patterns (the per-batch loss is scaled by J/b, so the mean over equal batches equals the one-batch "
        "value exactly as without a split)",
        "the invariance claim only relates losses at different batch sizes to each other: a change that rescales the "
        "full-batch and per-batch losses alike (e.g. a per-pattern mean instead of a total) is outside the property",
        "tolerances: loss relative to |full-batch loss| (Poisson: to max(|loss|, 0.5 per pattern), a guard against sign "
        "cancellation; with the generator's data every term is positive and the loss is 1.8-2.4 per pattern), gradients "
        "relative to the largest component of the full-batch gradient of the same parameter tensor.  float64 "
        "configuration: 1e-10 / 1e-8 (clean tree <= 3.8e-16 / 1.5e-14 over ~1200 cases).  float32 configuration: 1e-4 / "
        "1e-3 object and probe / 1e-2 descan and scan positions (clean tree <= 2.4e-7 / 4.5e-6 / 6.1e-5; heavy-tailed "
        "because batch shapes change FFT/reduction paths and 1/sqrt(I+1e-9), 1/(I+1e-6) weights amplify last-bit "
        "differences at dark pixels - the float32 full-batch gradient is itself 5e-5 from the float64 one in the worst "
        "case, kept as a passing replay).  Batch-fraction scaling errors are >= 1/2.  Determinism is compared bit-for-bit "
        "(float.hex), valid because the runner pins torch to one thread",
        "soft constraints: on the clean tree reconstruct adds the parameter-only soft-constraint loss C to EVERY batch "
        "loss unscaled and reports sum(batch losses)/num_batches, so with frozen parameters the reported epoch loss is "
        "mean(consistency) + C at every batch size (verified: equal to 1e-16 in float64 for each soft term); the same loss "
        "and gradient tolerances are applied to the reported loss including C",
        "seed forms: non-negative Python ints of any size and freshly constructed np.random.default_rng(int) objects (what "
        "the RNGMixin / SimpleBatcher setters accept and can re-seed from); already-consumed or spawned generators, "
        "floats and negative seeds are outside the domain",
        "an interrupted run is modelled by an exception raised from the harness's dset.forward observer (stands for "
        "Ctrl-C or any error inside a mini-batch); the state after it is only required to be restorable by reset=True.  "
        "batch_size=None means 'keep the current batch size', so a prelude never changes the batch size when the compared "
        "run passes None; the configuration-only prelude passes no scheduler_params (exp-with-factor divides by "
        "num_iters)",
        "every invariance run starts from reconstruct(reset=True); the full batch is run twice first and must agree "
        "bit-for-bit (the property's own reset claim), otherwise that is what is reported",
        "reconstruct(batch_size=None) keeps the instance's current batch size (initially all patterns): the invariance "
        "kind always passes explicit sizes, the determinism kind passes the same value in every call",
        "pattern visits inside reconstruct are observed by wrapping dset.forward and step_schedulers of the instance "
        "with pass-through recorders (no behavioural change)",
    ],
    workers=(4, 16),
    technique="property-based testing: bounded-exhaustive enumeration of the pure scheduling functions against the "
    "set-theoretic definitions (partition, exactly-once, balanced contiguous ranges) + Hypothesis-generated larger "
    "configurations; metamorphic relations named by the property on generated Ptychography problems (per-batch mean == "
    "full batch for every divisor; same seeds / reset => bit-identical histories)",
    text="Part 1 is decided completely inside the stated bounds (see rule) and sampled beyond them; part 2 is a "
    "generated-input search.  Exploration only outside the enumerated sub-space: no absence claim there.",
    note="Uniform rescalings of the loss (same factor at every batch size) are invisible to the invariance relation and "
    "belong to C02's differential simulator; bitwise determinism is only meaningful single-threaded on CPU.",
    design="DESIGN.md §3 C09",
)

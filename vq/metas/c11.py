from vq.meta import _m

_m(
    "C11",
    "exploration",
    "placeholder",
    [],
    workers=(1, 16),
    technique="model-based property testing",
    text="",
    note="",
    design="DESIGN.md §3 C11",
)

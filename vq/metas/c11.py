from vq.meta import _m

_m(
    "C11",
    "exploration",
    "Hypothesis draws operation histories (1..15 steps quick, 1..30 thorough; length drawn uniformly) over up to three live Vectors: "
    "an initial creation (from_shape with 1, 2 or 3 fixed dimensions of size 1..4, or from_data with 1..5 cells given as arrays / "
    "nested lists / mixed, incl. zero-row cells; 1..4 fields with default or given names, units given or defaulted, num_fields "
    "passed / inferred) followed by steps drawn from: single-cell set/get through __setitem__/__getitem__ and set_data/get_data; "
    "multi-cell assignment with a list of fresh arrays through v[...] = [...] (slices incl. open, negative and stepped bounds, "
    "lists and ndarrays of length >= 2, outer product over several dimensions) and set_data (one multi-cell dimension, >= 2 cells); "
    "retrieval through get_data and slicing to a new Vector (full or partial index tuples, bare or tuple index); "
    "slice / fancy assignment whose VALUE IS A VECTOR: a copy() of a slice of the same or another live vector taken now, a copy() of "
    "a slice of the destination vector held from an earlier step (hold steps keep up to two such slices) or taken just before an "
    "add_fields / remove_fields of that vector (stale column count), written to the held index sets shifted cyclically, or a fresh "
    "Vector.from_data with k, k+1 or k-1 columns - matching column counts must store exactly the right-hand side's cells, "
    "mismatching ones must raise ValueError and change nothing; MUTATION OF SLICE RESULTS: a slice taken now (full or partial index "
    "tuple, repeated positions in fancy lists welcome) or held from an earlier step joins the live vectors for 1..4 sub-steps "
    "of replacement-type mutations (cell assignment through __setitem__ / set_data, list assignment, add_fields / remove_fields, "
    "flatten -> set_flattened round trip, replacement of a cell in a copy() of the slice, replacement of a cell of the PARENT, "
    "reads) and slice, parent and all other live vectors are compared with their models after every sub-step; integer positions "
    "are drawn as Python ints and as NumPy integer scalars (int64 / int32 / intp / uint8) in every index position (cell access, "
    "set_data / get_data, mixed with slices / lists / omitted axes); creation through from_data (and replacement of all cells through "
    "the public `v.data = list` setter on 1-D vectors, incl. wrong length / column count -> ValueError) from a list object the "
    "harness KEEPS, followed by mutations of that list (replace / insert / append / pop / clear) and by further vectors created "
    "from the SAME list object refilled in place (same content or new content) - no live vector may change and no two may share "
    "cells; in a third of the histories cells of DIFFERENT DTYPES (int64 / int32 / float32 / float64 cycling per cell, zero-row "
    "integer cells first, nested lists of Python ints as in the docstring's from_data example) enter through from_data, the data "
    "setter and cell / list assignment; field arithmetic v[f] op= scalar for + - * /; callable assignment; "
    "set_flattened / v[f] = values (ndarray or list) and the flatten -> set_flattened round trip; add_fields / remove_fields "
    "(str, list, tuple; existing, duplicate and missing names; all-but-one); copy (optionally preceded by a nested metadata write and "
    "followed by an in-place mutation on one side); creation of further independent Vectors; metadata writes and in-place "
    "appends.  About one assignment in five carries an array of illegal shape (k+1 or k-1 columns, 1-D, 3-D) and one "
    "set_flattened in three a wrong length: these must raise ValueError.  Steps are abstract (slots, indices and field numbers are "
    "small integers taken modulo the current number of live vectors / shape / field count), so every history is executable; after "
    "EVERY step every live Vector is read back through its public API and compared with the reference model.  A history is "
    "NON-TRIVIAL when at least one step executed and it either touches a Vector whose number of fixed dimensions is not 2, or "
    "interleaves a successful add/remove of fields with a cell assignment and a slicing retrieval; distinct = SHA-1 of the "
    "canonical JSON of the (abstract) case.",
    [
        "reference model (vq/refs/c11_vector_model.py) is pure Python (dict index-tuple -> list of rows | None, ordered fields / "
        "units, deep-copied metadata); index sets come from Python's slice.indices/range; several non-integer indices combine as an "
        "outer product, integers keep a length-1 axis in a sliced Vector, cells are enumerated in row-major order",
        "all comparisons are exact: cell entries are half-integers in [-4, 4]; the model applies the same single IEEE-754 double "
        "operations (+ - * / by a fixed list of scalars, x*2, -x+1, x*0.5-1) with Python floats; growth is bounded (factor <= 10 "
        "per step) so no inf/NaN can arise; measured clean-tree difference 0 over > 2e4 histories",
        "new columns from add_fields are zero-filled with unit 'none' (asserted by the repository's own unit tests)",
        "values are always FRESH float64 arrays: assigning a retrieved cell object back (aliasing, double-applied field arithmetic) "
        "and integer-dtype cells (in-place float arithmetic truncates) are outside the domain; sliced Vectors are documented views "
        "and are only read",
        "indices are non-negative integers (negative only inside slices), index sets are never empty, fancy lists used for assignment "
        "have >= 2 entries, assignment index tuples have full rank; set_data with a list is only used with ONE multi-cell dimension "
        "addressing >= 2 cells (with a one-cell slice set_data expects a bare array; with several multi-cell dimensions the "
        "docstring does not fix the list layout)",
        "a list assignment rejected because of one illegal array may leave the arrays BEFORE it stored (the statement promises the "
        "invariants, not atomicity): both 'unchanged' and 'prefix stored' are accepted (counted as rejected-list-prefix-applied)",
        "copy() must be independent of its source; whether it carries the source's metadata or starts empty is not fixed by the "
        "statement (both accepted, counted); a newly created Vector must have empty metadata",
        "a zero-row cell is only passed to from_data as an ndarray of shape (0, k) (an empty nested list cannot carry k); "
        "a Vector right-hand side is only used when all its cells are populated (the harness fills the addressed cells first)",
        "a Vector right-hand side is flattened in row-major order and only its number of cells has to match; slices are assigned "
        "through copy() and from_data right-hand sides are dropped after the assignment, so stored arrays are never aliased "
        "(the documented aliasing of `v[a] = v[b]` is outside the domain).  The expected content of a HELD slice is what the slice "
        "itself returns through its public API immediately before the assignment (it is the input of the operation; a view's "
        "content after later in-place field arithmetic on its parent is not specified), its column count decides match / mismatch",
        "cells of mixed dtypes are judged BY VALUE on the read side and the pure round trip only: v[f].flatten() and "
        "Vector.flatten() equal the model's row-major concatenation (NumPy promotion of int64/int32/float32/float64 to float64 is "
        "value-preserving for the generated values: half-integers in [-4, 4] in float cells, integers in [-8, 8] in integer cells) and "
        "set_flattened(flatten()) restores every cell.  In-place field arithmetic and callable assignment cast the result back to each "
        "cell's own dtype (integer cells truncate, float32 cells round) and are therefore NOT applied to a vector that ever received a "
        "non-float64 cell (sticky flag, inherited by copies and by destinations of Vector-valued assignments; counted as skipped); "
        "set_flattened on such vectors writes integer values only (exact in every cell dtype)",
        "a Vector stores the arrays it is given by reference (documented aliasing): the harness never hands one ndarray object to "
        "two vectors - a kept list reused for a second from_data / .data call gets fresh array objects (nested-list elements are "
        "reused as they are) - and never mutates an array it handed over; only the caller's OUTER list is mutated",
        "a slice result is a new Vector that owns its cell CONTAINERS and shares only the cell ARRAYS with its parent (class notes: "
        "'Slicing operations return new Vector instances', name suffix '[view]'; this is what the unmodified tree provides): replacing "
        "a cell or the fields of the slice changes neither the parent nor any other cell of the slice - in particular not the twin row "
        "a repeated index produces - and replacing a cell of the parent does not change the slice.  Because the arrays are shared, "
        "only replacement-type mutations (and value-preserving round trips) are applied while a slice is alive: in-place field "
        "arithmetic through a slice (visible in the parent, applied twice to twin rows) is outside the domain; the model of a slice held "
        "from an earlier step is built from what the slice returns through its public API at that moment",
        "the `data` setter is only used on vectors with one fixed dimension (its validation is written for that case)",
        "every case clears the metadata of its vectors at the end (public API) so that a tree with process-wide shared metadata "
        "cannot leak state from one case into the next: reported cases are self-contained",
    ],
    workers=(1, 16),
    technique="model-based property testing (Hypothesis-generated operation histories against a pure-Python list-of-rows reference "
    "model; full read-back, per-field and whole flatten, and no-shared-state checks after every step)",
    text="Generated histories against an independent reference model with a full comparison of every live Vector after every step; "
    "the case Hypothesis settles on is further reduced by deterministic step deletion.  Exploration only: no absence claim.",
    note="Trusts the reference model's reading of the docstrings (outer-product fancy indexing, integers keep a length-1 axis, "
    "zero-filled new columns); aliasing histories, integer cells and 4+ fixed dimensions are outside the domain.",
    design="DESIGN.md §3 C11",
)

from vq.meta import _m

_m(
    "C15",
    "exploration",
    "Hypothesis draws (image rows R and columns C in 6..24, one case in four forced square; stack of 2..4 images of that "
    "shape; scan direction per image from {0,90,180,270,45,30,135,200,315}, whole degrees, or a float in [0,360); pad "
    "fraction in [0,1] incl. 0/0.25/0.5/1; pad_value in {median, mean, min, max, quantile 0.25}; number_knots 1..4; "
    "kde_sigma in [0.3,2]; warp upsample_factor 1..3; image content = unit mean + smooth (Gaussian sigma 1, periodic) noise "
    "scaled to max |.| = contrast in [0.3,0.9], numpy seed drawn).  Three strategies: 'geometry' (distinct images, independent "
    "directions; clauses 1-2), 'fixed-point' (identical images, one direction, align_translation(upsample_factor in "
    "{1,2,3,4,7,8,16,31,32,33,40,48,64,100}); clauses 1-3), and 'history' (same parameter space; the stack holds "
    "circularly shifted copies, shifts in "
    "[-3,3]^2 with at least one non-zero, of one image, one common or per-image scan directions; after the first "
    "preprocess() come 1..2 rounds of [optional public alignment step: align_translation(upsample_factor 1/2/8), "
    "align_affine(num_tests=3, refine=False) or align_nonrigid(1 iteration) - the two slow ones only on small stacks] -> "
    "[settings changed before the re-preprocess: none (3/8), or new scan_direction_degrees through the setter combined with "
    "number_knots == 1 at the re-preprocess (3/8; half of them with no alignment step in between), or any 1..3 of pad "
    "fraction, number_knots, kde_sigma, pad_value, scan directions via the "
    "setter] -> preprocess() again; clauses 1-2 are judged after every preprocess(), incl. preprocess(); preprocess() with no "
    "alignment).  A geometry / fixed-point case is NON-TRIVIAL when (R != C and at least one scan direction is not a "
    "multiple of 90 degrees) or number_knots >= 2; a history case is NON-TRIVIAL when an alignment step displaced some knot "
    "by >= 0.25 px before a judged re-preprocess (class history_knots_moved; history_same_settings_after_move counts those "
    "re-initialised with unchanged settings) or the scan directions were replaced and the re-preprocess used a single knot "
    "(class history_new_angles_single_knot); In all three strategies the scan directions are handed over in a drawn container: Python list of floats, list of "
    "ints, tuple, float64 / float32 array, int64 / int32 / int16 / uint16 / uint32 / uint64 array (integer-valued angles for "
    "the integer containers, float32-representable ones for float32; the same container is used for the "
    "scan_direction_degrees setter) - classes angles_as:*; and about one case in five runs with displays ON (Agg backend): "
    "align_*() with show_merged left at its default True and/or show_images=True, preprocess(show_merged/show_images=True), "
    "public plot_merged_images() / plot_transformed_images() / plot_convergence() calls between the steps, knot overlay at "
    "its default - classes plotting_on / plotting_on_knot_outside_canvas (some initial knot lies outside the canvas) / "
    "plotting_off; the same geometry and fixed point are required.  distinct = SHA-1 of the canonical JSON of the whole case.",
    [
        "scan-direction convention taken from the class docstring + array indexing: angle 0 copies the image unrotated "
        "(fast = +col, slow = +row); angle t applies the proper rotation fast = (-sin t, cos t), slow = (cos t, sin t)",
        "canvas centre = ((H-1)/2, (W-1)/2) of the canvas quantem actually allocates (images_warped.shape); the canvas "
        "size rule itself is not judged",
        "all images of a stack have one shape (preprocess sizes the canvas from images[0] rows and images[1] columns)",
        "coordinates: 1e-9 px absolute against the float64 closed form (clean tree <= 3e-14 px); 1e-4 px when the scan "
        "directions arrive as float32 / int16 / uint16 arrays, for which np.deg2rad itself returns float32 radians (bound "
        "~7e-6 px, clean tree <= 2.2e-6 px)",
        "float16 / int8 / uint8 scan-direction arrays are accepted by the API but np.deg2rad turns them into float16 radians "
        "(coordinates off by up to ~0.05 px on the clean tree): observed, outside the judged domain",
        "displays: looking at the state (any show_* flag, any public plot_* method) must not change it; plot_convergence has "
        "no knot overlay and an exception from it is counted, not reported; figures are closed after every case",
        "weight sum: rtol 1e-4 (float32 accumulators; clean tree <= 2.4e-7); centroid of the weight map == canvas centre to "
        "1e-4 px, only judged when every pixel is >= int(4 sigma + 0.5) + 2 px inside the canvas (no wrap, no reflection); "
        "clean tree <= 7e-8 px",
        "fixed point: knots may move <= max(1e-6, 20 * eps32 * A(0) / min curvature of A at lag 0) px, A = float64 "
        "auto-correlation of the warped image computed by the harness.  align_translation correlates the float32 warped "
        "images (numpy gives complex64 FFTs), so the parabolic sub-pixel vertex of the zero-lag peak is only zero to "
        "rounding, ~ eps32 * peak / curvature px; measured movement / that figure <= 0.93 over 1200 random and <= 0.61 over "
        "3000 Hypothesis-targeted identical stacks (absolute: <= 5.4e-4 px at upsample_factor 1, <= 4e-5 at 2 and 8; ratio <= 0.12 for every factor 2..100 over 2500 stacks; "
        "allowance is typically 1e-5..1e-3 px, at most ~0.09 px for sigma 2 / contrast 0.3, vs. 0.25 px for the defect)",
        "fixed point: images_warped is compared before/after with tolerance 2e-5 + K * value range * (observed knot "
        "movement): the warp is Lipschitz in a uniform knot shift; with unit point density the KDE count has slope <= "
        "TV(kernel) ~ 2.8 per px, so K <= 2.8/0.5 ~ 6 where the count is >= 0.5 (K = 10 used, measured <= 1.2) and K <= "
        "2 * 2.8 / threshold(1e-3) ~ 6000 anywhere (measured <= 190: the count threshold clamp amplifies the slope at "
        "the rim of the image)",
        "history cases: every preprocess() call re-initialises the geometry, so 'before any drift is estimated' applies to "
        "the object it returns whatever alignment ran before; what the alignment steps do to the (arbitrary) shifted stack "
        "is not judged, and an exception raised inside an alignment step is counted (history_align_raised:*), not reported",
        "image contrast >= 0.3 of the mean so the zero-lag auto-correlation peak is unique with a margin >> float32 eps",
    ],
    workers=(1, 16),
    technique="property-based testing (Hypothesis): generated shape x direction x pad x knots x KDE x upsample configurations; "
    "float64 closed-form coordinate oracle, conservation laws (weight sum, first moment) and the fixed-point relation named "
    "by the property",
    text="Generated-input search: transform_coordinates(initial knots) is compared with the closed form centre + rotation for "
    "every image of every stack; warp_image weights are summed (and their centroid compared with the canvas centre when no "
    "border interaction is possible); identical stacks are run through align_translation and knots / warped images compared "
    "before and after; histories preprocess -> align_* -> preprocess re-judge coordinates and weights on the re-initialised "
    "object.  Exploration only: no absence claim.",
    note="The rotation sense is a convention read off the documented behaviour at 0 degrees plus properness of the rotation; a "
    "globally mirrored convention would need the maintainers' intent to decide.  Non-zero shifts (that align_translation moves "
    "knots by the right amount on both axes) are outside the statement and not judged.",
    design="DESIGN.md §3 C15",
)

from vq.meta import _m

_m(
    "C13",
    "exploration",
    "Hypothesis draws (h, w): each side 8..40 with explicit parity in ~5/6 of the draws, 41..128 otherwise (square or not) x estimator (numpy cross_correlation_shift | torch "
    "cross_correlation_shift_torch | torch align_images_fourier_torch on FFTs; torch inputs float64 or float32) x "
    "upsample_factor in {1,2,3,4,8,16,32,64} x reference image (seeded: white noise [integer shifts only] | band-limited "
    "random field, cut-off 0.2-0.6 of Nyquist per axis | random-phase field with a mirror-symmetric Gaussian power spectrum, "
    "correlation length 0.5-3 px | 1-3 periodic Gaussian blobs; pedestal 0/0.5/2) x applied circular translation s anywhere "
    "in [0,h)x[0,w) (identical images | integers | reals with fractional parts incl. 0.5, 0.49, 0.01, 0.99; one axis may stay "
    "integer) and, for numpy, fft_input x return_shifted_image x fft_output x max_shift (None | |s_centred| + {2.5,4,16,1000}; "
    "for integer shifts also + {0.25,0.5,1,1.5}).  "
    "ROUTE dimension: every call reaches its estimator through one of the module paths the package itself uses (numpy: "
    "core.utils.imaging_utils | imaging.drift | tomography.tomography_base | tomography.utils re-exports; torch: imaging_utils | "
    "direct_ptycho_utils re-export | the wrappers direct_ptycho_utils._compute_reference_shifts / _compute_pairwise_shifts on the "
    "(2,h,w) stack of the two images) and either passes every argument explicitly or leaves out those equal to the documented "
    "default of the core function (upsample_factor, max_shift=None, fft_input/fft_output=False), as the package's own callers do "
    "(class labels via:*, args:*, size:*, shift_radius>=32px*).  "
    "INPUT DTYPE dimension: in ~1/3 of the cases the two images are integer-valued counts stored as uint8 / uint16 / int16 / int32 / "
    "int64 (amplitude 100 on pedestal 128; 20000 on 30000; +-10000; +-1e6; +-1e6), handed to every estimator/input kind (numpy "
    "arrays, torch integer tensors viewing the same memory, FFTs of the integer arrays): exact clause = integer image and its "
    "np.roll; sub-pixel clause = the float field is translated first and both images are then rounded (class labels in_dtype:*).  "
    "HISTORY dimension: in ~40% of the cases the input arrays are built once (real-space images and, for Fourier-space input, "
    "their FFTs; float64 torch tensors are views of the same numpy memory) and 1-2 further registrations run on the SAME array "
    "objects with independently drawn settings (estimator numpy/torch as the input kind allows, upsample_factor, "
    "return_shifted_image/fft_output, max_shift, roles of the two images swapped); every call must satisfy the assertions of a "
    "single call (class label reused_inputs); before a further call the SAME array objects (numpy stack, torch views / float32 "
    "tensors, FFT arrays) are in half of the steps overwritten IN PLACE with a new image pair (new image, new shift), and the "
    "following estimates must be those of the new content (class labels refreshed_in_place*); cases without a history hand "
    "freshly built arrays to every call.  "
    "The moving image is T_s(ref) from the harness's own float64 Fourier translation (np.roll for integers).  A case is "
    "NON-TRIVIAL when the shift is non-integer with upsample_factor >= 2 and inside the sub-pixel domain guards, or some "
    "component of s exceeds half the image size, or the image is not square; distinct = SHA-1 of the canonical JSON of the case.",
    [
        "integer shifts: |error| <= 1e-6 px (numpy, float64; maximum on the repaired tree 6e-11).  The torch estimator builds its "
        "upsampling kernels in float32 regardless of input dtype, so 'exact' is asserted as <= 0.02/up px for float64 input and "
        "<= 0.3/up px for float32 input when up > 2 (measured maxima <= 0.046 of those values over 245 000 cases), 1e-6 for up <= 2",
        "sub-pixel shifts: |error| <= 1/up per axis (0.5 px for up = 1), asserted only inside the domain of two-stage "
        "registration, decided from the inputs alone: (a) the textbook 3-point parabola through every near-maximal pixel of "
        "the exact float64 correlation lies within 0.15 px of the true peak, (b) the peak's curvature matrix (second moments of "
        "the power spectrum) bounds the per-axis refinement bias by 0.06 sampling steps.  Outside that domain (~30% of the "
        "sub-pixel cases, nearly all of them raw random fields or multi-blob images) only the aligned-image/returned-shift "
        "consistency and the centred-cell range are asserted.  Measured maxima inside the domain over 245 000 cases: "
        "upsampled stage 0.05/up (both estimators); coarse-only stage 0.06 px numpy, 0.28 px torch (bounded by 0.25 + 0.15 "
        "by construction: half-pixel rounding plus guard (a))",
        "integer-dtype images, sub-pixel clause: rounding the two images moves the correlation peak; the harness locates the peak of "
        "the rounded pair itself (float64 Newton iteration on the exact Fourier series of their cross-correlation, R.true_peak) and "
        "adds that displacement (<= 0.02 px or the case is outside the domain; typically 1e-6..1e-2 px) to the shift tolerance; "
        "guard (a) is evaluated on the rounded pair.  The aligned image is compared with the harness's translation of the rounded "
        "image with the Nyquist lines removed (a non-integer translation is not unique there and rounding noise lives there), and "
        "with the reference up to the translated rounding noise, computed exactly.  The returned dtype is not asserted, the value is",
        "cross_correlation_shift_torch promotes integer tensors to float32: judged with the float32 tolerances; with unsigned "
        "(pedestal) data it is only run with up <= 8 (measured on the pinned tree for exact integer shifts: 1.2 upsampled px error at "
        "up=64, 0.6 at 32, 0.07 at 16, 0.023 at 8 - float32 rounding of the correlation under a pedestal, as for float32 images) and, "
        "for sides above 40 px, only with up <= 2 (0.03-0.04 upsampled px at up=3..8 on 128 px images)",
        "re-exported names and the two direct-ptychography wrappers are judged as the core estimator (on the pinned tree the "
        "re-exports are the same function objects; the wrappers loop over cross_correlation_shift_torch and return its result "
        "per image / per pair); Tomography.cross_corr_alignment and DriftCorrection.align_* need dataset objects and resampling and "
        "are not driven here (C15 covers the latter)",
        "float16 / bfloat16 are outside the domain: torch.fft rejects both on CPU (NotImplementedError) on the pinned tree; numpy "
        "float16 is accepted but computed in complex64 and is not examined",
        "float32 torch inputs carry no pedestal (a pedestal of 2 on unit contrast costs ~2 upsampled px at up=64 in float32: "
        "rounding, not a convention error)",
        "max_shift: for sub-pixel shifts the disc edge stays >= 2.5 px beyond the true shift (closer, the pixel nearest to "
        "the true peak can itself be excluded and the two-stage guards above no longer describe the input); for integer "
        "shifts the peak pixel is the shift itself and margins down to 0.25 px are in the domain",
        "align_images_fourier_torch reports an unwrapped position on the correlation grid: compared modulo the cell, no range "
        "assertion",
        "image tolerances follow from the shift tolerance: tol*(sum|k_y F|+sum|k_x F|) (triangle-inequality gradient bound) "
        "+ 1e-6*scale; aligned image vs the harness's translation of im by the returned shift: 1e-6*scale",
    ],
    workers=(1, 16),
    technique="property-based testing (Hypothesis): generated image x shift x estimator configurations judged against an exact "
    "Fourier-translation ground truth, plus the metamorphic relations named by the property (identical images, swapped arguments)",
    text="Generated-input search (no hypothesis.target(): its optimiser stalled for minutes at one seed; fractional parts at the rounding boundaries are drawn explicitly instead, and the worst error/tolerance ratios are reported in coverage.extra).  Every case knows its true translation by construction; "
    "the estimate must be -s in the centred cell, the aligned image must be im moved by the returned shift and match ref, "
    "identical images must give 0 and swapped images the negated shift.  Exploration only: no absence claim.",
    note="Sub-pixel accuracy is only decidable for images whose correlation peak is well conditioned (guards above); the 1/up bound "
    "for strongly skewed peaks is an inherent limit of per-axis refinement and is not examined.  GPU (cupy/cuda) paths not run.",
    design="DESIGN.md §3 C13",
)

from vq.meta import _m

_m(
    "C16",
    "exploration",
    "Hypothesis draws one of five case kinds; every array is a pure function of a drawn integer seed (complex normal, "
    "scale 1e-3/1/1e3 where the identity is linear).  shift: complex128/complex64 2-D array or probe stack (M<=4), roi "
    "2..16 per axis (odd/even, non-square), numpy or torch backend, 1-3 positions with real shifts a, b (fractional, "
    "+-3x size, halves, integers) and integer shifts s (|s| <= 3x size); the shift vectors are held in a numpy array / "
    "torch tensor (same backend as the data; lists are rejected by the package) of dtype float of the data's width (what the "
    "package's callers pass), float64, float32, int64, int32 or int16 (integer dtypes carry whole-pixel a, b), and with "
    "`mix` one side of each law is written in the other spelling (int-typed a with float-typed b and a+b; float-typed a "
    "with int64-typed s).  prop: roi 2..16, sampling 0.1-1 A, energy "
    "10 keV-1 MeV, tilts 0 or +-30 mrad, two signed distances in +-40 A (stack a, b, a+b, -a), complex128/complex64 "
    "waves; plus a HISTORY of 1-3 further propagator requests on the SAME probe-model instance (learn_probe_tilt on in "
    "1/4): each names 1-3 distances from the pool [a, b, a+b, -a, -b, -(a+b)] or repeats the previous request exactly "
    "(1/2), and may first change the tilt (public probe_tilt setter), the energy (probe_params setter) or the sampling "
    "argument; after every request: unit modulus, P(z) == P(z), P(-z)P(z) == 1 and P(a)P(b) == P(a+b) between "
    "propagators obtained in DIFFERENT requests under the same current tilt/energy/sampling, and equality with a fresh "
    "instance constructed with the current parameters.  adjoint: object (S<=3, 2..14 per axis), patches (N<=4, 1..8 per axis) real or complex in 32/64 bit, index "
    "sets random / four distinct values (heavy repeats) / distinct / wrapped windows, int32 or int64; plus a LARGE stratum "
    "(10 cases per quick run, 30 per thorough worker): one sum_patches call with N x roi (roi 96..160 per axis) totalling "
    "just below / 1-3 patterns above 2**20 or 2**21 patch pixels, never an exact multiple of 2**20, object 100..300 per "
    "axis, window or random indices, all four dtypes.  chain: public "
    "constructors (Dataset4dstem -> PtychographyDatasetRaster.preprocess -> ProbePixelated.from_array, "
    "ObjectPixelated.from_array with random phases -> Ptychography.preprocess), roi 2..12, scan grid 2..4 per axis, "
    "S 1..4 with scalar or per-slice thicknesses 1-30 A, M 1..4, tilts, padding 0..5, pure_phase or potential object, "
    "descan ramps on/off, scan-position jitter 0/0.7/8 px (clipped, patches wrap), probe orthogonalisation on/off, "
    "float32 or float64 configuration, full or half batch; for S >= 2 optionally a tilt change through the public "
    "setter after the first pass, compute_propagator_arrays() and a second pass on the same instance (intensity sums "
    "again; instance propagators times the inverse propagators of a freshly built problem with the new tilt == 1).  proj: same construction, overlap (M<=4, N<=3, roi), measured "
    "amplitudes exact zeros (0/20/80/100 %) or in [max(1e-3*scale, 1e-7), 2*scale], overall amplitude scale of exit waves "
    "and measured data drawn from 1e-6, 1e-5, 1e-4, 1e-3, 1e-2, 0.1, 1, 10, 1e3 (all tolerances relative to the scale).  "
    "The detector layout of the measured amplitudes is checked on every proj and chain case: DetectorPixelated.forward of "
    "the exit waves (1..4 modes, batch 1..3 / scan batch, odd/even/non-square roi) against the float64 reference "
    "fftshift(sum over modes |ortho fft2|^2), and, with the library's own detector as observer, "
    "DetectorPixelated.forward(fourier_projection(A, x)) == A**2.  A case is NON-TRIVIAL when: shift - some shift "
    "component is non-integer on an even-length axis, or the shifts are held in an integer dtype, or int and float "
    "spellings are mixed; prop - a propagator carries more than 0.01 rad of phase; adjoint - "
    "the index set contains a repeated index; chain - S >= 2 or M >= 2; proj - the measured amplitudes contain an exact "
    "zero or M >= 2.  distinct = SHA-1 of the canonical JSON of the whole case.",
    [
        "only the identities named in the property are asserted (energy, composition, integer shift == np.roll, unit "
        "modulus, P(-z)P(z) == 1, P(a)P(b) == P(a+b), adjointness, per-pattern intensity sum, projected magnitudes == "
        "measured, idempotence); the Fresnel formula itself and the geometry of dataset patch indices are not asserted",
        "'scatter is the adjoint of gather' is judged element-wise against a numpy bincount scatter (the transpose of the index-gather "
        "matrix) and as an inner-product identity with quantem's own gather, whose output must equal object[indices]",
        "Fourier magnitudes are laid out like DetectorPixelated.forward output (np.fft.fftshift of the corner-centred "
        "pattern), the layout of dset.targets that reconstruct() passes to gradient_step",
        "tolerances: translation vs exact roll 2e-6*(1+|s|)*||x||_2 (phase ramp built from float32 fftfreq: rigorous bound "
        "1.9e-7*(|s_r|+|s_c|)*||x||_2; clean tree reaches 0.03 of the tolerance); 1e-10 relative for energy / composition "
        "/ adjoint / projection on complex128 (clean tree <= 1e-15); complex64: 1e-4 relative, or 1e-5*(1+|s|)+2e-5 for "
        "translations; propagators are always complex64: 5e-6 for |P|, 4e-6*(1+phase) for products (clean tree 2e-7), "
        "1e-5 relative for energy; forward chain 1e-10 (complex128, one slice), 1e-5 (complex128, multislice), 3e-5 "
        "(complex64) (clean tree 1e-15 / 1.5e-7 / 7e-7)",
        "mixed-state projection: estimate_amplitudes adds a documented 1e-9 regulariser to every Fourier coefficient, so "
        "magnitudes match to m*sqrt(M)*1e-9/(sqrt(S)-sqrt(M)*1e-9) (triangle inequality) and a second projection moves a "
        "coefficient by at most (|m-T|+sqrt(M)*1e-9)*T/(T-sqrt(M)*1e-9), T the magnitude after the first projection; the "
        "tolerances are 4x these rigorous bounds plus rounding (1e-10 / 1e-4 of the scale), so they stay valid at every "
        "amplitude scale; non-zero measured amplitudes are >= max(1e-3*scale, 1e-7) and overlaps are random (no exactly vanishing Fourier "
        "coefficient in all modes, where no rescaling can produce the measured amplitude)",
        "history independence (a propagator obtained after any sequence of requests and setter calls equals the one a "
        "fresh instance with the same current tilt/energy/sampling/thickness returns) is read out of 'for all inputs': the "
        "operator is a function of its parameters only; on the clean tree the two are bitwise equal",
        "detector reference: 1e-10 (complex128) / 1e-4 (complex64) of the pattern's total intensity per pixel; observer "
        "check: the magnitude tolerance t propagated to intensities, t*(2A+t), plus the same rounding term",
        "translation precision class: complex128 tolerances apply only when the data are complex128 and every position "
        "array used multiplies the library's float32 frequency grid in float64 (float64 positions; numpy int32/int64); "
        "float32, int16 and all torch integer positions are evaluated in float32 and get the complex64 tolerances (probed "
        "on the pinned tree: all of these dtypes are accepted and roll exactly to <= 5e-6)",
        "real-valued arrays are outside the translation domain (the property quantifies over complex arrays; the real "
        "path takes .real, which is not unitary at the Nyquist frequency)",
        "scan grids have >= 2 points per axis and a field of view of >= 1 object pixel (a 1-point axis gives a "
        "zero-width object: degenerate geometry, outside the property)",
    ],
    workers=(1, 16),
    technique="property-based testing (Hypothesis) of algebraic identities (unitarity, composition, exact rolls, adjointness, "
    "Parseval through the public forward chain, projection idempotence) with numpy float64 oracles; hypothesis.target "
    "maximises error/tolerance",
    text="Generated-input search over the five operator families; each case is judged against the identities of the property "
    "with an independent numpy oracle (np.roll, np.add.at, float64 ortho FFT).  The worst observed error/tolerance ratio "
    "per identity is reported under coverage.extra.  Exploration only: no absence claim.",
    note="Identities that hold for any unit-modulus propagator cannot see a wrong sign, a wrong frequency scale or even an "
    "identity propagator; those are left to C02's differential simulator.",
    design="DESIGN.md §3 C16",
)

from vq.meta import _m

_m(
    "C19",
    "exploration",
    "Hypothesis draws histories (1..20 steps) over the real module-level store: set (mapping / keyword '__' / mixed forms, 1-3 items, "
    "dotted keys, leaf values or nested-mapping values at interior paths), update_defaults (nested mappings), refresh, with-blocks "
    "(optionally nested, optionally left through an exception) and device requests (31 unavailable/malformed incl. torch.device objects of non-cpu backends, 4 cpu forms; via "
    "set_device / set mapping / set kwargs / update_defaults / with).  One history in three focuses on one subtree (3 of 4 keys drawn inside it); interior keys may be set to None (an empty yaml "
    "section) and entries that would assign below a None / scalar are skipped; with-blocks often carry two entries whose dotted names are "
    "string-prefix related (alpha / alpha_2, grp_a.sub / grp_a.sub_x); a template stratum interleaves random steps with the ordered chain "
    "'section key = None -> update_defaults fills it with a nested section -> set deep inside -> refresh'.  Keys come from a fixed 3-level "
    "schema of 23 paths (own keys and "
    "real default keys such as viz.cmap, cupy.fft-cache-size) with every component spelled all-'-' or all-'_' at random.  After every "
    "step every schema path is read with get() in both spellings (+ get(key, default)) and the whole store is compared with a "
    "reference model.  A history is NON-TRIVIAL when it contains an update_defaults after a set on the same path followed by a "
    "refresh, or a with-block; distinct = SHA-1 of the canonical JSON of the step list.",
    [
        "reference model written from the docstrings: set replaces the addressed subtree, update_defaults overrides a leaf only if absent "
        "or equal to the previous merged default, refresh = merged defaults in order",
        "documented ambiguity modelled as an allowed-outcome set: a value written by set that equals the previous default may be kept or "
        "replaced by the next update_defaults (counted as ambiguous_default_override)",
        "CPU-only sandbox: every cuda/mps/gpu/index request is 'unavailable'; the accepted-GPU direction cannot be exercised",
        "mixed '-'/'_' spellings inside one key component and leaf-under-scalar assignments are outside the domain",
    ],
    workers=(1, 16),
    technique="model-based property testing (Hypothesis-generated operation histories against a dictionary reference model, invariant after every step)",
    text="Generated histories against an independent reference model with an invariant (all paths, both spellings, whole store) after every "
    "step; exploration only.",
    note="Trusts the reference model's reading of the docstrings; see assumptions for the one allowed-outcome ambiguity.",
    design="DESIGN.md §3 C19",
)

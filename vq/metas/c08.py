from vq.meta import _m

_m(
    "C08",
    "fault_enumeration",
    "The search is stratified over all 26 combinations (store zip|dir x pre-existing target x mode w|o; 3 cases per worker and mode-o combination, 2 per mode-w combination in the quick tier, 10 / 4 in the thorough tier).  Within a stratum Hypothesis draws (object graph of 2-5 attributes with one nested AutoSerialize level or two, C01 value kinds; in 1 of 6 cases an "
    "unserialisable leaf - dill cannot pickle it - at a drawn position as attribute / list element / dict value) x store zip|dir x mode "
    "w|o x pre-existing target {absent, earlier successful save of another graph, earlier save of the other store kind at the same "
    "path, unrelated regular file, unrelated non-empty directory, archive with a second hard link, symlink to an archive, symlink to a directory store} x zip path given with or without the .zip suffix and with dotted base names (run.v2, scan_0.5mrad, a.b.c) x fault timing "
    "(before / after the operation) x exception type (cycled over the fault sites of each case: OSError ENOSPC, KeyboardInterrupt, RuntimeError, a custom Exception, SystemExit, MemoryError, GeneratorExit, a custom BaseException) x compression.  Each case is first saved "
    "un-faulted under counting wrappers to learn the number n of fault sites (calls of _serialize_value, _write_ndarray, _write_bytes, "
    "ZipFile.write), then re-saved from a fresh copy of the pre-state with the exception injected at EVERY site k = 1..n (exhaustive in "
    "k for each case).  Siblings with confusable names (t.tmp, t.zip.tmp, .t.zip, t vs t.zip, a sibling directory tree) surround the "
    "target and are hashed before and after.  One evaluation = one (case, k) save.  NON-TRIVIAL = 1 < k < n on a graph with >= 3 "
    "attributes including a nested object; distinct = SHA-1 of the canonical JSON of (case, k).",
    [
        "faults are Python exceptions raised at the named call sites, before or after the wrapped operation ran; a process kill between two "
        "OS-level writes inside zarr/zipfile is not simulated",
        "'loads to a complete object' uses the C01 structural-equality oracle against the new graph and the earlier saved graph",
        "temp-file leaks are judged inside a per-process private TMPDIR",
    ],
    workers=(4, 16),
    technique="fault injection with exhaustive fault-site enumeration per generated case (Hypothesis-generated graphs, pre-states and configurations; filesystem/load invariants as oracle)",
    text="For every generated case every injected-exception position among the serializer's write operations is enumerated exhaustively; the "
    "space of cases (graphs x configurations x pre-states) is sampled.",
    note="Exceptions at Python call sites only; not a crash (kill -9) model.",
    design="DESIGN.md §3 C08",
)

from vq.meta import _m

_m(
    "C07",
    "exploration",
    "Four strata.  filter: ALL even sizes 4..256 x {ramp, shepp-logan, cosine, hamming, hann, None} are enumerated "
    "(762 cases, every run).  radon (Hypothesis): square size N in 4..48 (parity drawn explicitly, small sizes favoured), 1..12 "
    "angles in [0,180] (0/90/180/45/135/1/89/91/179 mixed with arbitrary floats, repeats allowed) held in a float32, float64 or "
    "(whole degrees only) int64/int32/uint8 tensor, batch of 1..3 float32 images (Gaussian mixtures | sums of rectangles | white noise | 1-3 single-pixel impulses "
    "anywhere in the disc or on its rim / next to the centre; amplitude 1e-3, 1 or 1e3; all multiplied by the scikit-image "
    "disc mask), plus a partner image and two coefficients for linearity.  iradon (Hypothesis): same N/angles/batch, filter in "
    "the six names, circle True (4 in 5) or False, sinogram tensor dtype drawn independently of the theta dtype: float32 (1 in 2), "
    "float64, or integer detector counts int64/int32/int16/uint8 (pattern x16, rounded, |v| < 2^15); sinograms (white noise | scikit-image radon of a generated image | "
    "1-3 impulses incl. first/last/centre detector bins | all ones, the SIRT normalisation input), plus a partner sinogram "
    "and coefficients.  large problems (label large_problem): a fixed grid of (kind, N, angles A, batch B, filter, circle) rows - "
    "quick 11 rows: iradon N 64..181, A 60..360, B 1..3 with B*out^2*A placed just below and just above 2^20, 2^22 and 2^24, every "
    "filter name once, one circle=False row; radon N 96/128/181, A 120..360, B 1/3; thorough adds N up to 256, A up to 512, "
    "products up to 2^25.5 (17 rows) - every row is judged 2x (quick) / 6x per worker (thorough) with Hypothesis-drawn contents "
    "(noise | blocks | smooth images, noise | radon-of-image sinograms, evenly spaced angles with a drawn offset or a seeded random "
    "angle set, float32/float64 theta); same oracle, batched == per-image and theta=0 clauses, no linearity.  "
    "A radon/iradon case is In addition every image size 4..48 x every filter name is judged once per run (circle mode, noise + impulse sinograms: the size x filter grid).  NON-TRIVIAL when N is even, or some angle is not in {0,90,180}, or some "
    "image/sinogram is not (the radon of) a smooth image; a filter case is non-trivial when the filter is not None.  "
    "distinct = SHA-1 of the canonical JSON of the whole case.",
    [
        "references are scikit-image 0.26 radon(circle=True), iradon(interpolation='linear', preserve_range=True) and "
        "radon_transform._get_fourier_filter, run in float64 on exactly the float32 values given to the torch code and "
        "transposed to the torch (angles, pixels) layout",
        "images are zero outside the disc (scikit-image's documented precondition for circle=True); dtypes are those the pinned tree "
        "accepts and handles correctly (probed): images float32 only (grid_sample rejects every other dtype), sinograms "
        "float32/float64/int64/int32/int16/uint8, theta tensors float32/float64/int64/int32/uint8 (float16 theta is accepted but "
        "computes in half precision: excluded; lists/ndarrays as theta raise: excluded); integer theta tensors hold whole degrees; "
        "the linear combination of integer sinograms is passed as float32; theta is always passed explicitly (the theta=None defaults "
        "are outside the quantified angle sets); output_size is left at its default; square images only; sizes N <= 48 are explored "
        "densely, 64 <= N <= 256 with up to 512 angles only on the large-problem grid; nothing is claimed beyond N = 256 or "
        "B*out^2*A > 2^25.5",
        "tolerance = K * scale with scale an error model of the float32 pipeline: radon eps32*N^2*max|image| (N bilinear "
        "samples per bin, each displaced by the float32 rounding of a coordinate <= N), K=8; iradon eps32*(N+8)*max|sinogram| "
        "(float32 FFT of <= 256 points + interpolation at a float32 detector coordinate), K=32; filter eps32 absolute (values "
        "<= 1), K=32; batched vs per-image K=2 on the same scale (measured bitwise equal); linearity 2K with |a|max|x|+|b|max|y| "
        "as magnitude.  Largest error/scale measured on the corrected tree (8 x 30 000 targeted cases): radon 0.65, theta=0 "
        "0.40, iradon 1.95, filter 2.23, linearity 0.39 -> >= 12x head-room; on the large problems (408 cases) radon 0.17, "
        "theta=0 0.10, iradon 0.06 with the same K; each run's largest ratios are in coverage.extra (suffix _large)",
        "reconstruction pixels whose detector coordinate comes within 1e-3 of an end of the reference's detector for some "
        "angle are not compared (np.interp jumps to 0 there, float32 and float64 may round to different sides); they are "
        "counted in classes['iradon:pixels_at_detector_end_not_compared'] and occur only for circle=False and for N=4",
    ],
    workers=(1, 16),
    technique="property-based testing (Hypothesis, targeted on error/tolerance): differential against scikit-image "
    "radon/iradon/_get_fourier_filter in float64 + metamorphic relations (batch == per-image, linearity, theta=0 == column "
    "sums); the finite filter sub-domain is enumerated",
    text="Generated-input search: every case runs the torch function on a batch, on each element alone, on a linear combination "
    "and (radon) at theta=0, and judges all outputs against scikit-image evaluated in float64 on the same inputs.  Exploration "
    "only: no absence claim beyond the enumerated filter table.",
    note="Trusts scikit-image 0.26 as the meaning of 'the functions they port'.  Non-square images, float64 images, "
    "output_size != default and the theta=None defaults (iradon_torch's linspace includes 180, scikit-image's does not) are "
    "not explored.",
    design="DESIGN.md §3 C07",
)

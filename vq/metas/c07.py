from vq.meta import _m

_m(
    "C07",
    "exploration",
    "Hypothesis draws three kinds of case.  radon: square size N in 4..48 (parity drawn explicitly, small sizes favoured), "
    "1..12 angles in [0,180] (0/90/180/45/135/1/89/91/179 mixed with arbitrary floats, repeats allowed) held in a float32 or "
    "float64 tensor, batch of 1..3 float32 images (Gaussian mixtures | sums of rectangles | white noise | 1-3 single-pixel "
    "impulses placed anywhere in the disc or on its rim/next to the centre; amplitude 1e-3/1/1e3; all multiplied by the "
    "scikit-image disc mask), plus a partner image and two coefficients for linearity.  iradon: same N/angles/batch, filter in "
    "ramp/shepp-logan/cosine/hamming/hann/None, circle True (4 in 5) or False, float32 sinograms (white noise | scikit-image "
    "radon of a generated image | 1-3 impulses incl. first/last/centre detector bins | all ones), plus a partner sinogram and "
    "coefficients.  filter: even size 4..256 (powers of two favoured) x filter name.  A radon/iradon case is NON-TRIVIAL when N "
    "is even, or some angle is not in {0,90,180}, or some image/sinogram is not (the radon of) a smooth image; a filter case is "
    "non-trivial when the filter is not None.  distinct = SHA-1 of the canonical JSON of the whole case.",
    [
        "references are scikit-image 0.26 radon(circle=True), iradon(interpolation='linear', preserve_range=True) and "
        "radon_transform._get_fourier_filter, run in float64 on exactly the float32 values given to the torch code and "
        "transposed to the torch (angles, pixels) layout",
        "images are zero outside the disc (scikit-image's documented precondition for circle=True); images and sinograms are "
        "float32 (the only dtype the grid_sample pipeline accepts); theta is always passed explicitly (the differing theta=None "
        "defaults are outside the quantified angle sets); output_size is left at its default",
        "tolerances, K >= 10x the largest error/scale seen on the corrected tree: radon 4*eps32*N^2*max|image| (N bilinear "
        "samples per bin, each displaced by the float32 rounding of a coordinate <= N); iradon 8*eps32*(N+8)*max|sinogram| "
        "(float32 FFT of <= 256 points + interpolation at a float32 detector coordinate); filter 32*eps32 absolute (values "
        "<= 1); batched vs per-image 0.5x the respective scale; linearity 2x the differential tolerance with "
        "|a|max|x|+|b|max|y| as magnitude",
        "reconstruction pixels whose detector coordinate comes within 1e-3 of an end of the reference's detector for some "
        "angle are not compared (np.interp jumps to 0 there, float32 and float64 may round to different sides); they are "
        "counted in classes['iradon:pixels_at_detector_end_not_compared'] and occur only for circle=False and N=4",
    ],
    workers=(1, 16),
    technique="property-based testing (Hypothesis, targeted on error/tolerance): differential against scikit-image "
    "radon/iradon/_get_fourier_filter in float64 + metamorphic relations (batch == per-image, linearity, theta=0 == column sums)",
    text="Generated-input search: every case runs the torch function on a batch, on each element alone, on a linear combination "
    "and at theta=0, and judges all outputs against scikit-image evaluated in float64 on the same inputs.  Exploration only: "
    "no absence claim.",
    note="Trusts scikit-image 0.26 as the meaning of 'the functions they port'; non-square images, float64 images, "
    "output_size != default and the theta=None defaults are not explored.",
    design="DESIGN.md §3 C07",
)

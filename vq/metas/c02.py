from vq.meta import _m

_m(
    "C02",
    "exploration",
    "placeholder",
    ["placeholder"],
    workers=(4, 16),
    technique="property-based testing (Hypothesis) with an independent float64 numpy multislice / mixed-state simulator as oracle",
    text="placeholder",
    note="placeholder",
    design="DESIGN.md §3 C02",
)

from vq.meta import _m

_m(
    "C02",
    "exploration",
    "Hypothesis draws one tiny 4D-STEM experiment per case: detector ROI (R, C) in [6..16]^2 (odd and even sizes, "
    "non-square in ~5/6 of the cases), raster grid (g0, g1) in [2..6]^2, object pixel size 0.15-0.8 A per axis (reciprocal "
    "sampling = 1/(ROI x pixel size)); each scan axis is generic (1/2: step 1.05-6 object pixels with 4 decimals, i.e. "
    "fractional positions, steps that would put a scan point within 0.01 px of a half-integer are nudged), half (1/3: step "
    "1.5/2.5/3.5/4.5/5.5 px with pixel size 0.25 or 0.5 A so that the library's float32 positions are EXACTLY k + 0.5, with "
    "even and odd k alternating along the axis) or int (1/6: integer step, exactly integer positions); energy 60/80/200/300 keV, slices S in "
    "1..4 with S-1 independent thicknesses 2-40 A, probe modes M in 1..3 installed in a drawn order (any permutation, "
    "not only strongest-first), object type complex | pure_phase | potential, "
    "requested obj_padding_px 0..6 per axis, loss l1|l2 x amplitude|intensity, batch size 1..J (at most 12 batches, ragged "
    "partitions included), descan handling A (com_fit_function='no_shift', no dataset optimiser) | B (dataset optimiser + "
    "constraint descan_shifts_constant, com_fit constant or plane).  One case in four is of kind reconstruct_history: after "
    "the direct evaluation a fresh Ptychography object at the ground truth goes through 2-3 public reconstruct() calls (1-2 "
    "iterations each, at most 4 batches, independently drawn loss types, reset=False continuation (2/3) or reset=True (1/3)) "
    "with nothing to optimise (no optimiser in mode A, dataset optimiser with lr=0 in mode B; truth probe also set as "
    "initial_probe so that reset returns to it) and every iter_losses entry is judged; half of these cases use a validation split (preprocess(val_ratio in "
    "{0.2, 0.25, 0.34, 0.5}, val_mode grid | random)) and every val_iter_losses entry is judged against the same bound; the "
    "case then runs an interference step - an unrelated tiny reconstruction "
    "(3x3 scan, 6x6 ROI, S 1..3, random data, adam on a drawn subset of object/probe/dataset) with a drawn set of "
    "NON-default constraints (object: identical_slices (3/4), positivity off, fix_potential_baseline, apply_fov_mask, "
    "gaussian_sigma, tv weights, q_lowpass; probe: orthogonalize_probe off, center_probe, tv_weight; dataset: "
    "descan_shifts_constant, center_scan_positions, descan_tv_weight) given through reconstruct(reset=True, constraints=...), "
    "the models' public constraints setters, or both, optionally followed by a second reset - and builds the SAME problem "
    "from scratch once more, whose truth loss is judged again.  One case in three (any kind) carries a live-edit history: the Ptychography object is built and "
    "preprocessed with a stale beam energy (another value of 60/80/120/200/300 keV) and/or slice thicknesses scaled by 0.5 | 2, "
    "then corrected on the live object through public setters (probe_model.probe_params = {energy} or ptycho.probe_model = "
    "<new model>; ptycho.slice_thicknesses = [...]), optionally followed by a second preprocess(), before the truth is "
    "installed and evaluated.  A separate large-scan stratum (2 cases per quick worker; "
    "thorough 12 + 6 per worker) has J = g0 x g1 in 1001..1087 (thorough also 2001..2087) scan points, g0 in 21..48 or "
    "transposed, ROI 6..8 px, S = M = 1, scan steps multiples of 1/8 px in [1.125, 2] with pixel size 0.25/0.5 A (float32-exact "
    "positions, exact ties included), padding 2..6, descan A or B_constant, batches J | J/2 | J/3; only the truth loss is "
    "evaluated there.  The library itself (public preprocess on an all-ones "
    "dataset of that geometry) supplies the object shape and the pixel position of the first scan point; the harness then "
    "builds a periodic unit-amplitude object of that shape (random phases of range 0.8-3.1 rad, white or 3x3-smoothed; "
    "potentials V in [0.01, strength]), M probe modes (soft aperture of radius 1.6..min(R,C)/2-0.5 detector pixels, defocus "
    "and astigmatism phases up to 6 / 2 rad at the aperture edge, higher modes with extra tilt/defocus/amplitude structure, "
    "Gram-Schmidt orthogonalised in float64, relative weights 1 : 0.15-0.6 : 0.02-0.12, total intensity 1e2-1e7 per "
    "pattern), simulates the data on the raster first_position + (i, j) * step with vq/refs/c02_ptycho_sim.py, and feeds "
    "float32 intensities to Dataset4dstem -> PtychographyDatasetRaster.preprocess -> Ptychography.from_models/preprocess "
    "(ObjectPixelated.from_array(truth), probe through the public probe setter).  Perturbations: object phase noise sigma "
    "0.15-0.6 rad (|noise| added to potentials), probe extra defocus +-1.5-4 rad at the aperture edge.  A case is "
    "NON-TRIVIAL when S >= 2 or M >= 2 or the ROI is non-square or (some scan position is fractional and the effective "
    "padding is > 0 on both axes) or the case is a reconstruct_history or has more than 1000 scan points; cases skipped because a scan point lies within 2e-3 "
    "px of, but not exactly on, a half-integer or because they have the shape of an open known finding are recorded as "
    "trivial.  Tracked classes (coverage.classes): tie:half_pixel_position_even/odd_lower_neighbour, "
    "positions:exactly_integer_on_an_axis, modes:installed_out_of_order / installed_strongest_first, "
    "live_edit:energy_via_probe_params|swap_probe_model_multislice|single_slice, live_edit:slice_thicknesses, "
    "live_edit:followed_by_second_preprocess, history:validation_split_grid|random, "
    "history:validation_split_with_intensity_loss, validation_losses_judged, kind:reconstruct_history, kind:large_scan, scan_points:1001+ / 2001+, interference_ran, history:loss_family_changes_on_continuation / _after_reset, tie_rule_matching_library:*, "
    "patch_wraps_around_object_edge, roi:odd/even/square/nonsquare, S*, M*, type:*, loss:*, descan:*, batches:*.  distinct = SHA-1 of the canonical JSON "
    "of the whole case (shapes, S, M, type, loss, batch, descan, seed and every drawn parameter).",
    [
        "oracle: numpy float64 simulator written from the physics, sharing no code with quantem: per-position loop, periodic "
        "object window round(p) + DFT-ordered offsets, Fourier-shift of the origin-centred probe by p - round(p), "
        "transmission exp(iV) for potentials, Fresnel propagator exp(-i pi lambda dz k^2) with the relativistic wavelength, "
        "unitary DFT, incoherent mode sum, zero frequency at detector pixel (R//2, C//2)",
        "the scan origin in pixels (position of the first scan point = padding) is taken from the library, because it is a "
        "gauge (a common translation of object and scan); the raster relative to it (row-major order, step / pixel size) is "
        "computed by the harness; com rotation is forced to 0 and transpose to False (rotated scans are outside the claim)",
        "descan readings asserted: A and B exactly as in DESIGN.md; com_fit_function='constant' without the "
        "descan_shifts_constant constraint is not asserted (the fitted-origin residual makes the truth a non-zero of the loss "
        "by construction of the preprocessing)",
        "truth tolerance on the full-scan-scaled loss, J = number of patterns, N = detector pixels, I = mean pattern "
        "intensity: l2_amplitude J*(4e-11 + 2*N*1e-9/I); l1_amplitude J*(2e-5*sqrt(N/I) + 2*N*sqrt(1e-9)/I); l2_intensity "
        "J*4e-12*I*(peak/mean pixel ratio); l1_intensity J*1e-4.  The N*1e-9 and N*sqrt(1e-9) terms are exact bounds (x2) for "
        "the documented sqrt(I + 1e-9) regulariser; the others are float32 round-off scalings, multiplied by f = 1 + phi/10 (l1) or f^2 (l2) "
        "where phi is the largest Fresnel phase (rad) summed over the slice gaps, because the library evaluates the propagator "
        "phase in float32 (relative amplitude error ~2*eps32*phi; phi reaches 160 rad in the generated domain); >= 20x "
        "head-room over the largest value seen in ~6000 clean-tree cases (measured/tolerance: l2_amplitude 0.008, "
        "l2_intensity 0.011, l1_amplitude 0.05, l1_intensity 0.044); every batch of the drawn partition must meet the same "
        "bound",
        "perturbed points: the library loss must equal the loss *definition* (sum over the batch and detector of "
        "|sqrt(pred+1e-9) - sqrt(meas)|^p or |pred - meas|^p, divided by the batch fraction B/J and by the mean pattern "
        "intensity, as documented in error_estimate) evaluated on the reference simulator's prediction to 2e-4*f relative "
        "(clean tree <= 4.3e-6), must exceed 100 x the truth loss and truth loss + 100 x tolerance; asserted only when the "
        "reference loss exceeds 1000 x tolerance (otherwise the drawn perturbation is invisible in exact arithmetic and the "
        "sub-check is counted as 'not visible', ~5 % of the cases); batch-fraction weighted sum of batch losses == full-scan "
        "loss to 1e-4 relative (clean tree 3e-7)",
        "stationarity (l2 losses): autograd gradient norm w.r.t. the object parameters at the truth <= 1e-3 x the norm at the "
        "perturbed object (x f), same for the probe parameters and the perturbed probe (clean tree <= 3.5e-5); l1 losses are not "
        "differentiable at a zero residual and are not asserted",
        "mean pattern intensities are >= 100 so that the 1e-9 regulariser stays far below a pixel's amplitude; absorbing "
        "objects, tilted probes, learned descan, rotated/transposed scans, detector masks, the poisson loss and "
        "padded_diffraction_intensities_shape are outside the claim",
        "a scan point exactly half-way between two object pixels has two nearest pixels; either may be the window origin as "
        "long as the sub-pixel probe shift is taken relative to the same pixel, but with a finite periodic probe window the two "
        "choices differ at the window edge (truth loss 0.02-0.04 under the 'wrong' consistent rule for the generated probes), "
        "so the reference simulates the data under each consistent rule (half-to-even, half-up, half-down) in turn and the "
        "truth loss must vanish for at least one; the clean tree matches half-to-even in every case, a tree patched to use "
        "half-up in both places passes too; exact ties are only asserted when the library's own float32 position equals k + 0.5 "
        "exactly (power-of-two pixel sizes), points within 2e-3 px of a tie but not on it are not judged",
        "reconstruct_history: iter_losses entries are the mean over batches of the full-scan-scaled batch losses plus soft "
        "constraint losses (all weights 0 by default), so each entry owes the same truth bound as a direct evaluation provided "
        "the models did not move; the harness installs no object/probe optimiser, uses lr = 0 for the dataset optimiser that "
        "descan mode B needs, and verifies afterwards that object and probe parameters are unchanged (harness error otherwise); "
        "clean tree: entries <= 0.02 of the bound",
        "interference: a problem built from scratch owes the same truth bound whatever ran earlier in the process (instances "
        "must not share mutable state); the interfering reconstruction itself is outside the claim - an exception inside it is "
        "counted (interference_raised:*; none on the clean tree), not reported; clean tree: truth loss after interference <= "
        "0.006 of the bound",
        "live edits: the claim is read as 'the forward pipeline of an object whose public parameters are (E, thicknesses) "
        "reproduces data simulated with (E, thicknesses)', whatever values those parameters had earlier; the corrected values "
        "are in place before configure()/reconstruct() recompute the propagators exactly as reconstruct() does; this is at the "
        "edge of the statement (parameter history rather than parameter value) and is stated here as an assumption",
        "validation losses are data-fidelity losses of held-out scan positions, scaled like batch losses to the full scan, so "
        "'every data-fidelity loss is zero' is read to include them; clean tree <= 0.007 of the bound",
        "large scans: same truth bound (it scales with J); each costs 0.5-1 s (the reference loops over positions)",
    ],
    workers=(4, 16),
    technique="property-based testing (Hypothesis) with a differential oracle: an independent float64 numpy multislice / "
    "mixed-state ptychography simulator written from the physics; zero-loss, loss-definition, batch-scaling and autograd "
    "stationarity assertions on the public forward chain, and the same truth bound on the iteration losses reported by "
    "sequences of public reconstruct() calls",
    text="Generated-input search: every case simulates a small experiment with the reference simulator, lets the library "
    "preprocess the data, installs the ground truth and evaluates the statements of Ptychography.reconstruct's inner loop. "
    "Judged: loss(truth) <= tolerance for the whole scan and every batch; loss at a perturbed object/probe == its "
    "definition on the reference prediction and >> loss(truth); weighted batch losses == full-scan loss; autograd gradient at "
    "the truth <= 1e-3 of the gradient at the perturbed point.  The worst observed ratios are reported under "
    "coverage.extra.  Exploration only: no absence claim.",
    note="The reference simulator embodies the same paraxial, periodic-window, band-limited model as the library (that is the "
    "property); it cannot say whether that model is an adequate description of an experiment.  The absolute scan origin, "
    "rotated/transposed scans and the clip_scan_positions=False path (crashes on the examined tree, outside the claim) are "
    "not exercised.",
    design="DESIGN.md §3 C02",
)

from vq.meta import _m

_m(
    "C18",
    "exploration",
    "Hypothesis draws three kinds of case.  (com) scan (a,b) in [2..6]^2 x detector (H,W) in [3..12]^2 (non-square in "
    "7 of 8 draws) x strictly positive pattern family (uniform noise | off-centre Gaussian blob | Poisson counts in "
    "uint16/int32/float | one bright pixel on a uniform background whose integer position is a plane/constant over the "
    "scan, which makes the exact centre of mass a plane/constant) x dtype x GLOBAL INTENSITY SCALE 10^u, u in -9..9 "
    "(applied in float64 before the cast; all values stay normal float32; also on the data versions of the histories "
    "and the shift cases; 2^k, k in -30..30, exact, on the large datasets) x 1-3 batch sizes in "
    "1..a*b (plus the default) x optional detector mask (binary keep-fraction {0.9,0.5,0.1,0} or soft multiples of 1/8, "
    "always >= 1 live pixel) x fit in {plane, constant}; both models and both code paths are run on every case.  (fit) "
    "same geometry x method {plane, constant} x real plane coefficients built so every origin stays inside the detector "
    "(a quarter of the plane fits get an exactly flat map: a constant is also a plane) "
    "x fit_origin data dtype {float64, float32} x fit_origin mask {default None, all-True as the caller passes} x "
    "probe_positions for fit_origin_background {None (inferred) | the index grid spelled out | an invertible affine image "
    "of it: scan step 1..4 per axis, any rotation, offset within +-20} x form {float32 tensor, float64 tensor, ndarray, "
    "nested list} x layout {(N,2), (a,b,2)} - a plane/constant over the scan indices is the same plane/constant over "
    "such positions, so the expected fitted origins are unchanged.  "
    "(shift) same geometry x uniform/blob patterns x integer origins in [0,H-1]x[0,W-1] per pattern (or one for all) x "
    "batch size None|1..a*b x mode {bilinear, nearest, bicubic} x target coordinate (the corner, or in a third of the "
    "draws another integer pixel: expected = the circular roll that moves the integer origin onto that pixel); in addition EVERY detector side length 2..128 (thorough: "
    "2..600) x every mode is enumerated (not sampled): that side on a drawn axis, the other side 2..6, scan 1x2 or 2x2, "
    "origins over the full range with the first pattern's origin along the long axis in {side-1, 1, side//2}.  (ohist) a "
    "HISTORY on one CenterOfMassOriginModel over 2-3 data versions of one geometry: [drawn ops] measure [ops] tensor-setter "
    "[ops] measure [drawn ops], ops drawn from measure(batch) / tensor setter (torch or numpy) / origin_measured setter "
    "(exact plane or constant) / origin_fitted setter (integer origins) / shifted_tensor setter / device setter / fit / "
    "shift(batch, mode, target coordinate corner|other integer pixel) / forward(batch, fit method, shift on|off, target "
    "coordinate, mode; orientation estimate off); every measurement is judged against the oracle of the data the model holds at that moment, every "
    "fit of exactly planar measured origins against that surface, every integer-origin shift against the roll of the "
    "current data.  (dhist) a HISTORY on one PtychographyDatasetRaster: _set_intensities_com (stored intensities_4d or an "
    "explicit array, vectorised or looped, drawn mask, fit) and preprocess() (orientation forced in 3 of 4) interleaved "
    "with the intensities_4d / com_measured / com_fit setters, always ending with a measurement of the stored data.  "
    "(bigcom) LARGE datasets, enumerated: for every power of two 2^20..2^24 one dataset whose number of values a*b*H*W is "
    "the closest reachable below it and one the closest above it (a prime in 5..41 so no split of the scan rows into "
    "equal groups is exact, H, W in 32..128 non-square, b derived; float32 noise plus one bright pixel per pattern, "
    "optional binary mask, drawn non-dividing batch size); judged like com (both models, both paths, each other).  "
    "Hypothesis draws the 10 descriptions, its all-minimal first example is dropped, no shrinking.  The ohist "
    "histories set fitted origins per pattern / one for all / ALL AT THE TARGET corner (identity shift), run series of "
    "set-origins+shift pairs on the same instance, and always end with a measurement.  "
    "A case is NON-TRIVIAL when: com - H != W and the "
    "oracle centre of mass is off the geometric centre and differs between row and column by > 0.05 px and some batch "
    "size 1 < bs < a*b does not divide a*b; fit - the row and column surfaces differ and (plane) some slope is non-zero "
    "with the two row-surface slopes different, (constant) the two constants differ; shift - H != W and some origin "
    "(r,c) has r != c and is not (0,0), or the side was enumerated and some origin is not (0,0); ohist - H != W and a "
    "measurement follows a tensor-setter call that installed a different version after an earlier measurement; bigcom - H != W and >= 2^19 values; dhist - "
    "H != W, >= 2 measurements and a replacement of the stored intensities between steps.  distinct = SHA-1 of the canonical JSON of the whole case.",
    [
        "oracle: float64 numpy weighted means of the array handed to quantem (marginal sums, then weights); quantem "
        "works in float32, tolerance 1e-3 px (measured clean-tree max 2.2e-6 px; worst-case float32 summation bound "
        "for <= 144 pixels and coordinates <= 11 is ~1e-4 px)",
        "large datasets (bigcom): tolerance 1e-3 + 2e-6 * longest detector side px (results are stored in float32: "
        "measured 1.5e-7 * side over detectors up to 256 px); the oracle accumulates the stored float32 values in "
        "float64 (np.sum(dtype=float64)) without a float64 copy",
        "intensity scale: tolerances are in pixels / relative to the pattern maximum and do not depend on the scale "
        "(the centre of mass and the roll are scale invariant; measured clean-tree max 7.3e-6 px over 12 000 com cases "
        "with scales 1e-9..1e9)",
        "a shift to a target pixel other than the corner is judged by the same roll law (origin moves onto the target; "
        "integer origins and integer targets only, so the law is exact): this is the documented origin_coordinate "
        "argument, a generalisation of the statement's corner case by the same mechanism",
        "fits: 1e-3 px for the float32 PCA plane / mean and for float32 data through fit_origin (measured max 1.1e-5 in random search, 2.1e-5 on the steepest admissible planes), "
        "1e-6 px for float64 data through fit_origin (measured max 2.5e-9); surfaces are restricted to origins inside "
        "the detector (an origin is a detector coordinate), so plane slopes are bounded by (L-1)/(n-1)",
        "explicit probe_positions are limited to scan steps >= 1 unit and offsets <= 20: the float32 PCA loses accuracy "
        "as the in-plane spread shrinks or the offset grows (measured worst 7e-5 px on the steepest planes in this "
        "domain, 2.2e-5 in 45 000 random cases; 5e-4 px at steps 0.25..8 / offsets 100); only correctly shaped "
        "positions (num_patterns rows after view(-1, 2)) are passed",
        "roll: (2e-5 + 1e-6 * longest detector side) of the maximum intensity: grid_sample at integer positions is "
        "exact only up to float32 rounding of the normalised grid, ~6e-8 px per pixel of side length (measured max "
        "1.2e-6 for sides <= 12 and 5.4e-8 * side for sides up to 600; a missed wrap costs >= 4e-2)",
        "histories: the origin model's `dataset` setter is NOT part of the histories - it replaces the Dataset but not "
        "the tensor calculate_origin reads, so which of the two is 'the data' is ambiguous (observed on the fixed tree, "
        "not asserted); data versions keep the shape the model was built with (num_dps is fixed at construction)",
        "preprocess() failures raised outside _set_intensities_com / fit_origin (e.g. the negative-stride ValueError in "
        "_set_initial_scan_positions_px when the rotation estimate selects com_transpose=True) are counted in classes "
        "(dhist_preprocess_failed_outside_com) and end that history without a verdict: not this property",
        "every call gets a fresh copy of the intensities: the looped path multiplies the mask into its argument in "
        "place (not covered by the statement, not asserted)",
        "fit_origin is only exercised with mask=None (its default) and the all-True mask its caller passes; partial "
        "masks only arise from zero-sum patterns, which are outside 'positive intensities'",
        "fit_function values none/no_shift/parabola/bezier_two are outside the statement (plane, constant)",
        "while known_findings.json lists 'fit-origin-exact-fit-raises' as an open finding, the curve_fit RuntimeError "
        "'Optimal parameters not found: gtol=...' from fit_origin is counted under excluded_by_construction instead of "
        "being reported (the inputs that trigger it are a numerical coincidence and cannot be avoided by construction); "
        "with no such entry it is a violation",
    ],
    workers=(1, 16),
    technique="property-based testing (Hypothesis): generated 4-D datasets, masks, batch sizes, surfaces and integer "
    "origins judged against a float64 reference model; differential between the two models and the two code paths",
    text="Generated-input search (single cases, per-instance histories and an enumeration of detector side lengths): measured origins of both models and both code paths are compared with a float64 "
    "weighted-mean oracle for several batch sizes; exact plane/constant origins must be returned by both fitters; "
    "integer origins must shift to exact circular rolls.  Exploration only: no absence claim.",
    note="CPU only; trusts numpy float64 arithmetic and np.roll for the reference.",
    design="DESIGN.md §3 C18",
)

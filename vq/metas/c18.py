from vq.meta import _m

_m(
    "C18",
    "exploration",
    "Hypothesis draws three kinds of case.  (com) scan (a,b) in [2..6]^2 x detector (H,W) in [3..12]^2 (non-square in "
    "7 of 8 draws) x strictly positive pattern family (uniform noise | off-centre Gaussian blob | Poisson counts in "
    "uint16/int32/float | one bright pixel on a uniform background whose integer position is a plane/constant over the "
    "scan, which makes the exact centre of mass a plane/constant) x dtype x scale {1e-3,1,1e4} x 1-3 batch sizes in "
    "1..a*b (plus the default) x optional detector mask (binary keep-fraction {0.9,0.5,0.1,0} or soft multiples of 1/8, "
    "always >= 1 live pixel) x fit in {plane, constant}; both models and both code paths are run on every case.  (fit) "
    "same geometry x method {plane, constant} x real plane coefficients built so every origin stays inside the detector "
    "(a quarter of the plane fits get an exactly flat map: a constant is also a plane) "
    "x fit_origin data dtype {float64, float32} x fit_origin mask {default None, all-True as the caller passes}.  "
    "(shift) same geometry x uniform/blob patterns x integer origins in [0,H-1]x[0,W-1] per pattern (or one for all) x "
    "batch size None|1..a*b x mode {bilinear, nearest, bicubic}.  A case is NON-TRIVIAL when: com - H != W and the "
    "oracle centre of mass is off the geometric centre and differs between row and column by > 0.05 px and some batch "
    "size 1 < bs < a*b does not divide a*b; fit - the row and column surfaces differ and (plane) some slope is non-zero "
    "with the two row-surface slopes different, (constant) the two constants differ; shift - H != W and some origin "
    "(r,c) has r != c and is not (0,0).  distinct = SHA-1 of the canonical JSON of the whole case.",
    [
        "oracle: float64 numpy weighted means of the array handed to quantem (marginal sums, then weights); quantem "
        "works in float32, tolerance 1e-3 px (measured clean-tree max 2.2e-6 px; worst-case float32 summation bound "
        "for <= 144 pixels and coordinates <= 11 is ~1e-4 px)",
        "fits: 1e-3 px for the float32 PCA plane / mean and for float32 data through fit_origin (measured max 1.1e-5 in random search, 2.1e-5 on the steepest admissible planes), "
        "1e-6 px for float64 data through fit_origin (measured max 2.5e-9); surfaces are restricted to origins inside "
        "the detector (an origin is a detector coordinate), so plane slopes are bounded by (L-1)/(n-1)",
        "roll: 2e-5 of the maximum intensity (grid_sample at integer positions is exact only up to float32 rounding "
        "of the normalised grid; measured max 1.2e-6 with bicubic, 2.4e-7 bilinear)",
        "every call gets a fresh copy of the intensities: the looped path multiplies the mask into its argument in "
        "place (not covered by the statement, not asserted)",
        "fit_origin is only exercised with mask=None (its default) and the all-True mask its caller passes; partial "
        "masks only arise from zero-sum patterns, which are outside 'positive intensities'",
        "fit_function values none/no_shift/parabola/bezier_two are outside the statement (plane, constant)",
        "while known_findings.json lists 'fit-origin-exact-fit-raises' as an open finding, the curve_fit RuntimeError "
        "'Optimal parameters not found: gtol=...' from fit_origin is counted under excluded_by_construction instead of "
        "being reported (the inputs that trigger it are a numerical coincidence and cannot be avoided by construction); "
        "with no such entry it is a violation",
    ],
    workers=(1, 16),
    technique="property-based testing (Hypothesis): generated 4-D datasets, masks, batch sizes, surfaces and integer "
    "origins judged against a float64 reference model; differential between the two models and the two code paths",
    text="Generated-input search: measured origins of both models and both code paths are compared with a float64 "
    "weighted-mean oracle for several batch sizes; exact plane/constant origins must be returned by both fitters; "
    "integer origins must shift to exact circular rolls.  Exploration only: no absence claim.",
    note="CPU only; trusts numpy float64 arithmetic and np.roll for the reference.",
    design="DESIGN.md §3 C18",
)

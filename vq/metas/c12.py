from vq.meta import _m

_m(
    "C12",
    "exploration",
    "Hypothesis draws six kinds of cases.  (surface) a polar coefficient dictionary over a random subset (1..14) of the 14 "
    "(n, m) terms of orders 1..5 -- magnitudes log-uniform 1e-3..1e9 A ('raw') or balanced so that every order contributes "
    "comparably at 30 mrad, random sign, 1 in 12 explicitly 0, angles in (-pi, pi] or left out (1 in 8) or given without "
    "their magnitude (1 in 10) -- x wavelength 0.008..0.09 A x coefficients passed as python floats or 0-d float64 tensors x "
    "optional Cartesian delta (1..8 labels) for merge_aberration_coefficients x 72 float64 evaluation points (63 generic, "
    "log-uniform radius 1e-5..0.2 rad, uniform azimuth; 9 special: four half-axes, diagonals, |alpha| ~ 1e-9 and 1e-12) laid "
    "out 1-D or 2-D, plus alpha = 0 exactly.  (cart) a Cartesian dictionary over 1..25 of the 25 labels in random order.  "
    "(alias) a dictionary of 1..9 keys, one per canonical symbol, each symbol replaced by its alias (defocus, astigmatism, "
    "astigmatism_angle, coma, coma_angle, Cs, C5) 3 times in 4, float or int values, optionally one unknown key, sent to one "
    "of: validate_aberration_coefficients, standardize_aberration_coefs, ProbePixelated / ProbeParametric.from_params (keys "
    "flat, nested under 'aberration_coefs' or mixed; 'defocus': None slot), probe_params re-assignment, check_probe_params, "
    "DirectPtychography(aberration_coefs=), HyperparameterState.current_aberrations(override), HyperparameterState("
    "optimized_keys=), fit_hyperparameters_cross_correlation(aberration_coefs=), grid_search_hyperparameters and "
    "optimize_hyperparameters with OptimizationParameter ranges.  (alias_history) ONE params dictionary object (C10 always "
    "present, 3 in 4 as 'defocus'; keys flat, nested under 'aberration_coefs', or mixed) used 2..4 times by steps drawn from: "
    "ProbePixelated.from_params / from_array, ProbeParametric.from_params, ProbeDIP.from_model, probe_params assignment on an "
    "existing model, the coefficient-only sites (validate, standardize, DirectPtychography init / override) on its nested "
    "dictionary, and re-feeding first.probe_params into ProbeParametric.from_params / ProbePixelated.from_array / "
    "ProbeDIP.from_pixelated / another model's setter; after EVERY step every model built so far must still carry the "
    "dictionary's meaning (C10 = -defocus, aliases 1:1, nothing else non-zero, same aberration surface) and every later use "
    "of the same dictionary must give the first use's result.  (fit) bright-field pixel set on a 6..16 x 6..16 detector: full "
    "disc, annulus, half disc, half annulus, wedge (0.8..3 rad) or random subset (p 0.25..0.9) of the disc of radius 1..n/2-1 "
    "px, optical-axis pixel dropped 1 in 2, random extra pixels 1 in 3 -- i.e. mostly sets that are not point-symmetric and "
    "do not start at the axis pixel; if the set has < 4 pixels or the basis k*lambda has condition number > 30, the half disc "
    "on the set's side (then the full disc) is added by construction; shifts either from "
    "DirectPtychography._return_lateral_shifts on that mask or from the harness's float64 quadratic model handed to "
    "fit_aberrations_from_shifts directly; isotropic or anisotropic reciprocal sampling, energy 20..300 keV, C10 = +-1..1e5 A, "
    "|C12|/|C10| in [0, 0.9], phi12 in (-pi, pi], rotation in (-pi/2+0.01, pi/2-0.01) (3 in 4) or anywhere in [-pi, pi].  "
    "(fit_history, 6 per quick run / 60 per thorough worker, ~2 s each) ONE live DirectPtychography object on a synthetic "
    "virtual bright-field stack -- every image the same smooth random object displaced exactly (Fourier shift) by the "
    "harness's model shift A R(rot) k lambda of its detector pixel; detector 6..9 x 6..9, point-symmetric disc of radius "
    "1.8..n/2-0.6 px, scan 24..32 px at 0.3..0.6 A (iso/anisotropic), 0.06..0.12 1/A per detector pixel, 60..300 keV, largest "
    "displacement 1.5..3 scan px, |C12|/|C10| <= 0.4, rotation in [-1, 1] -- driven through a history fit->fit, "
    "grid_search->fit or optimize(optuna)->fit (1 in 4 with a third fit), each fit with default arguments or with seeds "
    "C10 x (0.8..1.2), rotation +- 0.2, options bin_factors (1,)/(2,1)/(3,2,1), alignment reference/pairwise, "
    "regularize_shifts on/off, dft_upsample_factor 16/32; every cross-correlation fit in the history must return the "
    "generating values.  "
    "Before the random search the 25 polar symbols and 25 Cartesian labels are each isolated once per wavelength/argument "
    "type, and every alias is sent alone to every site (deterministic enumeration).  A case is NON-TRIVIAL when: surface/cart "
    "-- at least one non-zero coefficient and either >= 2 non-zero coefficients of different radial orders or it is one of "
    "the enumerated singletons; alias -- it contains at least one alias key or an unknown key (or is the reverse "
    "C10 -> defocus site); alias_history -- at least one alias key and either >= 2 uses of the same dictionary object or a "
    "re-feed step; fit -- C12 != 0 (and the pixel set is well-conditioned); fit_history "
    "-- >= 2 steps with at least one fit and C12 != 0.  distinct = SHA-1 of the canonical JSON of the whole case.",
    [
        "float64 comparisons are relative to the sum of the amplitudes of the terms at each point (2 pi/lambda sum |C_nm| "
        "alpha^(n+1)/(n+1); for gradients 2 pi sum |C_nm| alpha^n (1 + m/(n+1))): tolerance 1e-10 of that unit; largest error "
        "measured on the clean tree over 30 000 cases 8.2e-15 (surface/basis/conversions/merge) and 8.6e-16 (gradient)",
        "agreement of two trigonometric polynomials of degree <= 6 on 72 generic points is taken as identity of the functions "
        "(failure probability measure-zero); this is the PBT reading of 'symbolically for all reals'",
        "the true gradient is torch autograd through aberration_surface in float64, with alpha = sqrt(ax^2+ay^2), phi = "
        "atan2(ay, ax) built by the harness; at alpha = 0 the value 0 is asserted for surface, basis and gradient instead",
        "fit round trip runs in float32 (spatial_frequencies, shifts, lstsq): tolerance 1e-4 relative to |C10|+|C12| for the "
        "aberration matrix, 1e-4 rad for the rotation, 1e-4 of the largest shift for the refitted field; largest errors "
        "measured on the clean tree over 38 000 targeted cases (incl. 21 000 with asymmetric / off-axis pixel sets, basis "
        "condition number capped at 30): 2.5e-6, 4.9e-6 rad, 5.3e-6",
        "direct fit mode: the harness's forward model is s = A R(rot) k lambda with A = [[C10+C12 cos2phi, C12 sin2phi], "
        "[C12 sin2phi, C10-C12 cos2phi]] and R the passive grid rotation [[cos, -sin], [sin, cos]] quantem's "
        "spatial_frequencies applies; both forward and refit use the harness's own wavelength, so only "
        "fit_aberrations_from_shifts is under test there",
        "fit_history: the shifts are measured by upsampled cross-correlation, so the tolerance is 0.1 (relative aberration "
        "matrix and rad); largest error measured on the clean tree over 400 generated configurations (~700 fits) 9.6e-3, median "
        "4e-4; the object is built with empty initial aberrations and rotation 0 because the seed shifts of the public fit use "
        "the call arguments only (a non-empty initial state is outside what this check feeds); not shrunk on failure (each "
        "attempt costs a full history)",
        "alias_history: ProbeParametric's learnable copies are only judged on models that were never re-assigned (a "
        "probe_params assignment after construction does not rebuild them; not part of the claim); coefficient magnitudes "
        ">= 1e-3 A there because the stored coefficients are also evaluated as a surface",
        "identifiable domain of the fit: |C12| < |C10| (generated ratio <= 0.9) and |rotation| < pi/2 - 0.005; phi12 is "
        "compared modulo pi through the matrix entries (C12 cos 2phi12, C12 sin 2phi12); for |rotation| >= pi/2 only the "
        "refitted shift field is compared (the pair (rotation +- pi, -A) is the same field)",
        "an alias and its canonical symbol are never put in the same dictionary (precedence is unspecified); unknown keys are "
        "only placed where the site validates keys (top level of probe_params, not inside the nested 'aberration_coefs')",
        "alias sites that run a whole alignment/search are judged by metamorphic relations that follow from the alias rule: "
        "alias dictionary and canonical dictionary give the same fit (bit-for-bit expected, 1e-6 allowed); after a search the "
        "coefficients in force evaluate (by aberration_surface) to the surface of their alias-resolved form and lie in the "
        "searched grid/range",
        "float32 evaluation of the surfaces is not compared (rounding only); complex_probe float32 grids are exercised by the "
        "fit kind",
    ],
    workers=(1, 16),
    technique="property-based testing (Hypothesis): cross-representation identities on generated coefficient sets and points "
    "(polar series vs Cartesian basis x converted coefficients, conversion round trips, merge additivity), analytic gradient "
    "vs torch autograd, alias tables vs an independent reference table at every accepting site (incl. metamorphic "
    "alias-vs-canonical runs of the public fitting/search entry points), inverse round trip shifts -> fit",
    text="Generated-input search.  Each case is judged against the identities the property names; the independent parts of "
    "the oracle are torch autograd (gradient), the harness's own alias table and polynomial (x+iy)^m reference series "
    "(vq/refs/c12_ref.py, used for tolerance scales, alias meaning and naming the deviating side), and the generating "
    "parameters of the fit round trip.  Exploration only: no absence claim.",
    note="Trusts torch float64 arithmetic/autograd and numpy.  'Symbolically for all reals' is decided by generic-point "
    "evaluation of fixed-degree trigonometric polynomials, not by a computer-algebra proof.",
    design="DESIGN.md §3 C12",
)

from vq.meta import _m

_m(
    "C10",
    "exploration",
    "Hypothesis draws four kinds of case, every array being a pure function of drawn seeds/profile parameters.  "
    "(obj) ptychography ObjectPixelated: obj_type in {complex, pure_phase, potential} x raw parameters of shape (S 1..4, h 1..12, "
    "w 1..12) with log-uniform magnitudes in 10^[lo,hi] (-6<=lo<hi<=6), optional exact zeros / all-zero / float32 neighbours of 1, "
    "phases uniform, crowded at +-pi (incl. the negative real axis with +-0 imaginary part), constant or zero x constraint dict over "
    "{positivity, fix_potential_baseline(+factor in [0,2]), identical_slices, apply_fov_mask} (each key present or absent; smoothing "
    "filters absent or explicitly None; soft weights optionally set) x FOV mask in {none, ones, zeros, binary, arbitrary [0,1], "
    "blurred binary support as the real caller builds it, constant} x route {obj_model.obj with the mask set through the setter, "
    "apply_hard_constraints(params, mask)} x how the parameters got there {from_array, from_array/from_uniform/from_random then "
    "overwritten in place} x optional re-application of the constraint to its own output.  "
    "(tomo) tomography ObjectVoxelwise volumes (1..6)^3 with positivity on/off and shrinkage in {None, False, 0, 1e-6..1e3}.  "
    "(ortho) ProbePixelated mode stacks M 1..5 on (h,w) 1..12 built as L*Q (L = Cholesky factor of a prescribed correlation matrix: "
    "uniform / uniform with random phases / AR(1) chain / random PSD, largest |off-diagonal| <= 0.99 and smallest eigenvalue >= 0.005; "
    "Q = random orthonormal vectors, optionally with a probe-like envelope) x mode norms (free, ties, equal, spread over 1e-2..1e2, "
    "overall scale 1e-3..1e3) x mode order permutation x route {probe property, _probe_orthogonalization_constraint, probe setter then "
    "property} x numpy/torch input.  "
    "(init) set_initial_probe on ProbePixelated.from_array (3-D stack as above, or one 2-D probe) or from_params (80-300 keV, 10-25 mrad, "
    "defocus, aperture radius 1.5-3 px) x weights {None default, equal, steep 10^-k, integers, floats 1e-3..1e3; list or ndarray} x mean "
    "intensity 1e-3..1e6 x optional second set_initial_probe call with another intensity.  "
    "(obj_multi / tomo_multi) MULTI-INSTANCE: 2-3 models of the same family (ObjectPixelated, resp. tomography ObjectVoxelwise; fields "
    "<= 6x6, volumes <= 4^3) with independently drawn descriptions as above and, by construction, contrasting settings (one model "
    "requests identical_slices / positivity, another explicitly declines it; tomography: one requests positivity, another declines or "
    "is left unconfigured), alive together.  Their operations - construct, write parameters, configure through the constraints setter "
    "or key by key through add_constraint / add_hard_constraint, set the mask, read obj - are merged in a drawn interleaving (each "
    "model keeps its own order); optional early reads give 'read A, build/configure B, read A again'; at the end EVERY model is read, "
    "the first-built last, and each read is judged against that model's OWN requested settings (defaults for keys it never set).  "
    "(recon) END TO END: a tiny Ptychography object (ROI 4-8 px, 2-3 x 2-3 scan, padding 0-2, S 1..3 slices, M 1..3 probe modes, "
    "object from array / uniform / random, simulated positive data) and a drawn history of 1-3 reconstruct() calls with real "
    "optimiser steps (num_iters 1-3, sgd/adam for object and optionally probe, optional mini-batches), each call with its own "
    "reset flag and its own constraints dict for the object model {identical_slices, positivity, apply_fov_mask, "
    "fix_potential_baseline, a soft weight} and/or the probe model {orthogonalize_probe, a soft weight} (keys present or absent).  "
    "After EVERY call obj_model.obj, the patches obj_model.forward() hands to the forward model and probe_model.probe are judged "
    "with the invariants above against what THAT call requested explicitly (tying / positivity / orthogonalisation only when the "
    "call says True; |o| <= 1 always; pure_phase |o| = 1 unless a tying may still be active); at set-up the initial probe must carry "
    "the dataset's mean diffraction intensity with the default weights.  "
    "A case is NON-TRIVIAL when: obj complex/pure_phase - some |raw| > 1 and some |raw| < 1 (in float32); obj potential and tomo - "
    "some raw < 0 and some raw > 0; ortho - M >= 2 and largest pairwise correlation > 0.5; init - M >= 2 with given, not all equal "
    "weights; obj_multi - the models' effective hard settings differ and at least one model is non-trivial by the obj rule; tomo_multi "
    "- requested positivity differs between the models and a positivity model has mixed-sign voxels; recon - some call explicitly requests identical_slices=True with S > 1, positivity=True "
    "for a potential object, or orthogonalize_probe=True with M >= 2.  distinct = SHA-1 of the canonical JSON of the whole case.",
    [
        "invariants are evaluated by the harness in float64/complex128 on the tensors quantem returns; quantem code is never "
        "re-run as its own reference (the only self-application is the re-application C(C(x)) the property itself names)",
        "amplitude tolerances 1e-5 absolute (|o| <= 1 + 1e-5, ||o| - 1| <= 1e-5, | |C(C(x))| - |C(x)| | <= 1e-5): float32 abs/clamp/exp; "
        "largest clean-tree deviations over 156 000 thorough-scale cases 1.1e-7 / 4.3e-8 / 1.3e-7",
        "non-negativity (potential + positivity, tomography + positivity) and slice identity are judged exactly (no tolerance)",
        "mode intensities, total diffraction intensity and relative weights: rtol 1e-5 (float32 sums of <= 144 squares; measured "
        "4.8e-7 / 5.1e-7 / 4.2e-7)",
        "orthogonality: |<p_i,p_j>| / (|p_i||p_j|) <= 1e-5 + 10 * eps32 * cond(C), cond(C) = condition number of the prescribed "
        "correlation matrix computed by the harness: classical Gram-Schmidt loses orthogonality like eps*cond(A)^2 = eps*cond(C); "
        "measured <= 0.55 * eps32 * cond(C) over all structures (<= 4.7e-6 absolute), i.e. >= 18x head-room; deviation from the flat "
        "1e-4 in DESIGN.md, which would leave < 2x at cond 1000",
        "re-application (idempotence of the amplitude) is judged for complex and pure_phase objects only: a potential object enters "
        "the forward model as exp(i*V), whose amplitude is identically 1",
        "with identical_slices and S > 1 the pure_phase unit-amplitude and re-application claims are not asserted (the property: "
        "slice tying is only claimed to tie slices; the mean of phasors is shorter than 1); |o| <= 1 and o >= 0 still are (convexity)",
        "a mask is always supplied when apply_fov_mask or fix_potential_baseline is on via the obj property (as Ptychography.preprocess "
        "does); without any mask those options are exercised through apply_hard_constraints(mask=None)",
        "multi-instance cases assume what the single-instance claim already implies: a model's constraints are its own state, so "
        "building or configuring another model must not change them; each model is judged with the same invariants and tolerances",
        "recon: a setting is only asserted when the judged call itself requests it (what an unmentioned key means after reset=True/False "
        "is quantem's carry-over policy, not part of the property); the orthogonality tolerance uses cond of the Gram matrix of the raw "
        "probe parameters read after the call, and is skipped (counted) when those modes left the domain (correlation > 0.99 or smallest "
        "eigenvalue < 0.005); a history whose raw parameters became non-finite (diverged optimisation) is counted and not judged; "
        "center_probe is never switched on (per-mode shifts are not claimed to keep orthogonality); gc.freeze() after a warm-up only "
        "removes the cost of reconstruct()'s gc.collect() calls",
        "ObjectDIP / ProbeDIP / ProbeParametric are not driven (the property quantifies over raw parameter tensors of the pixelated "
        "models); Gaussian/Butterworth filters are never switched on",
    ],
    workers=(1, 16),
    technique="property-based testing (Hypothesis): admissibility invariants (|o|<=1, |o|=1, o>=0, tied slices, amplitude idempotence; "
    "diagonal Gram matrix, preserved intensity multiset, descending order; total intensity and weights) over generated raw "
    "parameters x constraint dicts x masks and over mode stacks with a prescribed Gram matrix",
    text="Generated-input search: every case is judged against the invariants named in the property, evaluated in float64 on the "
    "returned tensors; probe stacks are constructed with an exactly known correlation structure so that the orthogonality tolerance "
    "follows the Gram-Schmidt error bound.  Exploration only: no absence claim.",
    note="Trusts numpy float64 linear algebra/FFT for the invariants.  Known finding: a fractional FOV mask rescales the amplitude of a "
    "complex object on every application (re-application claim).",
    design="DESIGN.md §3 C10",
)

from vq.meta import _m

_m(
    "C05",
    "exploration",
    "placeholder",
    [],
    workers=(4, 16),
    technique="property-based testing (Hypothesis)",
    text="",
    note="",
    design="DESIGN.md §3 C05",
)

from vq.meta import _m

_m(
    "C05",
    "exploration",
    "Hypothesis draws two kinds of case; every array is a pure function of drawn integer seeds/parameters.  "
    "(resume) a tiny ptychography problem built through the public constructors (Dataset4dstem -> "
    "PtychographyDatasetRaster.preprocess -> ProbePixelated.from_array/from_params, ObjectPixelated.from_array/"
    "from_random/from_uniform -> Ptychography.preprocess): ROI 4..12 per axis (odd/even, non-square), 2..5 x 2..5 scan "
    "positions (<= 25 patterns from a harness-side numpy simulator, 1/100/1e4 counts), scan step 1..3 object pixels "
    "(integers when scan positions are learned), padding 0..4, 80/200/300 keV, object type complex / pure_phase / "
    "potential, 1..2 slices, 1..2 probe modes (2 only from the harness' own mode stack), optionally a learned probe tilt; optimisers for object (always), probe "
    "(4 of 5) and dataset = descan shifts + scan positions (1 of 3), each sgd (optionally momentum 0.5/0.9; lr also the "
    "Python int 1) / adam / adamw (optionally betas, amsgrad, weight_decay) with log-uniform learning rates; per model a "
    "scheduler none / exp (gamma or factor) / linear / cyclic (step sizes 1..3, three modes) / plateau (patience, "
    "cooldown 0..1) parametrised to act within 6 iterations (always one when lr is an int); constraints positivity, "
    "identical_slices, orthogonalize_probe, descan_shifts_constant, TV weights (object xy/z, probe, descan); total "
    "iterations n in 2..6 cut into 2 (any split k in 0..n) or 3 segments; later calls optionally set new constraints, a "
    "new scheduler or new optimiser parameters; store zip/dir (second boundary uses the other one), from_file(device=None|"
    "'cpu'), reconstruct(device=None|'cpu'), snapshots on/off, batch_size None or = number of patterns (always full "
    "batch), which of original/clone is continued first.  The set of optimisers may change along the sequence: in ~1 of 5 "
    "cases (always in the 'attach' sub-search) the dataset and/or probe optimiser is first attached by a call AFTER an "
    "interruption (all branches and the uninterrupted run make the same call).  'lineage' sub-search: three segments, "
    "the first interruption of the reload branch is a data-less checkpoint (save() default save_raw_data=False, then "
    "from_file(path, dset=<dataset rebuilt and preprocessed by the harness>), the documented route), the dataset optimiser "
    "(lr >= 1e-2 adam / 0.1 sgd) is attached after it or was active before and every optimiser is re-stated by the next "
    "call; the second interruption is a with-data checkpoint of that object AND a clone() of it, both continued.  "
    "'route' sub-search (and ~1 of 8 mixed cases): the dataset is optimised by a stateful optimiser and the route by which its "
    "parameters receive gradients changes between two calls of the sequence: autograd=True calls followed by autograd=False "
    "calls (analytic gradients fill object and probe only; optionally back to autograd), or descan_shifts_constant switched "
    "on by a later call.  'order' sub-search (and SGD-only mixed cases, 1 of 2): every optimiser is SGD, the dataset is "
    "learned, >= 2 iterations follow the interruption, TV weights are likely (descan_tv_weight in {1e-2, 0.1, 1} in half of "
    "them) and the harness does NOT align the batch-order generators (align_rng False).  "
    "(skip) the same problems, 1..3 iterations, then a history of 2..3 Ptychography.save calls on one object with skip "
    "lists over {_iter_losses, _iter_lrs, _snapshots, _iter_recon_types, _iter_val_losses, _obj_fov_mask, _dset, dset, the "
    "types list and dict} given as list / tuple / single value or as ONE caller-owned list object passed to every call, "
    "save_raw_data True/False, zip/dir; the last call is always complete (save_raw_data=True, dataset not skipped).  "
    "A case is NON-TRIVIAL when: resume - the first interruption is strictly inside the run (0 < k < n) and either a "
    "stateful optimiser (adam, adamw, sgd with momentum) or an active scheduler is carried across it (the next call does "
    "not replace it), or an optimiser is first attached in a call after an interruption with iterations still to run, or "
    "the case is a lineage case (data-less checkpoint, learned dataset, then with-data checkpoint/clone, all segments "
    ">= 1 iteration), or the gradient route of the dataset parameters changes between two calls under a stateful dataset "
    "optimiser after >= 1 iteration, or the generators are not aligned with 0 < k and >= 2 iterations after the "
    "interruption; skip - some complete save is preceded by a save that skipped something (by name, by type or through "
    "save_raw_data=False) which the complete save itself does not skip.  distinct = SHA-1 of the canonical JSON of the "
    "whole case.",
    [
        "reference = an identically built object that runs the same calls without ever being saved or cloned (A); the "
        "interrupted object is a second build (P).  Compared against A after every segment: the reloaded object (chain: "
        "re-saved/re-loaded at each boundary), the clone (chain), and P itself continued after save()/clone().  Right after "
        "every save/load/clone: loaded/cloned object vs its source and source vs itself before the call, exactly "
        "(num_iters, iter_losses, iter_lrs, constraints; obj/probe to 1e-7*max), device and attribute set of the source "
        "unchanged",
        "tolerances for the continuation: losses 2e-5 relative per iteration, LR history 1e-6 relative, object/probe "
        "1e-6 + 2e-4*max|ref| (+ 2e-3 x sum of that model's learning rates since the first interruption when the model is "
        "driven by Adam/AdamW; 5e-2 x when a FRESH Adam takes its first step after the interruption, i.e. k == 0 or a later "
        "call passes optimizer_params: that step is lr*sign(g), a component whose gradient is below the float32 noise floor "
        "moves by +-lr with a noise-decided sign; for k >= 1 it lies in the bitwise-shared prefix).  Measured on the fixed "
        "tree over 8400 + 6300 generated cases (about 60000 comparisons): losses typically <= 1e-6 relative (worst 5e-6 = 0.24 "
        "of tolerance), LR histories identical, object <= 0.08 and probe <= 0.013 of tolerance outside the fresh-Adam class "
        "(there: up to 1.7 % of the lr path)",
        "the pattern order inside the full batch is drawn from the object's numpy generator, whose state is not restored "
        "by a reload (clone() goes through save/reload because deepcopy fails on non-leaf tensors, and may draw from its "
        "source's generator); the property excludes that order, so the harness re-installs the generator state the source "
        "had (public rng property) on every loaded/cloned object and on the cloned source.  All branches then sum in the "
        "order of the uninterrupted run: on the clean tree continuations are bit-identical to it (2800 generated cases: "
        "loss, LR and probe deviations exactly 0, object <= 4e-4 of tolerance).  The tolerances below were calibrated "
        "WITHOUT that alignment and are kept as they are.  Alignment would hide a full-batch result that depends on the "
        "drawn order, which the property does not excuse: cases with align_rng False leave every branch with the generator "
        "the library gives it (fresh, unseeded after a reload; results then differ run to run at rounding level).  They are "
        "drawn only when every optimiser is SGD and with the amplitude loss (Adam turns rounding noise into lr-sized steps; "
        "the intensity loss scales the SGD step with the dose and amplifies rounding by orders of magnitude at 1e4 counts): "
        "measured over 2640 such cases on the clean tree, worst loss 0.13, object 0.11, probe 0.008 of tolerance",
        "data-less checkpoints carry learned scan positions / descan shifts but not the dataset model's own optimiser, "
        "scheduler and constraints: lineage cases have none of these before the data-less checkpoint or re-state them in "
        "the next call (verified on the clean tree: both flavours continue within 2e-7 of the uninterrupted run even "
        "without generator alignment); the dataset entry of the constraints report is not compared across a data-less load",
        "object comparison for Adam/AdamW-driven objects and for complex/pure_phase objects with autograd is restricted to "
        "the well-illuminated pixels (harness-side illumination map > 5 % of its maximum, np.add.at of the initial probe "
        "intensity over the patch indices), complex/pure_phase modulo one global phase: Adam normalises every pixel's step "
        "to ~lr while float32 FFT rounding is relative to the largest gradient (weak pixels: steps differ by 1e-2*lr between "
        "two summation orders), and the mean-phase subtraction in the forward model feeds pure rounding noise "
        "(-mean(h), sum(h) == 0 analytically) to never-illuminated pixels; SGD-driven potential objects and analytic "
        "gradients are compared on every pixel",
        "total-variation weights are drawn only for a model driven by SGD in every call (object: only from a random-array "
        "start): TV's gradient is sign(diff), TV pulls neighbours to equality and Adam's lr-sized steps reach ties within "
        "a few iterations, whose sign is then rounding noise (measured 0.7e-4 deviations at weight 0.01)",
        "scan positions are learned only from integer-pixel starts (a position exactly at x.5 would be rounded by noise); "
        "measured movement <= 0.1 px (sgd) / 0.3 px (adam) in 6 iterations",
        "not drawn (measured to break float32 reproducibility between two summation orders, independent of "
        "checkpointing): ProbeParametric (aberration-coefficient gradients carry ~1e-3 relative rounding noise), the "
        "poisson loss (log of ~0 predicted intensities), l1 losses, two probe modes from ProbePixelated.from_params (mode 2 "
        "starts as a sub-pixel shifted copy of mode 1: Gram-Schmidt on nearly parallel modes amplifies rounding ~100x), a "
        "learned dataset under Adam from a (nearly) uniform object when k == 0 (scan-position gradients analytically zero); "
        "DIP models (cost)",
        "a reference run that raises is skipped (not a checkpoint matter); a reference run that is not finite or whose loss "
        "grows > 50x only gets the exact save/load/clone state checks (rounding differences are amplified without bound in "
        "a diverging optimisation); 0-iteration calls never rely on scheduler defaults derived from num_iters (they divide "
        "by zero in the uninterrupted run as well)",
        "skip kind: equality with the saved object is judged for complete saves only (the property speaks about saving "
        "together with the data) and only for the items that very call did not skip; in addition every save whose skip= "
        "names something (str, type, list or tuple of them: the documented str | type | Sequence[str | type]; sets are not "
        "Sequences and are not drawn) is reloaded and the named attributes / top-level attributes of the named exact type "
        "must be absent (the documented meaning of skip; this part serves C14)",
        "mini-batch updates (batch_size < number of patterns) and GPU devices are outside the domain (CPU-only machine: "
        "device moves are no-ops, optimizer re-binding after a real device change is not observable here)",
    ],
    workers=(4, 16),
    technique="property-based testing (Hypothesis): differential run of the same generated call sequence on an uninterrupted "
    "object vs reloaded / cloned / saved-original continuations, plus generated histories of save() calls with different skip "
    "arguments; exact state equality right after save/load/clone",
    text="Generated-input search (about 0.8 s per case, lineage cases 1.6 s; quick = 4 workers x (10 skip + 32 resume + 8 route + 8 order "
    "+ 8 attach + 8 lineage) cases without shrinking, thorough = 16 workers x 640 cases).  Every case is judged against a never-interrupted run of the same calls and against the reported state of "
    "the object that was saved/cloned.  The worst observed error/tolerance ratio per quantity is reported under "
    "coverage.extra.  Exploration only: no absence claim.",
    note="CPU only: parameter/optimizer re-binding after a real device move cannot be observed (an early return in "
    "reconnect_optimizer_to_parameters is an equivalent mutant here).  Learned dataset parameters (scan positions, descan "
    "shifts) are not named by the property and are only observed through the losses/object/probe they influence.",
    design="DESIGN.md §3 C05",
)

from vq.meta import _m

_m(
    "C14",
    "exploration",
    "Hypothesis draws AutoSerialize graphs nested through attributes only (depth <= 3, 3 classes) whose attribute names come from a pool "
    "of 9 names so that the same name recurs at several depths, as dict keys and inside containers; values are arbitrary C01 value specs "
    "without objects in containers.  Skip lists: names drawn from present names (twice weighted), absent names, and names that are "
    "class-level attributes of the loaded class (method / property / class attribute / save / print_tree); type lists from 16 type tokens "
    "(int, float, str, bool, list, tuple, dict, set, ndarray, Tensor, a node class, PurePath, nn.Module, object, complex, NoneType); given "
    "as list / tuple / bare value; applied at save, at load, at both, or as types (+names) at save; zip and directory stores.  "
    "NON-TRIVIAL = a skipped name occurs at >= 2 depths of the graph, or a type skip removes >= 1 and keeps >= 1 root attribute; distinct = "
    "SHA-1 of the canonical JSON of the case.",
    [
        "oracle = in-memory prune(graph, names, types) (recursive through attribute-nested AutoSerialize objects only; isinstance for types) "
        "compared with the C01 structural-equality oracle (exact attribute-name sets)",
        "type skipping at LOAD time is not claimed by the property and is not asserted",
        "nested AutoSerialize objects inside containers are outside this property's quantifier",
    ],
    workers=(1, 16),
    technique="property-based testing (Hypothesis graph + skip-list generator; pruning reference model; save-time vs load-time differential)",
    text="Generated graphs and skip lists judged against a pruning reference model and by the save-time/load-time differential; exploration only.",
    note="Trusts the C01 equality oracle and the prune model; Ptychography.save's own skip handling is exercised separately (see DESIGN).",
    design="DESIGN.md §3 C14",
)

from vq.meta import _m

_m(
    "C01",
    "exploration",
    "Hypothesis draws recursive object-graph specs rooted at an importable AutoSerialize subclass (3 classes): attributes from a pool "
    "of 29 names (unicode, dotted, digit-leading, spaces); leaves = bool/int (arbitrary size)/float incl. +-0, +-inf, nan/None/str/"
    "Path & PurePosixPath/complex/NumPy scalars of 12 real + 2 complex dtypes/NumPy arrays of 22 dtypes (incl. big-endian, <U, S, "
    "datetime64, timedelta64) in 0-d, empty, 1-d..4-d and C/F/strided/negative-stride layouts/torch tensors of 12 dtypes (0-d, empty, "
    "requires_grad, nn.Parameter)/nn.Linear, Sequential, ModuleList/np.random.Generator/logging.Logger; containers list, tuple, dict "
    "(keys from a 44-character alphabet without the unrepresentable names), set (hashable leaves and tuples), all-numeric sequences in "
    "homogeneous and mixed flavours, nested AutoSerialize objects through attributes and containers; depth <= 3 (4 in thorough), width "
    "<= 6.  Each graph is saved under two independently drawn configurations (store zip/dir/auto, compression None/0..9, str/Path "
    "target, mode w or o over fresh / existing file / existing directory).  NON-TRIVIAL = the graph has at least one container AND at "
    "least one of {0-d array, empty array, set, None, Path, NumPy scalar, dict inside a sequence, AutoSerialize object inside a "
    "container, tensor with grad}; distinct = SHA-1 of the canonical JSON of (graph spec, both configurations).",
    [
        "structural-equality oracle written from the property text: same class, exactly equal vars() key sets, container kinds, array dtype "
        "(modulo byte order)/shape/contents (NaN==NaN, -0.0==0.0), NumPy scalars and all-numeric sequences by numeric value, tensors by "
        "dtype/shape/values/requires_grad/Parameter-ness, modules by class and state_dict, rng/logger by kind only",
        "dict keys / attribute names exclude what the zarr layer cannot represent ('/', '\\\\', NUL, '', '.', '..', 'zarr.json') and the "
        "serializer's reserved metadata names; ints in mixed numeric sequences bounded by 2^53",
        "hybrid AutoSerialize+nn.Module roots are not generated (their vars() contain torch internals)",
    ],
    workers=(1, 16),
    technique="property-based testing (Hypothesis recursive object-graph generator; round-trip + cross-configuration differential + fixed-point oracle)",
    text="Generated object graphs judged by an independent structural-equality oracle after save/load under two configurations and after a "
    "re-save of the loaded object; exploration only.",
    note="Trusts the harness' builder (spec -> objects) and equality oracle; storage-layer name restrictions are treated as outside the domain.",
    design="DESIGN.md §3 C01",
)

from vq.meta import _m

_m(
    "C03",
    "exploration",
    "(1) Hypothesis RuleBasedStateMachine (<= 12 steps, up to 4 root datasets per history): rules create (Dataset / Dataset2d / 3d / 4d / "
    "4dstem, ndim 1-5, sides 1..9, dtypes int8 / uint16 / int64 / float32 / float64 / complex64, scalar or per-axis calibration), copy, "
    "setters (origin / sampling / units / name / signal_units in scalar, list, array, tuple forms, 1 in 5 with a wrong length that must be "
    "rejected), pad (int / pair / per-axis / output_shape, 5 NumPy modes), crop (all axes / subset / int axis; stop as index, 0 or "
    "negative), bin (factors 1..3 <= axis length, axis subsets, sum / mean), fourier_resample (out_shape or real factors, axis subsets), "
    "__getitem__ (ints incl. negative, slices with positive and negative steps, one list, Ellipsis, short tuples, bare or tuple form; at "
    "least one axis and one element survive); every mutating operation is drawn in-place or copying AND executed in the other variant on a "
    "copy.  Arguments are drawn from the current state.  (2) Bounded-exhaustive: every sequence of length 2 (quick, 3 start datasets) / "
    "3 (thorough, 5 start datasets) over a fixed alphabet of 25 concrete operations (+ 17 'apply the copying operation but stay on the source' variants) applied to the current dataset; the quick tier adds the depth-3 family (copy-and-stay, in-place, copying).  After EVERY step "
    "EVERY dataset created so far in the history is compared with its reference model.  A history is NON-TRIVIAL when it contains >= 2 "
    "data-changing operations of different kinds (pad / crop / bin / resample) or an index using a step, Ellipsis or list; distinct = "
    "SHA-1 of the canonical JSON of the step list.",
    [
        "reference model: numpy array (int64 / float64 / complex128) + origin / sampling / units lists updated by independent formulas (numpy "
        "indexing / np.pad for data; block-loop binning and matrix-DFT resampling references; calibration rules from the docstrings)",
        "comparison exact for integer data, pad, crop and indexing; 1e-9 relative after mean-binning / resampling (5e-5 once float32 / "
        "complex64 data went through an FFT)",
        "negative axes, zero-length axes (over-binning), index expressions mixing a list with integers across a slice (NumPy transposes "
        "axes there), boolean masks and newaxis are outside the domain",
        "the origin of an indexed dataset is not shifted by the slice start in the model (the property only fixes sampling x step)",
    ],
    workers=(1, 16),
    technique="stateful model-based property testing (Hypothesis RuleBasedStateMachine against a reference model, invariant after every step) + bounded-exhaustive enumeration of operation sequences",
    text="Generated and exhaustively enumerated operation histories against an independent reference model with invariants on every dataset "
    "after every step; exhaustive only for the stated alphabet/depth sub-space.",
    note="Trusts numpy indexing/pad semantics and the harness' reference implementations.",
    design="DESIGN.md §3 C03",
)

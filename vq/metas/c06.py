from vq.meta import _m

_m(
    "C06",
    "exploration",
    "Hypothesis draws Dataset / Dataset2d / 3d / 4d / 4dstem instances over arrays of 1-4 dims (sides 1..12/9/6/4), dtypes bool, "
    "int8..int64 (full-range values so narrow accumulators overflow), float32/64, complex64/128, with non-trivial origin and sampling, "
    "each operation in both modify_in_place variants.  bin: axis subsets (None / int / tuple / list forms), factors 1..5 incl. "
    "non-dividing and > length (int / tuple / list / NumPy-integer forms), reducers sum / mean in several spellings.  fourier_resample: "
    "axis subsets, output lengths 1..14 (out_shape or factors path), up / down / odd<->even, identity shapes.  pad to output_shape "
    "(surplus 0..7 per axis, 9 NumPy pad modes) followed by crop of the pad widths (stop given as index / 0 / negative).  NON-TRIVIAL = "
    "a non-dividing factor, an axis subset != all, an odd<->even transition or odd pad surplus, or a non-float dtype; distinct = SHA-1 of "
    "the canonical JSON of the case.",
    [
        "bin oracle: explicit Python block loop in exact integer arithmetic (float64/complex128 otherwise); block-centre coordinates and "
        "covered-region totals recomputed by the harness",
        "resample oracle: separable complex128 matrix DFT implementing the documented definition (centred crop / zero-pad of the fftshifted "
        "spectrum, mean preserving) + the metamorphic laws of the property (mean, centre, extent, linearity, identity, down(up(x)) == x for "
        "signals band-limited strictly below Nyquist)",
        "tolerances: exact for integers and pad/crop; 1e-10 relative (float64 / complex128), 2e-5 (float32 / complex64)",
        "negative axes, float16 and empty input arrays are outside the domain",
    ],
    workers=(1, 16),
    technique="property-based testing (Hypothesis; block-loop and matrix-DFT reference implementations, conservation / metamorphic laws, in-place vs copying differential)",
    text="Generated arrays x operation arguments judged against independent float64 / exact-integer reference implementations and the "
    "conservation laws named in the property; exploration only.",
    note="Trusts the harness' reference implementations (validated against each other during development).",
    design="DESIGN.md §3 C06",
)

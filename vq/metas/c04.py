from vq.meta import _m

_m(
    "C04",
    "exploration",
    "placeholder",
    [],
    workers=(1, 16),
    technique="property-based testing (Hypothesis)",
    text="",
    note="",
    design="DESIGN.md §3 C04",
)

from vq.meta import _m

_m(
    "C04",
    "exploration",
    "Hypothesis draws two kinds of cases, both run through DirectPtychography.from_virtual_bfs(...).reconstruct(...) and read at "
    "corrected_stack / corrected_bf.  Common part: corner-centred detector grid (Q, R) in [5..13]^2; mask = the 3..40 pixels "
    "nearest to the unscattered beam in an elliptical metric (disc/ellipse), or such a set with random pixels removed (blob), "
    "never on the Nyquist row/column, DC-symmetric whenever crop_bf_mask=True (padding 0..2 kept inside the array) and in 1 of 4 "
    "other cases, else asymmetric; given as an explicit list of signed pixel indices in stack order; optional sub-mask (random "
    "3..n-1 of the n pixels, 2 in 3); reciprocal sampling 0.01..0.05 1/A per axis (isotropic or not), passed in 1/A or in mrad; "
    "energy 60/80/200/300 keV; scan shape (sx, sy) in [4..12]^2 (odd, even, non-square) with scan sampling chosen so that the "
    "scan-frequency step is 0.4..2.5 detector pixels; stack = 1 + eps * N(0,1) float32, eps in {0.1, 0.2, 0.5, 1}, from a "
    "drawn seed; aberrations = random subset of {C10, C12, phi12, C21, phi21, C30} (analytic cases: {C10, C12, phi12} or none) "
    "scaled so that the geometric shift at the mask edge is up to ~3 scan pixels, each key canonical or by its alias (defocus, "
    "astigmatism, astigmatism_angle, coma, coma_angle, Cs), dictionary order either way; rotation angle 0 or in [-pi, pi]; "
    "semi-angle cut-off crossing the mask edge (soft-aperture weights in (0,1)) or 3x the mask radius (all weights 1); "
    "hyper-parameters given at construction ('init'), as override_* arguments of reconstruct on an instance built without them "
    "('override'), or as override_* arguments on an instance built with OTHER non-zero values for the same keys ('decoy': "
    "rotation 1.3 or -angle, coefficients 0.5..2.5 shift units, angles +0.7; in decoy cases the rotation angle is exactly "
    "0.0 in 1 of 2 and one coefficient exactly 0.0 in 1 of 3, so that overrides of exactly 0.0 over non-zero "
    "construction-time values occur in ~1/4 of all cases of both kinds); 1 case in 5 is a 'lattice' "
    "configuration (isotropic sampling, scan-frequency step 0.5/1/2 detector pixels exactly, rotation and aberration angles "
    "multiples of pi/4, cut-off on a half-integer pixel radius) where exact ties and transfer-function zeros occur.  (meta) adds kernel name over all 21 "
    "spellings of the five kernels (ssb/single-sideband/acbf/..., obf, mf, prlx/parallax/tcbf/..., icom/center-of-mass, mixed "
    "case) with a second spelling of the same kernel for the batched calls, upsampling None/1/2/3, q_lowpass (1 in 2, above the "
    "first scan frequency) and q_highpass (1 in 3), parallax_flip_phase, soft_edges, the batch sizes {1, n-1, n, largest "
    "non-divisor of n} + up to 3 more (all of 1..n when n <= 9) + one size > n (1 in 3), butterworth_order (default or "
    "2/4/8/24), matched_filter_norm_epsilon (default or 0.03/0.5), a call history of 0..3 earlier reconstruct calls on the "
    "re-used instance, each being either (1 in 3) a NEUTRAL call -- any kernel spelling with every optional stage at its identity "
    "setting: all aberration coefficients exactly 0, parallax_flip_phase=False, up-sampling None/1, the full construction "
    "mask (bf_mask=None or given explicitly), with q_lowpass and/or q_highpass set in 3 of 4 -- or the main call with ONE "
    "argument changed (two, 1 in 4): the mask (sub-mask -> full),  butterworth_order (3x weight; a "
    "cut-off is then forced on the main call), q_lowpass / q_highpass (other value or None), upsampling factor, kernel, "
    "aberrations (halved, or every coefficient exactly 0.0), rotation angle (+-0.05..3 rad, or exactly 0.0), batch size "
    "only, and matched_filter_norm_epsilon (mf) / parallax_flip_phase (parallax) when the main call uses that kernel; a "
    "second stack seed with coefficients a, b in [-2, 2] \\ {0} "
    "and a batch size for the linearity runs, and a random bipartition of the reconstruction mask.  (analytic) parallax "
    "spelling, parallax_flip_phase=False, no upsampling/filters, random batch size, and (1 in 2) one earlier call on the same "
    "instance whose result is not judged: a neutral call as above (half) or any kernel with drawn flip / up-sampling / "
    "filters / mask / halved or zeroed aberrations.  A meta case is NON-TRIVIAL when the "
    "reconstruction mask has >= 4 pixels, at least one tested batch size b with 1 < b < n does not divide n (>= 2 batches of "
    "unequal size) and the un-batched result is not identically zero; cases whose aperture weight is < 0.5 pixel or whose "
    "filtered result is < 5 % of the un-filtered one are recorded as trivial and not judged.  An analytic case is NON-TRIVIAL "
    "when the mask has >= 4 pixels and at least one image is translated by a non-zero shift (non-zero C10 or C12).  distinct = "
    "SHA-1 of the canonical JSON of the whole case.",
    [
        "float32 pipeline; every comparison is relative to the largest magnitude of the compared results (for corrected_bf: max "
        "|corrected_bf| + max |corrected_stack|, because the sum may cancel).  Tolerance / largest error measured on the clean "
        "tree over 3 600 meta + 7 200 analytic cases: schedule invariance and call history 1e-5 / 7.2e-7 (kernels without "
        "gamma), sub-mask vs fresh instance 2e-5 / 1.6e-6, linearity 1e-4 / 1.75e-5 at eps = 0.05 (rounding of the float32 "
        "FFT of 1 + eps*noise is ~1e-7/eps relative to the DC-free signal; eps >= 0.1 is generated now), recombination of "
        "complementary sub-masks 2e-5 / 4.3e-7, analytic parallax 1e-4 / 3.2e-6",
        "ROUNDING SENSITIVITY of the ssb/obf/mf kernels: their Fourier factors contain gamma = P(q-k)P*(k) - P*(q+k)P(k), a "
        "difference of two O(1) terms with float32 phase errors ~1e-7 |chi|, and ssb/obf divide by |gamma| resp. sqrt(sum "
        "|gamma|^2); last-bit differences between torch code paths for different batch shapes (or detector-grid sizes) are "
        "amplified without bound near the zeros of the transfer function (observed 8e-6 of max |result| in an ordinary case, "
        "5 % in a shrunk symmetric case), so no fixed tolerance is sound.  Comparisons between runs whose batch composition "
        "or detector grid differs (relations 1, 3, 5) therefore allow, in addition to the tolerance, the measured change of "
        "the same un-batched reconstruction under a 3e-6 relative change of every hyper-parameter (~50 float32 ulp; angles "
        "3e-6 rad) (for corrected_bf: that change + sqrt(n) x the per-image change); comparisons between runs with identical "
        "batch composition (linearity, call history) get no such allowance -- their kernel factors are bit-identical.  The allowance is 5 x the larger of the responses to +3e-6 and -3e-6 "
        "(the probe is one step per sign and only an estimate: a thorough-tier case had responses 3 % and 66 % in the two "
        "directions), and a case whose response exceeds 0.5 % of the comparison scale is not judged at all by relations 1, 3, "
        "5 (class ill_conditioned, ~4 % of ssb/obf/mf cases); such cases still go through linearity, the call history and the "
        "'reuse' comparison (used instance vs fresh instance, both un-batched: identical kernel factors, no allowance), which "
        "every case gets.  Largest error / allowance on the clean tree with these rules (thorough at VQ_SCALE=0.3, seeds 1 and 2, "
        "49 928 evaluations: pass; instrumented replica of 6 of those workers): 0.049 (parallax batch invariance, no allowance "
        "involved), <= 0.033 elsewhere; history and reuse comparisons bit-identical.  Before these rules: "
        "0.15 (second soak of 3 600 + 7 200 cases with the final "
        "tolerances: <= 0.10 for every relation and kernel); about 5 % of the ssb/obf/mf cases have a sensitivity above 1 % of "
        "max |result| and are thereby effectively not judged by relations 1, 3, 5 (counted as ill_conditioned)",
        "aperture weights W = sum_k |probe(k)|^2 are recomputed by the harness from the public evaluate_probe / "
        "spatial_frequencies functions on the un-cropped grid with the harness's own wavelength (CODATA constants; differs "
        "from quantem's by ~2e-7 relative) and the default soft aperture, which is what reconstruct normalises by; the "
        "recombination relation is therefore only asserted for soft_edges=True instances",
        "corrected_stack is the real part of a complex field whose rounding noise (~1e-7 of the field) does not shrink when the "
        "real part happens to be small (seen: ssb without aberrations, two surviving bins, purely imaginary image, real part "
        "1e-10 of the input scale): comparison scales are never taken below 0.1 x max |stack - 1| / W, and a result below 1e-6 "
        "of that is recorded as zero_result and not judged",
        "a reconstruction mask with total aperture weight < 0.5 pixel is outside the domain (division by ~0); so are "
        "asymmetric masks with crop_bf_mask=True (the crop moves DC), mask pixels on the Nyquist row/column, and batch sizes "
        "> num_bf",
        "analytic oracle: float64 numpy; scattering angle of pixel k = wavelength * public spatial_frequencies(gpts, sampling, "
        "rotation_angle) at that pixel; shift s_k = (wavelength / 2 pi) * autograd gradient of aberration_surface (float64), 0 "
        "at the unscattered beam; translation by the DFT shift theorem on the scan grid, real part (independent of the sign "
        "given to the Nyquist frequency); TRUSTED CONVENTION: image k is moved by +s_k (out(x) = v_k(x - s_k)) -- the "
        "property fixes magnitude and axis, the sign was calibrated once against the pinned tree and is frozen in "
        "vq/refs/c04_ref.py; the alias table (defocus = -C10, others 1:1) is the harness's own, as pinned by C12",
        "relation (5) (reconstruct(bf_mask=sub) equals a fresh instance built from the sub-mask and its images only) and the "
        "call-history relation (a call on an instance that has been used before with other hyper-parameters equals the same "
        "call on a fresh instance) are the harness's reading of 'a deterministic function of the stack, the mask and the "
        "hyper-parameters only'; (5) is what reaches the sub-mask -> stack index mapping for the two-pass kernels, which the "
        "recombination relation does not cover",
        "recombination is asserted for soft_edges=True instances, and for soft_edges=False instances only when every mask pixel "
        "has aperture weight 1 (reconstruct normalises by the soft-aperture weight even for hard-edge instances; which "
        "weight the statement means there is left open)",
        "gc.freeze() is called once in the harness process so that the two gc.collect() calls inside reconstruct cost ~1 ms "
        "instead of ~0.1 s; nothing in quantem is patched",
    ],
    workers=(2, 16),
    technique="property-based testing (Hypothesis): metamorphic relations on generated configurations (batch-size invariance on a "
    "re-used instance with a call history, linearity in the stack, weighted recombination of complementary sub-masks, sub-mask "
    "vs fresh instance) "
    "and a float64 reference model for the parallax kernel (autograd shifts + DFT translation)",
    text="Budget per worker: quick 200 meta + 350 analytic cases (2 workers, ~65 s on an idle machine), thorough 800 meta + 3000 "
    "analytic cases (16 workers: 12 800 + 48 000; ~5 min of CPU per worker).  Generated-input search.  Each configuration is reconstructed 10-25 times through the public entry point and the "
    "results are compared with each other according to the relations the property names; parallax reconstructions without "
    "sign flipping are compared with an independent float64 model.  Exploration only: no absence claim.",
    note="The relations do not pin the content of the ssb/obf/mf/icom kernels or of up-sampled reconstructions (a wrong but "
    "linear, batch-independent, mask-additive kernel passes); only the parallax kernel has an oracle in the statement.  "
    "Trusts numpy float64 FFT and torch float64 autograd.",
    design="DESIGN.md §3 C04",
)
